package server

// Conformance harness for spec/ConfigSync.tla (property C33, proxy side: "loaded by a proxy from the coordinator
// or from its local copy").
//
// G: behaviours enumerated by TLC (save / sync / load from the local copy alone / load from the coordinator, with
// key classes for the control plane and for the proxy) are replayed on the real code:
//   save       models.Namespace.Verify -> Encrypt -> Store.UpdateNamespace on the coordinator (an in-memory
//              models.Client);
//   sync       the real SyncNamespaces(coordinator client, real models.LocalClient on a scratch directory, key);
//   loadlocal  the real loadNamespacesFromClient with an unreachable coordinator (etcd address that refuses the
//              connection) and the same local storage path: the manager's fall-back to the local copy alone;
//   loadcoord  the real LoadDecryptNamespaces on the coordinator client.
// Every load with the key the document was saved with must return the submitted configuration.

import (
	"encoding/json"
	"fmt"
	"math/rand"
	"os"
	"path/filepath"
	"sort"
	"strconv"
	"strings"
	"testing"
	"time"

	"github.com/XiaoMi/Gaea/internal/verifkit"
	"github.com/XiaoMi/Gaea/log"
	"github.com/XiaoMi/Gaea/models"
)

type csyNullLogger struct{}

func (csyNullLogger) SetLevel(name, level string) error                { return nil }
func (csyNullLogger) Debug(format string, a ...interface{}) error       { return nil }
func (csyNullLogger) Trace(format string, a ...interface{}) error       { return nil }
func (csyNullLogger) Notice(format string, a ...interface{}) error      { return nil }
func (csyNullLogger) Warn(format string, a ...interface{}) error        { return nil }
func (csyNullLogger) Fatal(format string, a ...interface{}) error       { return nil }
func (csyNullLogger) Debugx(id, format string, a ...interface{}) error  { return nil }
func (csyNullLogger) Tracex(id, format string, a ...interface{}) error  { return nil }
func (csyNullLogger) Noticex(id, format string, a ...interface{}) error { return nil }
func (csyNullLogger) Warnx(id, format string, a ...interface{}) error   { return nil }
func (csyNullLogger) Fatalx(id, format string, a ...interface{}) error  { return nil }
func (csyNullLogger) Close()                                            {}
func (csyNullLogger) Dropped(i int) uint64                              { return 0 }

// in-memory coordinator
type csyMem struct {
	files  map[string][]byte
	prefix string
}

func (m *csyMem) Create(path string, data []byte) error { m.files[path] = append([]byte(nil), data...); return nil }
func (m *csyMem) Update(path string, data []byte) error { m.files[path] = append([]byte(nil), data...); return nil }
func (m *csyMem) UpdateWithTTL(path string, data []byte, ttl time.Duration) error {
	return m.Update(path, data)
}
func (m *csyMem) Delete(path string) error { delete(m.files, path); return nil }
func (m *csyMem) Read(path string) ([]byte, error) {
	if b, ok := m.files[path]; ok {
		return b, nil
	}
	return nil, nil
}
func (m *csyMem) List(path string) ([]string, error) {
	var out []string
	for k := range m.files {
		if strings.HasPrefix(k, path+"/") {
			out = append(out, k)
		}
	}
	sort.Strings(out)
	return out, nil
}
func (m *csyMem) ListWithValues(path string) (map[string]string, error) {
	out := map[string]string{}
	for k, v := range m.files {
		if strings.HasPrefix(k, path+"/") {
			out[k] = string(v)
		}
	}
	return out, nil
}
func (m *csyMem) Close() error       { return nil }
func (m *csyMem) BasePrefix() string { return m.prefix }

type csyVal struct {
	Cls string `json:"cls"`
	Ver int    `json:"ver"`
}

type csyEvent struct {
	Act string `json:"act"`
	Key string `json:"key"`
	Cls string `json:"cls"`
	St  string `json:"st"`
	V   csyVal `json:"v"`
}

type csyCase struct {
	Events []csyEvent `json:"events"`
	Seed   int64      `json:"seed"`
}

var csyKeys = map[string]string{"k16": "1234abcd5678efg*", "k24": "1234abcd5678efg*ABCDEFGH", "k32": "1234abcd5678efg*ABCDEFGH87654321"}

const (
	csyRoot = "/gaea_sync"
	csyName = "ns_sync"
)

func csyField(cls string, rng *rand.Rand, tag string) string {
	letters := "abcdefghijklmnopqrstuvwxyz0123456789"
	rs := func(n int) string {
		b := make([]byte, n)
		for i := range b {
			b[i] = letters[rng.Intn(len(letters))]
		}
		return string(b)
	}
	switch cls {
	case "len15":
		return tag + rs(15-len(tag))
	case "len16":
		return tag + rs(16-len(tag))
	case "len17":
		return tag + rs(17-len(tag))
	case "nonutf8":
		return tag + string([]byte{0xff, 0xfe, 0x80, 0xc3, 0x28, 0x01}) + rs(3)
	case "quote":
		return tag + `pa"ss'w\` + rs(2)
	case "long":
		return tag + rs(200)
	case "empty":
		return ""
	default:
		return tag + "plain" + rs(3)
	}
}

func csyNamespace(v csyVal, rng *rand.Rand) *models.Namespace {
	ver := strconv.Itoa(1000 + v.Ver)
	slicePw := csyField(v.Cls, rng, "q"+ver)
	return &models.Namespace{
		Name: csyName, Online: true, AllowedDBS: map[string]bool{"db1": true}, SlowSQLTime: ver,
		Users:        []*models.User{{UserName: csyField(v.Cls, rng, "u"+ver), Password: csyField(v.Cls, rng, "p"+ver), Namespace: csyName, RWFlag: 2, RWSplit: 1}},
		Slices:       []*models.Slice{{Name: "slice-0", UserName: csyField(v.Cls, rng, "s"+ver), Password: slicePw, Master: "127.0.0.1:1", Capacity: 4, MaxCapacity: 8, IdleTimeout: 60}},
		DefaultSlice: "slice-0",
	}
}

type csyCreds struct{ user, pw, suser, spw, ver string }

func csyOf(n *models.Namespace) csyCreds {
	c := csyCreds{ver: n.SlowSQLTime}
	if len(n.Users) > 0 {
		c.user, c.pw = n.Users[0].UserName, n.Users[0].Password
	}
	if len(n.Slices) > 0 {
		c.suser, c.spw = n.Slices[0].UserName, n.Slices[0].Password
	}
	return c
}

func csyFind(m map[string]*models.Namespace) *models.Namespace {
	for _, n := range m {
		if n != nil && n.Name == csyName {
			return n
		}
	}
	return nil
}

type csyStats struct {
	drift, loads, syncs int
	notes               []string
}

func runSync(scratch string, idx int, c *csyCase, res *verifkit.Result, st *csyStats) {
	rng := rand.New(rand.NewSource(c.Seed + int64(idx)))
	dir := filepath.Join(scratch, fmt.Sprintf("sync%d", idx%8))
	os.RemoveAll(dir)
	defer os.RemoveAll(dir)
	localDir := filepath.Join(dir, "local")
	mem := &csyMem{files: map[string][]byte{}, prefix: csyRoot}
	submitted := map[int]csyCreds{}
	trail := ""
	for i, e := range c.Events {
		trail += fmt.Sprintf(" %s(%s%s)", e.Act, e.Key, map[bool]string{true: "," + e.Cls, false: ""}[e.Act == "save"])
		key := csyKeys[e.Key]
		switch e.Act {
		case "save":
			ns := csyNamespace(csyVal{Cls: e.Cls, Ver: e.V.Ver}, rng)
			want := csyOf(ns)
			if err := ns.Verify(); err != nil {
				res.Dev("C33 harness sync-save", "Verify: %v", err)
				return
			}
			if got := csyOf(ns); got != want {
				res.Dev("C33 harness sync-save", "Verify changed the credentials of class %s", e.Cls)
				return
			}
			if err := ns.Encrypt(key); err != nil {
				res.Dev("C33 harness sync-save", "Encrypt: %v", err)
				return
			}
			if err := models.NewStore(mem).UpdateNamespace(ns); err != nil {
				res.Dev("C33 harness sync-save", "UpdateNamespace: %v", err)
				return
			}
			submitted[e.V.Ver] = want
		case "sync", "loadlocal", "loadcoord":
			var got map[string]*models.Namespace
			var err error
			src := map[string]string{"sync": "SyncNamespaces", "loadlocal": "local copy alone", "loadcoord": "coordinator"}[e.Act]
			p, msg, _ := verifkit.Catch(func() {
				switch e.Act {
				case "sync":
					lc, lerr := models.NewLocalClient(localDir, csyRoot)
					if lerr != nil {
						err = lerr
						return
					}
					st.syncs++
					got, err = SyncNamespaces(mem, lc, key)
				case "loadlocal":
					// the coordinator refuses the connection: the manager falls back to the local copy
					cfg := &models.Proxy{ConfigType: models.ConfigEtcd, CoordinatorAddr: "127.0.0.1:1", CoordinatorRoot: csyRoot,
						LocalNamespaceStoragePath: localDir, EncryptKey: key}
					got, err = loadNamespacesFromClient(cfg)
				case "loadcoord":
					got, err = LoadDecryptNamespaces(mem, key)
				}
			})
			st.loads++
			if p {
				res.Dev("C33 sync: panic in "+src, "behaviour%s, step %d: %s", trail, i, msg)
				return
			}
			if e.St != "data" {
				continue // another key: error or data, no crash
			}
			want := submitted[e.V.Ver]
			n := csyFind(got)
			if err != nil || n == nil {
				res.Dev("C33 sync: "+src+" cannot be loaded with the key it was saved with",
					"behaviour%s, step %d: %s with the saving key %s failed: %v (namespaces returned: %d)", trail, i, src, e.Key, err, len(got))
				continue
			}
			if g := csyOf(n); g != want {
				field := "credentials"
				if g.ver != want.ver {
					field = "version"
				}
				res.Dev("C33 sync: "+src+" returns another configuration ("+field+")",
					"behaviour%s, step %d: submitted %q, %s returned %q", trail, i, fmt.Sprint(want), src, fmt.Sprint(g))
			}
			if e.Act == "sync" {
				// the local copy is a copy of the coordinator's document (not a verdict: noted as drift)
				var a, b map[string]interface{}
				lb, rerr := os.ReadFile(filepath.Join(localDir, csyRoot, "namespace", csyName+".json"))
				json.Unmarshal(lb, &a)
				json.Unmarshal(mem.files[csyRoot+"/namespace/"+csyName], &b)
				if rerr != nil || fmt.Sprint(a["users"]) != fmt.Sprint(b["users"]) || fmt.Sprint(a["slices"]) != fmt.Sprint(b["slices"]) {
					st.drift++
					if len(st.notes) < 5 {
						st.notes = append(st.notes, fmt.Sprintf("behaviour%s: the local copy is not the coordinator's document (%v)", trail, rerr))
					}
				}
			}
		}
	}
}

func TestVerifConfigSync(t *testing.T) {
	log.SetGlobalLogger(csyNullLogger{})
	out, err := verifkit.OpenOut()
	if err != nil {
		t.Fatalf("verif: %v", err)
	}
	scratch := os.Getenv("VERIF_SCRATCH")
	if scratch == "" {
		t.Fatalf("verif: VERIF_SCRATCH not set")
	}
	st := &csyStats{}
	n, err := verifkit.EachCase(func(i int, raw json.RawMessage) error {
		var c csyCase
		if err := json.Unmarshal(raw, &c); err != nil {
			return err
		}
		res := &verifkit.Result{Case: i}
		runSync(scratch, i, &c, res, st)
		if len(res.Devs) > 0 {
			res.Obs = c
			out.Write(res)
		}
		return nil
	})
	if err != nil {
		t.Fatalf("verif: %v", err)
	}
	out.Close(n, map[string]interface{}{"drift": st.drift, "drift_notes": st.notes, "operations": st.loads, "syncs": st.syncs})
}
