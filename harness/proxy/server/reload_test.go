package server

// Conformance harness for spec/Reload.tla (properties C31 and C29).
//
// Direction G: TLC-generated behaviours (operation sequences with the P-level's expected visible
// state after every step and the I-level's prediction) are replayed on a real Manager
// (ReloadNamespacePrepare / ReloadNamespaceCommit / DeleteNamespace) and, for C29, also on a bare
// UserManager (RebuildNamespaceUsers / ClearNamespaceUsers).  After every step GetNamespace of all
// names and the authentication of every (user, password) of the universe (CheckUser,
// CheckPassword, GetNamespaceByUser, and the real Session.handleHandshakeResponse) are compared.
// Direction V: concurrent administrators (goroutines) with start/end events recorded for TLC.
//
// No network: the namespaces have one slice without master/slave addresses (no node, no pool, the
// health-check goroutines return at once); the 60 s delayed Close of replaced namespaces is ended
// after it cancelled the namespace context; the logger is silent; the statistics manager is a
// bare struct shared by all managers (expvar names can be published only once per process).

import (
	"encoding/json"
	"fmt"
	"net"
	"os"
	"runtime"
	"sort"
	"strings"
	"sync"
	"testing"

	"github.com/XiaoMi/Gaea/internal/verifkit"
	"github.com/XiaoMi/Gaea/log"
	"github.com/XiaoMi/Gaea/models"
	"github.com/XiaoMi/Gaea/mysql"
)

// ------------------------------------------------------------------ plumbing

type rlNullLogger struct{}

func (rlNullLogger) SetLevel(name, level string) error                   { return nil }
func (rlNullLogger) Debug(format string, a ...interface{}) error         { return nil }
func (rlNullLogger) Trace(format string, a ...interface{}) error         { return nil }
func (rlNullLogger) Notice(format string, a ...interface{}) error        { return nil }
func (rlNullLogger) Warn(format string, a ...interface{}) error          { return nil }
func (rlNullLogger) Fatal(format string, a ...interface{}) error         { return nil }
func (rlNullLogger) Debugx(logID, format string, a ...interface{}) error { return nil }
func (rlNullLogger) Tracex(logID, format string, a ...interface{}) error { return nil }
func (rlNullLogger) Noticex(logID, format string, a ...interface{}) error {
	return nil
}
func (rlNullLogger) Warnx(logID, format string, a ...interface{}) error  { return nil }
func (rlNullLogger) Fatalx(logID, format string, a ...interface{}) error { return nil }
func (rlNullLogger) Close()                                              {}
func (rlNullLogger) Dropped(i int) uint64                                { return 0 }

const rlVersionBase = 1000 // configuration version v is carried in MaxSqlExecuteTime = 1000+v

// credential tables: scenario -> namespace -> version -> [[user, password], ...]
type rlCreds struct {
	Scenarios map[string]map[string]map[string][][2]string `json:"scenarios"`
	Extra     [][2]string                                  `json:"extra"` // pairs no configuration contains: must never authenticate
}

func rlLoadCreds() (*rlCreds, error) {
	p := os.Getenv("VERIF_RELOAD_CREDS")
	if p == "" {
		return nil, fmt.Errorf("VERIF_RELOAD_CREDS not set")
	}
	b, err := os.ReadFile(p)
	if err != nil {
		return nil, err
	}
	c := &rlCreds{}
	if err := json.Unmarshal(b, c); err != nil {
		return nil, err
	}
	return c, nil
}

func (c *rlCreds) of(sc int, n string, v int) [][2]string {
	if v == 0 {
		return nil
	}
	return c.Scenarios[fmt.Sprint(sc)][n][fmt.Sprint(v)]
}

// universe of a scenario: every pair of every configuration plus the extra pairs
func (c *rlCreds) universe(sc int, names []string) [][2]string {
	seen := map[[2]string]bool{}
	var out [][2]string
	for _, n := range names {
		vs := c.Scenarios[fmt.Sprint(sc)][n]
		keys := make([]string, 0, len(vs))
		for k := range vs {
			keys = append(keys, k)
		}
		sort.Strings(keys)
		for _, k := range keys {
			for _, p := range vs[k] {
				if !seen[p] {
					seen[p] = true
					out = append(out, p)
				}
			}
		}
	}
	for _, p := range c.Extra {
		if !seen[p] {
			seen[p] = true
			out = append(out, p)
		}
	}
	return out
}

// rlSabotage (binding self-test only): configuration "n/v" is handed to the proxy with other passwords than the
// reference believes.  Set per case, replay is sequential.
var rlSabotage string

func rlConfig(creds *rlCreds, sc int, n string, v int) *models.Namespace {
	cfg := &models.Namespace{
		Name:              n,
		Online:            true,
		AllowedDBS:        map[string]bool{"db": true},
		DefaultSlice:      "s0",
		MaxSqlExecuteTime: rlVersionBase + v,
		Slices: []*models.Slice{{Name: "s0", UserName: "root", Password: "root", Master: "127.0.0.1:1",
			Capacity: 1, MaxCapacity: 1, IdleTimeout: 3600}},
	}
	sabotage := rlSabotage != "" && rlSabotage == fmt.Sprintf("%s/%d", n, v)
	for _, p := range creds.of(sc, n, v) {
		if sabotage {
			p[1] += "~" // the proxy gets another password than the reference believes
		}
		cfg.Users = append(cfg.Users, &models.User{UserName: p[0], Password: p[1], Namespace: n,
			RWFlag: models.ReadWrite, RWSplit: models.NoReadWriteSplit})
	}
	return cfg
}

var rlVerified sync.Map

// rlBuild returns the configuration handed to the Manager.  The configuration is first checked with the
// control plane's own Namespace.Verify (so the credentials used are ones the control plane accepts);
// then the master address is emptied so that no backend node exists and nothing is ever dialled.
func rlBuild(creds *rlCreds, sc int, n string, v int) (*models.Namespace, error) {
	cfg := rlConfig(creds, sc, n, v)
	key := fmt.Sprintf("%d/%s/%d/%s", sc, n, v, rlSabotage)
	if _, ok := rlVerified.Load(key); !ok {
		if err := cfg.Verify(); err != nil {
			return nil, fmt.Errorf("configuration %s rejected by models.Namespace.Verify: %v", key, err)
		}
		rlVerified.Store(key, true)
		cfg = rlConfig(creds, sc, n, v) // Verify trims / fills fields: start again from the raw values
	}
	cfg.Slices[0].Master = ""
	return cfg, nil
}

var (
	rlStatsMu sync.Mutex
	rlStats   *StatisticManager
)

// rlSharedStats: one bare StatisticManager for all managers of the process.  Its SQLResponsePercentile map is
// filled for every namespace name before any operation runs, so that ReloadNamespacePrepare only reads it
// (the code writes the map without a lock).
func rlSharedStats(names []string) *StatisticManager {
	rlStatsMu.Lock()
	defer rlStatsMu.Unlock()
	if rlStats == nil {
		log.SetGlobalLogger(rlNullLogger{})
		rlStats = NewStatisticManager()
		rlStats.SQLResponsePercentile = make(map[string]*SQLResponse)
	}
	for _, n := range names {
		if _, ok := rlStats.SQLResponsePercentile[n]; !ok {
			rlStats.SQLResponsePercentile[n] = NewSQLResponse(n)
		}
	}
	return rlStats
}

// rlManager is a real Manager plus the bookkeeping that keeps it quiet.
type rlManager struct {
	m       *Manager
	names   []string
	wrapped map[*Namespace]bool
	quiet   bool
	sess    *Session
	pipe    net.Conn
}

func rlNewManager(creds *rlCreds, sc int, names []string, init []int, quiet bool) (*rlManager, error) {
	m := NewManager()
	m.statistics = rlSharedStats(names)
	cfgs := map[string]*models.Namespace{}
	for i, n := range names {
		if init[i] != 0 {
			cfg, err := rlBuild(creds, sc, n, init[i])
			if err != nil {
				return nil, err
			}
			cfgs[n] = cfg
		}
	}
	// as CreateManager does (without the statistics tasks)
	current, _, _ := m.switchIndex.Get()
	m.namespaces[current] = CreateNamespaceManager("verifdc", cfgs)
	m.namespaces[current].serverIDC = "verifdc" // CreateNamespaceManager leaves it empty when no namespace is loaded
	um, err := CreateUserManager(cfgs)
	if err != nil {
		return nil, err
	}
	m.users[current] = um
	r := &rlManager{m: m, names: names, wrapped: map[*Namespace]bool{}, quiet: quiet}
	r.hush()
	return r, nil
}

// hush: a replaced namespace is closed by `go ns.Close(true)`, which cancels the namespace context and then
// sleeps 60 s before closing its (empty) slices.  With hundreds of thousands of replayed behaviours these
// sleepers must not pile up: after the real cancel function ran, the closing goroutine ends.
func (r *rlManager) hush() {
	if !r.quiet {
		return
	}
	for _, g := range r.m.namespaces {
		if g == nil {
			continue
		}
		for _, ns := range g.namespaces {
			if ns != nil && !r.wrapped[ns] {
				r.wrapped[ns] = true
				orig := ns.CloseCancel
				ns.CloseCancel = func() {
					orig()
					runtime.Goexit()
				}
			}
		}
	}
}

func (r *rlManager) do(creds *rlCreds, sc int, op, n string, v int) (outcome string, detail string) {
	pan, msg, _ := verifkit.Catch(func() {
		var err error
		switch op {
		case "prepare":
			var cfg *models.Namespace
			cfg, err = rlBuild(creds, sc, n, v)
			if err == nil {
				err = r.m.ReloadNamespacePrepare(cfg)
			}
		case "badprepare":
			// a configuration the proxy rejects (NewNamespace: unparsable slow_sql_time); version 1's users
			var cfg *models.Namespace
			cfg, err = rlBuild(creds, sc, n, 1)
			if err == nil {
				cfg.SlowSQLTime = "not-a-number"
				err = r.m.ReloadNamespacePrepare(cfg)
			}
		case "commit":
			err = r.m.ReloadNamespaceCommit(n)
		case "delete":
			err = r.m.DeleteNamespace(n)
		default:
			err = fmt.Errorf("unknown operation %q", op)
		}
		if err != nil {
			outcome, detail = "fail", err.Error()
		} else {
			outcome = "ok"
		}
	})
	if pan {
		outcome, detail = "panic", msg
	}
	r.hush()
	return
}

// rlLookupPanics is what observe reports for a namespace whose lookup panics in the real code (e.g. the visible
// generation is nil): an observation like any other, it never equals a reference value.
const rlLookupPanics = -2

func (r *rlManager) lookup(n string) (v int) {
	defer func() {
		if recover() != nil {
			v = rlLookupPanics
		}
	}()
	if ns := r.m.GetNamespace(n); ns != nil {
		v = ns.GetMaxExecuteTime() - rlVersionBase
		if ns.GetName() != n {
			v = -1
		}
	}
	return
}

func (r *rlManager) observe() []int {
	out := make([]int, len(r.names))
	for i, n := range r.names {
		out[i] = r.lookup(n)
	}
	return out
}

var rlSalt = []byte("0123456789abcdefghij")

// what a client with (user, password) gets: "" = access denied, otherwise the namespace the session is bound to.
// As in Session.Handshake: CheckUser, CheckPassword, GetNamespaceByUser (handleHandshakeResponse), then
// IsAllowConnect, which denies access when the namespace the credentials map to does not exist.
type rlAuthFn func(u, p string) string

func rlAuthOf(checkUser func(string) bool, checkPw func(string, []byte, []byte) (bool, string), nsOf func(string, string) string, exists func(string) bool) rlAuthFn {
	return func(u, p string) (res string) {
		defer func() {
			if recover() != nil {
				res = "<the lookup panics>"
			}
		}()
		if !checkUser(u) {
			return ""
		}
		ok, pw := checkPw(u, rlSalt, mysql.CalcPassword(rlSalt, []byte(p)))
		if !ok {
			return ""
		}
		ns := nsOf(u, pw)
		if ns == "" || !exists(ns) {
			return ""
		}
		return ns
	}
}

func (r *rlManager) authDirect() rlAuthFn {
	return rlAuthOf(r.m.CheckUser, r.m.CheckPassword, r.m.GetNamespaceByUser, func(n string) bool { return r.m.GetNamespace(n) != nil })
}

// authHandshake goes through the real Session.handleHandshakeResponse (native password plugin) and IsAllowConnect.
func (r *rlManager) authHandshake() rlAuthFn {
	if r.sess == nil {
		a, b := net.Pipe()
		r.pipe = b
		cc := &Session{manager: r.m}
		cc.c = NewClientConn(mysql.NewConn(a), r.m)
		cc.executor = newSessionExecutor(r.m)
		cc.executor.session = cc
		cc.closed.Store(false)
		r.sess = cc
	}
	return func(u, p string) (res string) {
		defer func() {
			if recover() != nil {
				res = "<the lookup panics>"
			}
		}()
		cc := r.sess
		cc.namespace, cc.executor.namespace, cc.executor.user = "", "", ""
		err := cc.handleHandshakeResponse(HandshakeResponseInfo{CollationID: mysql.DefaultCollationID, User: u,
			AuthResponse: mysql.CalcPassword(rlSalt, []byte(p)), Salt: rlSalt, AuthPlugin: mysql.MysqlNativePassword})
		if err != nil || !cc.IsAllowConnect() {
			return ""
		}
		return cc.namespace
	}
}

func (r *rlManager) close() {
	if r.sess != nil {
		r.sess.c.Close()
		r.pipe.Close()
	}
}

// ------------------------------------------------------------------ cases

type rlStep struct {
	Op      string
	N       string
	V       int
	Out     string     // outcome the I-level predicts
	Allowed bool       // may a commit succeed here (something was prepared for N)
	Want    int        // the version a successful commit must activate
	Exp     []int      // P-level: visible state after the step (along the predicted outcomes)
	Iact    []int      // I-level: what the code is predicted to show
	Ptr     [][]string // P-level: reference directory <<namespace, user, password>> (C29 runs)
	Iauth   [][]string // I-level: what the code-shaped directory is predicted to accept (C29 runs)
}

func (s *rlStep) UnmarshalJSON(b []byte) error {
	var raw []json.RawMessage
	if err := json.Unmarshal(b, &raw); err != nil {
		return err
	}
	if len(raw) < 9 {
		return fmt.Errorf("step tuple has %d fields", len(raw))
	}
	dst := []interface{}{&s.Op, &s.N, &s.V, &s.Out, &s.Allowed, &s.Want, &s.Exp, &s.Iact, &s.Ptr, &s.Iauth}
	for i, d := range dst {
		if i >= len(raw) {
			break
		}
		if err := json.Unmarshal(raw[i], d); err != nil {
			return fmt.Errorf("step field %d: %v", i, err)
		}
	}
	return nil
}

type rlCase struct {
	Sabotage string   `json:"sabotage,omitempty"`
	Sc       int      `json:"sc"`
	Ns       []string `json:"ns"`
	Init     []int    `json:"init"`
	Steps    []rlStep `json:"steps"`
}

func rlEq(a, b []int) bool {
	if len(a) != len(b) {
		return false
	}
	for i := range a {
		if a[i] != b[i] {
			return false
		}
	}
	return true
}

func rlLetter(i int) string { return string(rune('A' + i)) }

// rlShape: the operations that matter for the step at index i, with namespaces renamed in order of appearance.
// Window = operations after the last commit attempt; deletes of absent namespaces (no-ops) are dropped; of the
// prepares only the last one counts (it overwrites the pending generation), plus the last prepare of the
// committed namespace when that is a different one; of the deletes after the last prepare only the last one.
// The result is one of a small closed family of shapes whatever the length of the behaviour.
func rlShape(c *rlCase, i int, before [][]int) (string, map[string]string) {
	idxOf := map[string]int{}
	for k, n := range c.Ns {
		idxOf[n] = k
	}
	start := 0
	for j := i - 1; j >= 0; j-- {
		if c.Steps[j].Op == "commit" {
			start = j + 1
			break
		}
	}
	type op struct{ op, n string }
	var w []op
	lastPrep := -1
	for j := start; j <= i; j++ {
		s := c.Steps[j]
		if s.Op == "delete" && j != i && before[j][idxOf[s.N]] == 0 {
			continue
		}
		if s.Op == "badprepare" && j != i {
			continue
		}
		if s.Op == "prepare" {
			lastPrep = len(w)
		}
		w = append(w, op{s.Op, s.N})
	}
	cur := c.Steps[i]
	var seq []op
	if lastPrep >= 0 && cur.Op == "commit" {
		if cur.N != w[lastPrep].n && cur.Want != 0 {
			seq = append(seq, op{"prepare", cur.N})
		}
		seq = append(seq, w[lastPrep])
		// of the deletes after the last prepare only the last one counts: every effective delete rebuilds the
		// spare generation from the visible one, so the earlier ones leave no trace
		lastDel := -1
		for j := lastPrep + 1; j < len(w)-1; j++ {
			if w[j].op == "delete" {
				lastDel = j
			}
		}
		if lastDel >= 0 {
			seq = append(seq, w[lastDel])
		}
		seq = append(seq, w[len(w)-1])
	} else {
		seq = w
	}
	role := map[string]string{}
	var parts []string
	for _, o := range seq {
		if _, ok := role[o.n]; !ok {
			role[o.n] = rlLetter(len(role))
		}
		parts = append(parts, o.op+"("+role[o.n]+")")
	}
	return strings.Join(parts, ";"), role
}

func rlTriples(creds *rlCreds, sc int, names []string, act []int) map[[2]string]string {
	out := map[[2]string]string{}
	for i, n := range names {
		for _, p := range creds.of(sc, n, act[i]) {
			out[p] = n
		}
	}
	return out
}

type rlCounters struct {
	steps, probes, hsProbes, drift, authDrift, panicsNoEffect, unexaminedAfterDrift int
	driftExample, authDriftExample                                                  string
}

// replayManager: one behaviour on a real Manager.
func rlReplayManager(creds *rlCreds, c *rlCase, res *verifkit.Result, cnt *rlCounters, trace *verifkit.Out, id int, handshake bool, prop string, usePtr bool, countDrift bool) {
	r, err := rlNewManager(creds, c.Sc, c.Ns, c.Init, true)
	if err != nil {
		res.Dev(prop+" harness manager-setup-failed", "%v", err)
		return
	}
	defer r.close()
	uni := creds.universe(c.Sc, c.Ns)
	tracked := append([]int{}, c.Init...) // visible state the reference continues from
	if got := r.observe(); !rlEq(got, tracked) {
		res.Dev(prop+" harness initial-state-differs", "loaded %v, GetNamespace shows %v", tracked, got)
		return
	}
	before := make([][]int, len(c.Steps))
	badAuth := map[[2]string]bool{}
	insync := true // the real outcomes and visible states so far are those TLC's behaviour assumes: its exp / iact / ptr apply
	for i := range c.Steps {
		st := &c.Steps[i]
		before[i] = append([]int{}, tracked...)
		cnt.steps++
		out, detail := r.do(creds, c.Sc, st.Op, st.N, st.V)
		got := r.observe()
		mapDev := false
		writeTrace := func() {
			if trace != nil {
				// dev: did this harness flag the step (compared with TLC's own judgement of the recorded line)
				trace.Write(map[string]interface{}{"t": id, "ev": st.Op, "n": st.N, "v": st.V, "out": out, "obs": got, "ns": c.Ns,
					"init": c.Init, "sc": c.Sc, "dev": mapDev})
			}
		}
		// --- I-level faithfulness (MODEL-DRIFT, never a verdict)
		onPath := insync && out == st.Out
		if countDrift && insync && (out != st.Out || !rlEq(got, st.Iact)) {
			cnt.drift++
			if cnt.driftExample == "" {
				cnt.driftExample = fmt.Sprintf("case %d step %d %s(%s,%d): I-level predicts %s %v, code gives %s %v (%s)", id, i, st.Op, st.N, st.V, st.Out, st.Iact, out, got, detail)
			}
		}
		if st.Op == "badprepare" && out == "ok" {
			// the proxy accepted a configuration it is modelled to reject: the reference's bookkeeping of "last prepared" no longer applies
			if !rlEq(got, tracked) {
				mapDev = true
				res.Dev(prop+" prepare changes the visible configuration", "step %d prepare(%s, rejected configuration) %s: visible %v -> %v", i, st.N, out, tracked, got)
			}
			writeTrace()
			cnt.unexaminedAfterDrift += len(c.Steps) - i - 1
			return
		}
		if st.Op == "prepare" && out != "ok" {
			// the reference's "last prepared" (fields allowed / want of the later steps) assumes this prepare succeeded
			if !rlEq(got, tracked) {
				mapDev = true
				res.Dev(prop+" failed prepare changes the visible configuration", "step %d prepare(%s,%d) %s (%s): visible %v -> %v", i, st.N, st.V, out, detail, tracked, got)
			}
			writeTrace()
			cnt.unexaminedAfterDrift += len(c.Steps) - i - 1
			return
		}
		// --- P-level step relation (Reload!PAfter) from the fields TLC emitted
		k := -1
		for j, n := range c.Ns {
			if n == st.N {
				k = j
			}
		}
		exp := append([]int{}, tracked...)
		shape, role := "", map[string]string(nil)
		getShape := func() (string, map[string]string) {
			if role == nil {
				shape, role = rlShape(c, i, before)
			}
			return shape, role
		}
		if out == "ok" {
			switch st.Op {
			case "commit":
				if !st.Allowed {
					sh, ro := getShape()
					mapDev = true
					res.Dev(fmt.Sprintf("%s %s -> commit(%s) reports success though nothing was prepared for %s", prop, sh, ro[st.N], ro[st.N]),
						"step %d: commit(%s) returned nil, no configuration had been prepared for %s", i, st.N, st.N)
				} else {
					exp[k] = st.Want
				}
			case "delete":
				exp[k] = 0
			}
		}
		if onPath && !rlEq(exp, st.Exp) {
			res.Dev(prop+" harness expectation-mismatch", "step %d: step relation gives %v, TLC's expected state is %v", i, exp, st.Exp)
			return
		}
		if out == "panic" && rlEq(got, exp) {
			cnt.panicsNoEffect++
		}
		if !rlEq(got, exp) {
			sh, ro := getShape()
			for j, n := range c.Ns {
				if got[j] == exp[j] {
					continue
				}
				who, ok := ro[n]
				if !ok {
					who = "a namespace outside the sequence"
				}
				b, e, g := tracked[j], exp[j], got[j]
				var kind string
				switch {
				case g == rlLookupPanics:
					kind = "cannot be looked up any more: GetNamespace panics"
				case e == b && g == 0:
					kind = "is lost"
				case e == b && b == 0 && ok && strings.Contains(sh, "delete("+who+")"):
					kind = "(deleted) is resurrected"
				case e == b:
					kind = "gets a configuration without its commit"
				case g == b && st.Op == "commit":
					kind = "is not activated (keeps its previous state)"
				case g == b:
					kind = "is not removed"
				case g == 0:
					kind = "is removed instead of activated"
				default:
					kind = "is activated with a configuration other than the last prepared"
				}
				res.Dev(fmt.Sprintf("%s %s [%s] -> %s %s", prop, sh, out, who, kind),
					"step %d %s(%s) %s %s: %s was %d, the reference says %d, GetNamespace shows %d (all namespaces %v: reference %v, observed %v)",
					i, st.Op, st.N, out, detail, n, b, e, g, c.Ns, exp, got)
			}
			insync = false
			mapDev = true
		}
		writeTrace()
		// --- user directory: every pair of the universe
		wantAuth := rlTriples(creds, c.Sc, c.Ns, exp) // reference
		if usePtr && onPath {
			// C29: the reference directory as TLC printed it (Reload!PTriples)
			fromTLC := map[[2]string]string{}
			for _, t := range st.Ptr {
				if len(t) == 3 {
					fromTLC[[2]string{t[1], t[2]}] = t[0]
				}
			}
			if len(fromTLC) != len(wantAuth) || len(st.Ptr) != len(fromTLC) {
				res.Dev(prop+" harness reference-directory-mismatch", "step %d: TLC %v, derived %v", i, st.Ptr, rlShowTriples(wantAuth))
				return
			}
			for p, n := range fromTLC {
				if wantAuth[p] != n {
					res.Dev(prop+" harness reference-directory-mismatch", "step %d: TLC %v, derived %v", i, st.Ptr, rlShowTriples(wantAuth))
					return
				}
			}
			wantAuth = fromTLC
		}
		seenAuth := rlTriples(creds, c.Sc, c.Ns, got) // what would belong to the observed namespace map
		predicted := map[[2]string]string{}
		for _, t := range st.Iauth {
			if len(t) == 3 {
				predicted[[2]string{t[1], t[2]}] = t[0]
			}
		}
		fns := []rlAuthFn{r.authDirect()}
		if handshake {
			fns = append(fns, r.authHandshake())
		}
		for fi, fn := range fns {
			for _, p := range uni {
				cnt.probes++
				if fi == 1 {
					cnt.hsProbes++
				}
				a := fn(p[0], p[1])
				if countDrift && usePtr && onPath && insync && a != predicted[p] {
					// I-level faithfulness of the code-shaped directory (MODEL-DRIFT, never a verdict)
					cnt.authDrift++
					if cnt.authDriftExample == "" {
						cnt.authDriftExample = fmt.Sprintf("case %d step %d %s(%s,%d): (%q,%q) predicted %q, code %q", id, i, st.Op, st.N, st.V, p[0], p[1], predicted[p], a)
					}
				}
				if a == wantAuth[p] {
					if fi == 0 {
						delete(badAuth, p)
					}
					continue
				}
				if fi == 0 && badAuth[p] {
					continue // an earlier step was blamed for this pair
				}
				if fi == 1 && a == fns[0](p[0], p[1]) {
					continue // same answer as the direct probe, reported there
				}
				if fi == 0 {
					badAuth[p] = true
				}
				via := "CheckUser/CheckPassword/GetNamespaceByUser"
				if fi == 1 {
					via = "Session.handleHandshakeResponse"
				}
				if prop == "C31" {
					if a == seenAuth[p] {
						continue // follows the (already reported) namespace map: same generation
					}
					sh, _ := getShape()
					res.Dev(fmt.Sprintf("C31 %s [%s] -> user directory and namespace map come from different generations", sh, out),
						"step %d %s(%s): namespaces show %v but (%q,%q) authenticates into %q (%s)", i, st.Op, st.N, got, p[0], p[1], a, via)
					continue
				}
				res.Dev(rlAuthSig(creds, c, st, p, wantAuth[p], a), "step %d %s(%s,%d): (%q,%q) must give %q, %s gives %q; reference directory %v",
					i, st.Op, st.N, st.V, p[0], p[1], wantAuth[p], via, a, rlShowTriples(wantAuth))
			}
		}
		if out != st.Out {
			insync = false // from here on only the step relation (resync mode) judges
		}
		tracked = got
		if prop == "C29" {
			tracked = exp // C29 judges the directory only; keep following the reference map
			if !rlEq(got, exp) {
				return
			}
		}
	}
}

func rlShowTriples(m map[[2]string]string) string {
	var s []string
	for p, n := range m {
		s = append(s, fmt.Sprintf("%s:(%q,%q)", n, p[0], p[1]))
	}
	sort.Strings(s)
	return strings.Join(s, " ")
}

// rlAuthSig classifies a C29 deviation by (operation, kind of wrong answer, relation of the probed pair to the
// credentials of the namespace the operation touched).  The relation is a feature of the input, not the input.
func rlAuthSig(creds *rlCreds, c *rlCase, st *rlStep, p [2]string, want, got string) string {
	var kind string
	switch {
	case want != "" && got == "" && want == st.N:
		kind = "configured pair of the changed namespace rejected"
	case want != "" && got == "":
		kind = "configured pair of another namespace rejected"
	case want == "":
		kind = "unconfigured pair accepted"
	default:
		kind = "configured pair bound to the wrong namespace or to none"
	}
	join := func(q [2]string) string { return q[0] + ":" + q[1] }
	rel := 0
	for _, vs := range creds.Scenarios[fmt.Sprint(c.Sc)][st.N] {
		for _, q := range vs {
			f := strings.Split(join(q), ":")
			r := 0
			switch {
			case q != p && join(q) == join(p):
				r = 4
			case q != p && f[0] == p[0] && f[1] == p[1]:
				r = 3
			case q == p && len(f) > 2:
				r = 2
			case q == p:
				r = 1
			}
			if r > rel {
				rel = r
			}
		}
	}
	relation := []string{
		"is unrelated to the credentials of the changed namespace",
		"is a credential (without ':') of the changed namespace",
		"is a credential of the changed namespace that contains ':'",
		"equals the first two ':'-separated fields of a credential of the changed namespace",
		"reads like a credential of the changed namespace when joined with ':'",
	}[rel]
	op := st.Op
	if op == "commit" || op == "prepare" {
		op = "reload"
	}
	if op == "badprepare" {
		op = "rejected submission"
	}
	return fmt.Sprintf("C29 %s -> %s; the pair %s", op, kind, relation)
}

// rlReplayUserManager: the same behaviour on a bare UserManager (reload = RebuildNamespaceUsers at the commit,
// delete = ClearNamespaceUsers).
func rlReplayUserManager(creds *rlCreds, c *rlCase, res *verifkit.Result, cnt *rlCounters, usePtr bool) {
	cfgs := map[string]*models.Namespace{}
	for i, n := range c.Ns {
		if c.Init[i] != 0 {
			cfg, err := rlBuild(creds, c.Sc, n, c.Init[i])
			if err != nil {
				res.Dev("C29 harness config-rejected", "%v", err)
				return
			}
			cfgs[n] = cfg
		}
	}
	um, err := CreateUserManager(cfgs)
	if err != nil {
		res.Dev("C29 harness user-manager-setup-failed", "%v", err)
		return
	}
	uni := creds.universe(c.Sc, c.Ns)
	auth := rlAuthOf(um.CheckUser, um.CheckPassword, um.GetNamespaceByUser, func(string) bool { return true })
	bad := map[[2]string]bool{}
	pending := map[string]int{}
	for i := range c.Steps {
		st := &c.Steps[i]
		switch st.Op {
		case "prepare":
			pending[st.N] = st.V
			continue
		case "commit":
			cfg, err := rlBuild(creds, c.Sc, st.N, pending[st.N])
			if err != nil {
				res.Dev("C29 harness config-rejected", "%v", err)
				return
			}
			um.RebuildNamespaceUsers(cfg)
		case "delete":
			um.ClearNamespaceUsers(st.N)
		}
		cnt.steps++
		want := rlTriples(creds, c.Sc, c.Ns, st.Exp)
		if usePtr {
			want = map[[2]string]string{}
			for _, t := range st.Ptr {
				want[[2]string{t[1], t[2]}] = t[0]
			}
		}
		for _, p := range uni {
			cnt.probes++
			a := auth(p[0], p[1])
			if a == want[p] {
				delete(bad, p)
				continue
			}
			if bad[p] {
				continue
			}
			bad[p] = true
			res.Dev(rlAuthSig(creds, c, st, p, want[p], a), "step %d %s(%s): (%q,%q) must give %q, a bare UserManager (RebuildNamespaceUsers/ClearNamespaceUsers) gives %q; reference directory %v",
				i, st.Op, st.N, p[0], p[1], want[p], a, rlShowTriples(want))
		}
	}
}

// TestVerifReloadReplay: direction G.
func TestVerifReloadReplay(t *testing.T) {
	out, err := verifkit.OpenOut()
	if err != nil {
		t.Fatal(err)
	}
	creds, err := rlLoadCreds()
	if err != nil {
		t.Fatal(err)
	}
	prop := os.Getenv("VERIF_RELOAD_PROP")
	if prop == "" {
		prop = "C31"
	}
	var trace *verifkit.Out
	if p := verifkit.TraceOutPath(); p != "" {
		if trace, err = verifkit.OpenOutPath(p); err != nil {
			t.Fatal(err)
		}
	}
	usePtr := verifkit.EnvInt("VERIF_RELOAD_USE_PTR", 0) == 1
	hsEvery := verifkit.EnvInt("VERIF_RELOAD_HANDSHAKE_EVERY", 1)
	traceEvery := verifkit.EnvInt("VERIF_RELOAD_TRACE_EVERY", 1)
	maxDevCases := verifkit.EnvInt("VERIF_MAX_DEV_CASES", 1<<30)
	keepFrom := verifkit.EnvInt("VERIF_RELOAD_KEEP_FROM", 1<<30) // cases from this index on are always reported in full
	cnt := &rlCounters{}
	ndev := 0
	sigCount := map[string]int{}
	n, err := verifkit.EachCase(func(i int, raw json.RawMessage) error {
		var c rlCase
		if err := json.Unmarshal(raw, &c); err != nil {
			return err
		}
		res := &verifkit.Result{Case: i}
		rlSabotage = c.Sabotage
		var tr *verifkit.Out
		if trace != nil && traceEvery > 0 && i%traceEvery == 0 {
			tr = trace
		}
		pan, msg, stack := verifkit.Catch(func() {
			rlReplayManager(creds, &c, res, cnt, tr, i, (hsEvery > 0 && i%hsEvery == 0) || i >= keepFrom, prop, usePtr, i < keepFrom)
		})
		if pan {
			res.Dev(prop+" harness panic outside an operation", "%s\n%s", msg, stack)
		}
		if prop == "C29" {
			pan, msg, stack = verifkit.Catch(func() { rlReplayUserManager(creds, &c, res, cnt, usePtr) })
			if pan {
				res.Dev("C29 panic in UserManager", "%s\n%s", msg, stack)
			}
		}
		if i >= keepFrom {
			res.Obs = json.RawMessage(raw)
			res.Tag("kept")
			out.Write(res)
			if len(res.Devs) > 0 {
				ndev++
				for _, d := range res.Devs {
					sigCount[d.Sig]++
				}
			}
		} else if len(res.Devs) > 0 {
			ndev++
			// every deviating behaviour is counted per signature; the full record is kept for the first few of each signature
			keep := false
			for _, d := range res.Devs {
				sigCount[d.Sig]++
				if sigCount[d.Sig] <= 3 {
					keep = true
				}
			}
			if keep && ndev <= maxDevCases {
				res.Obs = json.RawMessage(raw)
				out.Write(res)
			}
		}
		return nil
	})
	if err != nil {
		t.Fatal(err)
	}
	if trace != nil {
		trace.Close(n, nil)
	}
	out.Close(n, map[string]interface{}{"steps": cnt.steps, "probes": cnt.probes, "handshake_probes": cnt.hsProbes,
		"drift": cnt.drift, "drift_example": cnt.driftExample, "auth_drift": cnt.authDrift, "auth_drift_example": cnt.authDriftExample, "panics_without_visible_effect": cnt.panicsNoEffect,
		"unexamined_after_drift": cnt.unexaminedAfterDrift, "deviating_cases": ndev, "sig_count": sigCount})
}

// ------------------------------------------------------------------ direction V: concurrent administrators

type rlConcCase struct {
	T       int             `json:"t"`
	Sc      int             `json:"sc"`
	Ns      []string        `json:"ns"`
	Init    []int           `json:"init"`
	Admins  [][]rlConcOp    `json:"admins"`
	Lookups []string        `json:"lookups"`
	Raw     json.RawMessage `json:"-"`
}

type rlConcOp struct {
	Op string `json:"op"`
	N  string `json:"n"`
	V  int    `json:"v"`
}

type rlEvent struct {
	T    int      `json:"t"`
	Ev   string   `json:"ev"`
	A    int      `json:"a"`
	Op   string   `json:"op"`
	N    string   `json:"n"`
	V    int      `json:"v"`
	Out  string   `json:"out"`
	Obs  []int    `json:"obs"`
	Ns   []string `json:"ns"`
	Init []int    `json:"init"`
	Nx   int      `json:"nx"`
}

// TestVerifReloadConcurrent: goroutines issue prepare/commit/delete (and one reads) on one real Manager with no
// coordination other than a common start; every call is bracketed by a start and an end event appended to one
// log under a mutex (the log order is consistent with real time).  No sleeps, no timing assumptions: whatever
// interleaving happens is recorded and judged by TLC (Reload_lin.tla).
func TestVerifReloadConcurrent(t *testing.T) {
	out, err := verifkit.OpenOut()
	if err != nil {
		t.Fatal(err)
	}
	creds, err := rlLoadCreds()
	if err != nil {
		t.Fatal(err)
	}
	trace, err := verifkit.OpenOutPath(verifkit.TraceOutPath())
	if err != nil {
		t.Fatal(err)
	}
	nops, npanics := 0, 0
	n, err := verifkit.EachCase(func(i int, raw json.RawMessage) error {
		var c rlConcCase
		if err := json.Unmarshal(raw, &c); err != nil {
			return err
		}
		r, err := rlNewManager(creds, c.Sc, c.Ns, c.Init, false)
		if err != nil {
			return err
		}
		var mu sync.Mutex
		var evs []rlEvent
		rec := func(ev string, a int, op, n string, v int, o string) {
			mu.Lock()
			evs = append(evs, rlEvent{T: c.T, Ev: ev, A: a, Op: op, N: n, V: v, Out: o, Obs: []int{}, Ns: c.Ns, Init: c.Init})
			mu.Unlock()
		}
		start := make(chan struct{})
		var wg sync.WaitGroup
		for ai, ops := range c.Admins {
			wg.Add(1)
			go func(a int, ops []rlConcOp) {
				defer wg.Done()
				<-start
				for _, o := range ops {
					rec("start", a, o.Op, o.N, o.V, "")
					oc, _ := r.do(creds, c.Sc, o.Op, o.N, o.V)
					rec("end", a, o.Op, o.N, o.V, oc)
				}
			}(ai+1, ops)
		}
		if len(c.Lookups) > 0 {
			wg.Add(1)
			go func() {
				defer wg.Done()
				<-start
				for _, n := range c.Lookups {
					rec("lstart", 0, "lookup", n, 0, "")
					rec("lend", 0, "lookup", n, r.lookup(n), "ok")
				}
			}()
		}
		close(start)
		wg.Wait()
		fin := rlEvent{T: c.T, Ev: "final", Obs: r.observe(), Ns: c.Ns, Init: c.Init}
		for _, e := range evs {
			if e.Ev == "end" {
				nops++
				if e.Out == "panic" {
					npanics++
				}
			}
			trace.Write(e)
		}
		trace.Write(fin)
		return nil
	})
	if err != nil {
		t.Fatal(err)
	}
	trace.Close(n, nil)
	out.Close(n, map[string]interface{}{"operations": nops, "panics": npanics})
}
