package server

// Shared fixture of the statement-family conformance harnesses (C14, C15, C16, C17):
// a real Manager / Namespace / SessionExecutor whose only slice hands out connections of a
// fake backend that records every statement it is asked to execute.  Nothing of the proxy's
// statement path is replaced: COM_* commands go through SessionExecutor.ExecuteCommand.

import (
	"bytes"
	"context"
	"encoding/json"
	"fmt"
	"io"
	"net"
	"os"
	"strings"
	"sync"
	"time"

	"github.com/XiaoMi/Gaea/backend"
	"github.com/XiaoMi/Gaea/models"
	"github.com/XiaoMi/Gaea/mysql"
	"github.com/XiaoMi/Gaea/util"
)

// ---------------------------------------------------------------- fake backend

type stmtBackend struct {
	mu       sync.Mutex
	executed []string // statements received by Execute, in order
	failOn   string   // a statement containing this text fails at the backend
	failNext bool     // the next statement fails at the backend
	gets     int
	puts     int
}

func (b *stmtBackend) take() []string {
	b.mu.Lock()
	defer b.mu.Unlock()
	out := b.executed
	b.executed = nil
	return out
}

type stmtFakeConn struct {
	b      *stmtBackend
	closed bool
}

func (c *stmtFakeConn) Recycle() {
	c.b.mu.Lock()
	c.b.puts++
	c.b.mu.Unlock()
}
func (c *stmtFakeConn) Reconnect() error   { return nil }
func (c *stmtFakeConn) Close()             { c.closed = true }
func (c *stmtFakeConn) IsClosed() bool     { return c.closed }
func (c *stmtFakeConn) UseDB(string) error { return nil }
func (c *stmtFakeConn) Execute(sql string, maxRows int) (*mysql.Result, error) {
	c.b.mu.Lock()
	defer c.b.mu.Unlock()
	c.b.executed = append(c.b.executed, sql)
	if c.b.failNext {
		c.b.failNext = false
		return nil, mysql.NewError(1213, "verif: scripted backend failure (deadlock)")
	}
	if c.b.failOn != "" && strings.Contains(sql, c.b.failOn) {
		return nil, mysql.NewError(1146, "verif: scripted backend failure")
	}
	return &mysql.Result{Status: mysql.ServerStatusAutocommit}, nil
}
func (c *stmtFakeConn) ExecuteWithTimeout(sql string, maxRows int, _ time.Duration) (*mysql.Result, error) {
	return c.Execute(sql, maxRows)
}
func (c *stmtFakeConn) SetAutoCommit(uint8) error              { return nil }
func (c *stmtFakeConn) Begin() error                           { return nil }
func (c *stmtFakeConn) Commit() error                          { return nil }
func (c *stmtFakeConn) Rollback() error                        { return nil }
func (c *stmtFakeConn) Ping() error                            { return nil }
func (c *stmtFakeConn) PingWithTimeout(time.Duration) error    { return nil }
func (c *stmtFakeConn) GetAddr() string                        { return "127.0.0.1:3306" }
func (c *stmtFakeConn) WriteSetStatement() error               { return nil }
func (c *stmtFakeConn) GetConnectionID() int64                 { return 1 }
func (c *stmtFakeConn) GetReturnTime() time.Time               { return time.Time{} }
func (c *stmtFakeConn) MoreRowsExist() bool                    { return false }
func (c *stmtFakeConn) MoreResultsExist() bool                 { return false }
func (c *stmtFakeConn) FetchMoreRows(*mysql.Result, int) error { return nil }
func (c *stmtFakeConn) ReadMoreResult(int) (*mysql.Result, error) {
	return nil, fmt.Errorf("verif: no more results")
}
func (c *stmtFakeConn) SetCharset(string, mysql.CollationID) (bool, error) { return false, nil }
func (c *stmtFakeConn) FieldList(string, string) ([]*mysql.Field, error)   { return nil, nil }
func (c *stmtFakeConn) SetSessionVariables(*mysql.SessionVariables) (bool, error) {
	return false, nil
}
func (c *stmtFakeConn) SyncSessionVariables(*mysql.SessionVariables) error { return nil }

type stmtFakePool struct{ b *stmtBackend }

func (p *stmtFakePool) Open() error        { return nil }
func (p *stmtFakePool) Addr() string       { return "127.0.0.1:3306" }
func (p *stmtFakePool) Datacenter() string { return "" }
func (p *stmtFakePool) Close()             {}
func (p *stmtFakePool) Get(context.Context) (backend.PooledConnect, error) {
	p.b.mu.Lock()
	p.b.gets++
	p.b.mu.Unlock()
	return &stmtFakeConn{b: p.b}, nil
}
func (p *stmtFakePool) GetCheck(ctx context.Context) (backend.PooledConnect, error) {
	return p.Get(ctx)
}
func (p *stmtFakePool) Put(backend.PooledConnect)    {}
func (p *stmtFakePool) SetCapacity(int) error        { return nil }
func (p *stmtFakePool) SetIdleTimeout(time.Duration) {}
func (p *stmtFakePool) StatsJSON() string            { return "{}" }
func (p *stmtFakePool) Capacity() int64              { return 8 }
func (p *stmtFakePool) Available() int64             { return 8 }
func (p *stmtFakePool) Active() int64                { return 0 }
func (p *stmtFakePool) InUse() int64                 { return 0 }
func (p *stmtFakePool) MaxCap() int64                { return 8 }
func (p *stmtFakePool) WaitCount() int64             { return 0 }
func (p *stmtFakePool) WaitTime() time.Duration      { return 0 }
func (p *stmtFakePool) IdleTimeout() time.Duration   { return 0 }
func (p *stmtFakePool) IdleClosed() int64            { return 0 }
func (p *stmtFakePool) SetLastChecked()              {}
func (p *stmtFakePool) GetLastChecked() int64        { return 0 }

// ---------------------------------------------------------------- client side sink

// stmtSinkConn is the client end of the connection: what the harness "sends" is queued in `in` and read by the proxy's
// own packet reader; what the proxy writes is counted and dropped.
type stmtSinkConn struct {
	written int
	in      bytes.Buffer
}

func (s *stmtSinkConn) Read(b []byte) (int, error) {
	if s.in.Len() == 0 {
		return 0, io.EOF
	}
	return s.in.Read(b)
}
func (s *stmtSinkConn) Write(b []byte) (int, error) { s.written += len(b); return len(b), nil }
func (s *stmtSinkConn) Close() error                { return nil }
func (s *stmtSinkConn) LocalAddr() net.Addr {
	return &net.TCPAddr{IP: net.IPv4(127, 0, 0, 1), Port: 13306}
}
func (s *stmtSinkConn) RemoteAddr() net.Addr {
	return &net.TCPAddr{IP: net.IPv4(127, 0, 0, 1), Port: 40000}
}
func (s *stmtSinkConn) SetDeadline(time.Time) error      { return nil }
func (s *stmtSinkConn) SetReadDeadline(time.Time) error  { return nil }
func (s *stmtSinkConn) SetWriteDeadline(time.Time) error { return nil }

// ---------------------------------------------------------------- manager / namespace / session

const stmtNsName = "verif_stmt_ns"

const stmtNsCfg = `{
    "name": "verif_stmt_ns",
    "online": true,
    "read_only": false,
    "allowed_dbs": {"db_v": true},
    "default_phy_dbs": {"db_v": "db_v"},
    "slices": [
        {"name": "slice-0", "user_name": "root", "password": "root", "master": "127.0.0.1:3306",
         "slave": [], "capacity": 8, "max_capacity": 8, "idle_timeout": 3600}
    ],
    "shard_rules": [],
    "users": [
        {"user_name": "verif", "password": "verif", "namespace": "verif_stmt_ns", "rw_flag": 2, "rw_split": 0}
    ],
    "default_slice": "slice-0",
    "support_multi_query": true,
    "max_sql_execute_time": 0
}`

type stmtFixture struct {
	mgr    *Manager
	be     *stmtBackend
	logDir string
	pipes  map[*SessionExecutor]*stmtSinkConn

	panicked string // panic value of the last send ("" = none)
}

// send delivers one command the way a client does and the way Session.Run serves it: the framed packet is queued on the
// connection, the proxy's own reader (mysql.Conn.ReadEphemeralPacket, pooled read buffers) reads it, the session
// dispatches it (Session.execCommand -> SessionExecutor.ExecuteCommand) and the read buffer is recycled.  The packet
// bytes belong to the handler only during the call: before the buffer goes back to the pool it is overwritten, which is
// what the next packet of the connection does to it in Session.Run.
func (f *stmtFixture) send(se *SessionExecutor, cmd byte, payload []byte) Response {
	s := se.session
	pipe := f.pipes[se]
	n := len(payload) + 1
	if n >= mysql.MaxPacketSize {
		panic("verif: packet too large for the harness")
	}
	pipe.in.Write([]byte{byte(n), byte(n >> 8), byte(n >> 16), 0, cmd})
	pipe.in.Write(payload)
	s.c.SetSequence(0)
	data, err := s.c.ReadEphemeralPacket()
	if err != nil || len(data) == 0 {
		panic(fmt.Sprintf("verif: the proxy's packet reader failed on a harness packet: %v", err))
	}
	// a panic in the handler is an observation (Session.Run recovers it and drops the connection), not a harness crash
	var rs Response
	f.panicked = ""
	func() {
		defer func() {
			if r := recover(); r != nil {
				f.panicked = fmt.Sprint(r)
				rs = CreateErrorResponse(se.status, fmt.Errorf("verif: the session panicked: %v", r))
			}
		}()
		rs = s.execCommand(data[0], data[1:])
	}()
	for i := range data {
		data[i] = 0xEE
	}
	if !s.c.hasRecycledReadPacket.CompareAndSwap(true, false) {
		s.c.RecycleReadPacket()
	}
	return rs
}

// cleanup removes the scratch log directory of the statistic manager (call at the end of a test)
func (f *stmtFixture) cleanup() {
	if f.logDir != "" {
		os.RemoveAll(f.logDir)
	}
}

var stmtFix *stmtFixture

func stmtGetFixture() (*stmtFixture, error) {
	if stmtFix != nil {
		return stmtFix, nil
	}
	logDir, err := os.MkdirTemp("", "verif-stmt-logs-")
	if err != nil {
		return nil, err
	}
	proxy := &models.Proxy{
		ConfigType: "file", Environ: "local", Service: "verif_proxy", Cluster: "verif",
		LogPath: logDir, LogLevel: "Notice", LogFileName: "verif", LogOutput: "file",
		ProtoType: "tcp4", ProxyAddr: "127.0.0.1:0", AdminAddr: "127.0.0.1:0",
		SlowSQLTime: 100000, SessionTimeout: 3600, StatsEnabled: "false",
		EncryptKey: "1234abcd5678efg*", ServerIdc: "c3",
	}
	nsConfig := &models.Namespace{}
	if err := json.Unmarshal([]byte(stmtNsCfg), nsConfig); err != nil {
		return nil, err
	}
	m := NewManager()
	sm, err := CreateStatisticManager(proxy, m)
	if err != nil {
		return nil, fmt.Errorf("statistic manager: %v", err)
	}
	m.statistics = sm
	ns, err := NewNamespace(nsConfig, "c3")
	if err != nil {
		return nil, fmt.Errorf("namespace: %v", err)
	}
	be := &stmtBackend{}
	for _, sl := range ns.slices {
		sl.Master = &backend.DBInfo{Nodes: []*backend.NodeInfo{{Address: "127.0.0.1:3306", ConnPool: &stmtFakePool{b: be}, Status: backend.StatusUp}}}
		sl.Slave = &backend.DBInfo{}
		sl.StatisticSlave = &backend.DBInfo{}
	}
	current, _, _ := m.switchIndex.Get()
	nm := NewNamespaceManager()
	nm.namespaces[ns.name] = ns
	m.namespaces[current] = nm
	um, err := CreateUserManager(map[string]*models.Namespace{stmtNsName: nsConfig})
	if err != nil {
		return nil, err
	}
	m.users[current] = um
	stmtFix = &stmtFixture{mgr: m, be: be, logDir: logDir, pipes: map[*SessionExecutor]*stmtSinkConn{}}
	return stmtFix, nil
}

// newSession returns a fresh client session (statement table, session variables) on the shared namespace.
func (f *stmtFixture) newSession(multiStatements bool) *SessionExecutor {
	se := newSessionExecutor(f.mgr)
	se.namespace = stmtNsName
	se.user = "verif"
	se.db = "db_v"
	se.SetCollationID(33)
	se.SetCharset("utf8")
	s := new(Session)
	s.proxy = &Server{manager: f.mgr, ServerVersion: "5.7.25-gaea"}
	s.proxy.ServerVersionCompareStatus = util.NewVersionCompareStatus("5.7.25")
	s.manager = f.mgr
	s.namespace = stmtNsName
	pipe := &stmtSinkConn{}
	s.c = NewClientConn(mysql.NewConn(pipe), f.mgr)
	f.pipes = map[*SessionExecutor]*stmtSinkConn{se: pipe} // one live session at a time
	if multiStatements {
		s.c.capability |= mysql.ClientMultiStatements
	}
	s.executor = se
	se.session = s
	se.SetContextNamespace()
	f.be.take()
	f.be.failOn = ""
	f.be.failNext = false
	return se
}

func respClass(r Response) (string, string) {
	switch r.RespType {
	case RespError:
		if e, ok := r.Data.(error); ok && e != nil {
			return "error", e.Error()
		}
		return "error", ""
	case RespPrepare:
		return "prepared", ""
	case RespNoop:
		return "noop", ""
	case RespOK:
		return "ok", ""
	case RespResult:
		return "result", ""
	}
	return fmt.Sprintf("resp%d", r.RespType), ""
}
