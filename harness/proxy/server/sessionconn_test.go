package server

// Conformance harness for spec/SessionConn.tla (properties C18, C19, C23).
//
// Direction G: every behaviour TLC generated (commands, the fault that fires in each, the abstract
// state the specification expects after each command) is replayed on a real Manager / Namespace /
// Session / SessionExecutor whose slices' connection pools are replaced by fake pools
// (backend.ConnectionPool / backend.PooledConnect) that keep a ledger of every call.  Commands are real
// SQL text / COM_* packets read by the real Session.Run loop from a fake client socket (the harness
// hands over one packet per command and waits until the loop asks for the next one or ends), a
// disconnect is the socket failing, namespace changes go through Manager.ReloadNamespacePrepare /
// ReloadNamespaceCommit while the loop waits for the next packet.
// After each command the projection {autocommit, inTrans, |txConns|, |ksConns|, held, discarded} is
// compared with the expected one, and the P-level monitors run on the ledger.
// Direction V: the ledger is written as NDJSON for SessionConn_trace.tla.

import (
	"context"
	"encoding/json"
	"errors"
	"fmt"
	"math/rand"
	"net"
	"os"
	"path/filepath"
	"sort"
	"strings"
	"sync"
	"testing"
	"time"

	"github.com/XiaoMi/Gaea/backend"
	"github.com/XiaoMi/Gaea/internal/verifkit"
	gaealog "github.com/XiaoMi/Gaea/log"
	"github.com/XiaoMi/Gaea/models"
	"github.com/XiaoMi/Gaea/mysql"
	"github.com/XiaoMi/Gaea/proxy/plan"
	"github.com/XiaoMi/Gaea/util"
	"github.com/go-ini/ini"
)

// ---------------------------------------------------------------------------------------------
// case format (emitted by SessionConn_gen.tla)

type scFault struct {
	Op   string `json:"op"`
	Sl   int    `json:"sl"`
	Kind string `json:"kind"`
}

type scExp struct {
	Ac      bool    `json:"ac"`
	Intx    bool    `json:"intx"`
	Alive   bool    `json:"alive"`
	Reply   string  `json:"reply"`
	Ntx     int     `json:"ntx"`
	Nks     int     `json:"nks"`
	Held    []int   `json:"held"`
	Gone    []int   `json:"gone"`
	Used    [][]int `json:"used"`
	Ended   []int   `json:"ended"`
	Faulted bool    `json:"faulted"`
}

type scCmd struct {
	K     string  `json:"k"`
	Sl    []int   `json:"sl"`
	Kind  string  `json:"kind"`
	First int     `json:"first"`
	Ord   bool    `json:"ord"`
	Mid   bool    `json:"mid"` // the namespace is reloaded while this command executes (at its first backend statement)
	F     scFault `json:"f"`
	Exp   *scExp  `json:"exp"`
	SQL   string  `json:"sql,omitempty"` // optional explicit SQL (replay files / finding cases)
}

type scCase struct {
	Ks   bool    `json:"ks"`
	User string  `json:"user"`
	Cmds []scCmd `json:"cmds"`
}

// ---------------------------------------------------------------------------------------------
// ledger

type scEvent struct {
	T     int    `json:"t"`
	I     int    `json:"i"`
	Ev    string `json:"ev"` // start cmd get geterr op close put reply nschange
	K     string `json:"k"`
	Sl    []int  `json:"sl"`
	C     int    `json:"c"`
	Op    string `json:"op"`
	Ok    bool   `json:"ok"`
	Bad   string `json:"bad"`
	Alive bool   `json:"alive"`
	Ac    bool   `json:"ac"`
	Intx  bool   `json:"intx"`
	Ks    bool   `json:"ks"`
	User  string `json:"user"`
}

type scConn struct {
	w    *scWorld
	pool *scPool
	id   int
	st   string // pool held gone
	bad  string // ok broken closed
	tx   bool
	ac0  bool
	more bool // the last statement's result has more rows to fetch (streamed result)
	got  int // cmdSeq of the command that took it from the pool
	used bool // a statement was sent on it since it was taken
}

type scPool struct {
	w     *scWorld
	sl    int
	ro    int // 0 master 1 replica
	conns []*scConn
}

type scDev struct {
	Sig  string
	What string
}

// scWorld = the fake backend of one behaviour + the P-level monitor state (mirrors SessionConn_trace.tla)
type scWorld struct {
	mu     sync.Mutex
	tid    int
	pools  map[int]*scPool
	ledger []scEvent
	fault  *scFault
	fired  bool
	anyFault string // cause class of the fault that fired in this behaviour, "" if none
	cmdSeq   int
	devs   []scDev

	// monitor state
	ks       bool
	user     string
	ac, intx bool
	alive    bool
	stale    bool
	busy     bool
	txRec    map[int]*scConn // connection of record per slice (transaction)
	ksRec    map[int]*scConn // connection of record per slice (keep-session)
	cmdK     string
	cmdMode  string
	wasTx    bool
	wasStale bool
	pre      map[int]*scConn
	used     [][3]int // slice, conn, inTx(0/1)
	ended    map[int]bool
	firstGetSlice int
	streamNext    bool   // armed: the next successful statement reports MoreRowsExist (its result is streamed)
	midReload     func() // armed: called (once) at the command's first backend statement
	midChange     bool   // a reload happened during the current command
}

func scCid(sl, ro, n int) int { return sl*100 + ro*10 + n }

func newScWorld(tid int, ks bool, user string) *scWorld {
	w := &scWorld{tid: tid, pools: map[int]*scPool{}, ks: ks, user: user, ac: true, alive: true,
		txRec: map[int]*scConn{}, ksRec: map[int]*scConn{}, ended: map[int]bool{}, firstGetSlice: -1}
	for sl := 0; sl < 2; sl++ {
		for ro := 0; ro < 2; ro++ {
			w.pools[sl*10+ro] = &scPool{w: w, sl: sl, ro: ro}
		}
	}
	w.ledger = append(w.ledger, scEvent{T: tid, Ev: "start", Ks: ks, User: user, Sl: []int{}})
	return w
}

func (w *scWorld) inTx() bool { return w.intx || !w.ac }

// dev records an observation the property texts forbid.  The signature names the property, the class of
// the observation, the session mode and the class of backend fault that preceded it in this behaviour
// (not the whole input: a different violation of the same property gets a different signature).
func (w *scWorld) dev(prop, class, format string, a ...interface{}) {
	f := w.anyFault
	if f == "" {
		f = "no-fault"
	}
	mode := "noks"
	if w.ks {
		mode = "ks"
	}
	sig := fmt.Sprintf("%s %s mode=%s cause=%s", prop, class, mode, f)
	what := fmt.Sprintf("[during %s, %s] ", w.cmdK, w.cmdMode) + fmt.Sprintf(format, a...)
	for _, d := range w.devs {
		if d.Sig == sig && d.What == what {
			return
		}
	}
	w.devs = append(w.devs, scDev{Sig: sig, What: what})
}

func (w *scWorld) log(e scEvent) {
	e.T = w.tid
	e.I = len(w.ledger)
	if e.Sl == nil {
		e.Sl = []int{}
	}
	w.ledger = append(w.ledger, e)
}

func (w *scWorld) held() []*scConn {
	var out []*scConn
	for _, k := range []int{0, 1, 10, 11} {
		for _, c := range w.pools[k].conns {
			if c.st == "held" {
				out = append(out, c)
			}
		}
	}
	return out
}

// fires reports whether the armed fault hits operation op on slice sl (and consumes it).
func (w *scWorld) fires(op string, sl int, c *scConn) (string, bool) {
	if w.fault == nil || w.fault.Op != op || w.fault.Sl != sl {
		return "", false
	}
	k := w.fault.Kind
	switch {
	case op == "get":
		w.anyFault = "get-failure"
	case c != nil && c.got == w.cmdSeq && !c.used && (op == "sync" || op == "begin" || op == "setac"):
		w.anyFault = "failed-setup" // a step of getTransactionConn / getBackendKsConn after the Get
	case k == "closed":
		w.anyFault = "closed-connection"
	case k == "broken":
		w.anyFault = "broken-connection"
	default:
		w.anyFault = "statement-error"
	}
	w.fault = nil
	w.fired = true
	return k, true
}

// ---- monitor hooks (called with w.mu held)

func (w *scWorld) monCmd(k string, sl []int) {
	w.busy = true
	w.cmdSeq++
	w.cmdK = k
	w.wasTx = w.inTx()
	w.wasStale = w.stale
	if w.ks {
		w.cmdMode = "ks"
		if w.wasTx {
			w.cmdMode = "ks-tx"
		}
	} else if w.wasTx {
		w.cmdMode = "tx"
	} else {
		w.cmdMode = "plain"
	}
	w.pre = map[int]*scConn{}
	src := w.txRec
	if w.ks {
		src = w.ksRec
	}
	for s, c := range src {
		w.pre[s] = c
	}
	w.used = nil
	w.ended = map[int]bool{}
	w.firstGetSlice = -1
	w.midChange = false
	w.log(scEvent{Ev: "cmd", K: k, Sl: sl})
}

func (w *scWorld) monGet(c *scConn) {
	if w.firstGetSlice < 0 {
		w.firstGetSlice = c.pool.sl
	}
	w.log(scEvent{Ev: "get", C: c.id})
	sl := c.pool.sl
	if w.ks {
		if o := w.ksRec[sl]; o != nil {
			w.dev("C23", "second-connection-for-pinned-slice", "slice %d is pinned to %d but the session took %d", sl, o.id, c.id)
		} else {
			w.ksRec[sl] = c
		}
	} else if w.inTx() && c.pool.ro == 0 {
		if o := w.txRec[sl]; o != nil {
			w.dev("C18", "second-connection-for-transaction-slice", "the transaction owns %d on slice %d but the session took %d", o.id, sl, c.id)
		} else {
			w.txRec[sl] = c
		}
	}
}

func (w *scWorld) monOp(c *scConn, op string, ok bool) {
	w.log(scEvent{Ev: "op", C: c.id, Op: op, Ok: ok, Bad: c.bad})
}

// checks that run before an operation touches connection c
func (w *scWorld) monUse(c *scConn, op string) {
	sl := c.pool.sl
	if c.st != "held" {
		// running a statement = selecting the database on the connection (init) + sending it (exec)
		prop := "C19"
		stmt := op == "exec" || op == "init"
		if stmt && w.ks {
			prop = "C23" // the statement does not run on a connection pinned to (held by) the client
		} else if stmt && w.inTx() {
			prop = "C18" // ... on a connection somebody else may be using
		}
		w.dev(prop, "use-of-returned-connection", "%s on connection %d which the session has already returned (state %s)", op, c.id, c.st)
		return
	}
	if op == "exec" {
		if w.ended[c.id] {
			w.dev("C18", "statement-after-commit-or-rollback", "statement on connection %d after this command's COMMIT/ROLLBACK reached it", c.id)
		}
		if w.ks {
			if w.ksRec[sl] != c {
				w.dev("C23", "statement-not-on-pinned-connection", "statement on %d, slice %d is pinned to %v", c.id, sl, scID(w.ksRec[sl]))
			}
			if w.inTx() && c.pool.ro != 0 && w.user != "ro" {
				// (a read-only user is pinned to a replica by design and cannot write: see the checks' level_note)
				w.dev("C18", "tx-statement-on-replica", "keep-session: statement inside a transaction on replica connection %d", c.id)
			}
		} else if w.inTx() {
			if c.pool.ro != 0 {
				w.dev("C18", "tx-statement-on-replica", "statement inside a transaction on replica connection %d", c.id)
			} else if w.txRec[sl] != c {
				w.dev("C18", "tx-statement-on-other-connection", "statement inside a transaction on %d, the transaction owns %v on slice %d", c.id, scID(w.txRec[sl]), sl)
			}
		}
		it := 0
		if w.inTx() {
			it = 1
		}
		w.used = append(w.used, [3]int{sl, c.id, it})
	}
	if op == "commit" || op == "rollback" || op == "setac1" {
		w.ended[c.id] = true
	}
}

func scID(c *scConn) interface{} {
	if c == nil {
		return "none"
	}
	return c.id
}

func (w *scWorld) monPut(c *scConn) bool {
	w.log(scEvent{Ev: "put", C: c.id})
	if c.st != "held" {
		w.dev("C19", "double-return", "connection %d returned to its pool while in state %s (not handed out)", c.id, c.st)
		return false
	}
	if c.bad == "ok" && c.tx {
		w.dev("C19", "returned-with-open-backend-transaction", "connection %d put back alive with a backend transaction open", c.id)
	}
	sl := c.pool.sl
	if w.txRec[sl] == c {
		delete(w.txRec, sl)
	}
	if w.ksRec[sl] == c {
		delete(w.ksRec, sl)
	}
	return true
}

func (w *scWorld) monReply(ok, alive, ac, intx bool) {
	w.log(scEvent{Ev: "reply", Ok: ok, Alive: alive, Ac: ac, Intx: intx})
	k := w.cmdK
	refused := w.ks && w.wasStale && w.wasTx
	// status flags follow the protocol
	eac, eintx := w.ac, w.intx
	if !refused && k != "disconnect" {
		switch k {
		case "begin":
			if ok {
				eintx = true
			}
		case "commit", "rollback", "quit":
			eintx = false
		case "setac1":
			eac, eintx = true, false
		case "setac0":
			eac = false
		}
	}
	if !alive {
		eintx = false
	}
	if ac != eac || (alive && intx != eintx) {
		w.dev("C18", "status-flags", "after %s (ok=%v) the session reports autocommit=%v inTrans=%v, the protocol says %v %v", k, ok, ac, intx, eac, eintx)
	}
	w.ac, w.intx, w.alive = eac, eintx, alive
	// C18: COMMIT / ROLLBACK reach exactly the connections of the transaction, which are then released
	if !w.ks && (k == "commit" || k == "rollback") {
		for id := range w.ended {
			found := false
			for _, c := range w.pre {
				if c.id == id {
					found = true
				}
			}
			if !found {
				w.dev("C18", k+"-on-foreign-connection", "%s sent to connection %d which is not one of the transaction", k, id)
			}
		}
		for _, c := range w.pre {
			if c.st != "gone" && c.bad == "ok" && !w.ended[c.id] {
				w.dev("C18", k+"-misses-tx-connection", "%s did not reach transaction connection %d", k, c.id)
			}
		}
	}
	if !w.ks && (k == "commit" || k == "rollback" || k == "setac1") {
		for _, c := range w.pre {
			if c.st == "held" {
				w.dev("C18", "tx-connection-not-released", "connection %d of the transaction is still held after %s", c.id, k)
			}
		}
	}
	// C19: nothing held that the session does not need (after the session's end: see below)
	for _, c := range w.held() {
		if !alive {
			break
		}
		sl := c.pool.sl
		if w.ks {
			if w.ksRec[sl] != c {
				w.dev("C19", "held-not-needed", "connection %d is held at the end of the command but is not the pinned connection of slice %d", c.id, sl)
			}
		} else if !w.inTx() {
			w.dev("C19", "held-outside-transaction", "connection %d is still held after the command, outside a transaction", c.id)
		} else if w.txRec[sl] != c {
			w.dev("C19", "held-not-needed", "connection %d is held but is not the transaction's connection of slice %d", c.id, sl)
		}
	}
	// C23: configuration change
	if w.ks && w.wasStale {
		if w.wasTx {
			if alive || (ok && k != "disconnect") {
				w.dev("C23", "transaction-survives-namespace-change", "keep-session client inside a transaction after a namespace change: reply ok=%v, session alive=%v", ok, alive)
			}
		} else {
			for _, c := range w.pre {
				if c.st == "held" {
					w.dev("C23", "pinned-connection-kept-after-namespace-change", "connection %d is still pinned after the namespace changed", c.id)
				}
			}
		}
	}
	if !alive && k != "quit" && k != "disconnect" && !refused {
		// only COM_QUIT, a dead client connection, or a configuration change inside a keep-session
		// transaction end a session (a failed keep-session ping is answered with ErrBadConn, which does too)
		if !(w.ks && k == "ping" && !ok) {
			prop, class := "C19", "session-closed-by-proxy cmd="+k
			if w.ks && w.wasStale {
				prop, class = "C23", "session-closed-by-proxy cmd="+k+" after-namespace-change"
			}
			w.dev(prop, class, "the proxy closed the session after %s (reply ok=%v); namespace changed before the command: %v, in transaction before it: %v", k, ok, w.wasStale, w.wasTx)
		}
	}
	if !alive {
		for _, c := range w.held() {
			what := "conn=live"
			if c.bad != "ok" {
				what = "conn=" + c.bad
			} else if c.tx {
				what = "conn=live-open-transaction"
			}
			w.dev("C19", "leak-at-session-end "+what, "connection %d is still handed out after the session ended (never returned to its pool)", c.id)
			if w.ks && w.ksRec[c.pool.sl] == c {
				w.dev("C23", "pinned-connection-not-released-at-session-end", "pinned connection %d of slice %d was not released when the session ended", c.id, c.pool.sl)
			}
		}
		for _, k := range []int{0, 1, 10, 11} {
			for _, c := range w.pools[k].conns {
				if c.st == "pool" && c.tx {
					w.dev("C19", "open-backend-transaction-at-session-end", "connection %d is back in its pool with a backend transaction open", c.id)
				}
			}
		}
	}
	w.stale = w.midChange // a reload during the command concerns the next one
	w.busy = false
}

// ---------------------------------------------------------------------------------------------
// fake pool

func (p *scPool) Open() error        { return nil }
func (p *scPool) Addr() string       { return fmt.Sprintf("fake-s%d-r%d:3306", p.sl, p.ro) }
func (p *scPool) Datacenter() string { return "" }
func (p *scPool) Close()             {}

func (p *scPool) Get(ctx context.Context) (backend.PooledConnect, error) {
	w := p.w
	w.mu.Lock()
	defer w.mu.Unlock()
	if _, hit := w.fires("get", p.sl, nil); hit {
		if w.firstGetSlice < 0 {
			w.firstGetSlice = p.sl
		}
		w.log(scEvent{Ev: "geterr", C: scCid(p.sl, p.ro, 0)})
		return nil, errors.New("fake pool: injected get failure")
	}
	var c *scConn
	for _, x := range p.conns {
		if x.st == "pool" {
			c = x
			break
		}
	}
	if c == nil {
		c = &scConn{w: w, pool: p, id: scCid(p.sl, p.ro, len(p.conns)+1)}
		p.conns = append(p.conns, c)
	}
	c.st, c.bad, c.tx, c.ac0 = "held", "ok", false, false // the pool resets what it hands out
	c.got, c.used = w.cmdSeq, false
	w.monGet(c)
	return c, nil
}

func (p *scPool) GetCheck(ctx context.Context) (backend.PooledConnect, error) {
	return nil, errors.New("fake pool: no health-check connections")
}
func (p *scPool) Put(pc backend.PooledConnect) {
	if c, ok := pc.(*scConn); ok {
		c.Recycle()
	}
}
func (p *scPool) SetCapacity(capacity int) (err error)     { return nil }
func (p *scPool) SetIdleTimeout(idleTimeout time.Duration) {}
func (p *scPool) StatsJSON() string                        { return "{}" }
func (p *scPool) Capacity() int64                          { return 8 }
func (p *scPool) Available() int64                         { return 8 }
func (p *scPool) Active() int64                            { return 0 }
func (p *scPool) InUse() int64                             { return 0 }
func (p *scPool) MaxCap() int64                            { return 8 }
func (p *scPool) WaitCount() int64                         { return 0 }
func (p *scPool) WaitTime() time.Duration                  { return 0 }
func (p *scPool) IdleTimeout() time.Duration               { return time.Hour }
func (p *scPool) IdleClosed() int64                        { return 0 }
func (p *scPool) SetLastChecked()                          {}
func (p *scPool) GetLastChecked() int64                    { return time.Now().Unix() }

// ---------------------------------------------------------------------------------------------
// fake connection

var errScFault = errors.New("fake backend: injected failure")
var errScDead = errors.New("fake backend: connection is not usable")

// do performs one backend operation: monitors, fault injection, effect on the backend-side state.
func (c *scConn) do(op string) error {
	w := c.w
	w.mu.Lock()
	defer w.mu.Unlock()
	if op == "exec" && w.midReload != nil {
		// the namespace is reloaded (by an administrator, concurrently) while this statement is on its way
		f := w.midReload
		w.midReload = nil
		w.midChange = true
		w.log(scEvent{Ev: "nschange"})
		w.mu.Unlock()
		f()
		w.mu.Lock()
	}
	w.monUse(c, op)
	if c.st == "gone" {
		w.monOp(c, op, false)
		return errScDead
	}
	// (a connection that was returned alive still works, as the real object would: the monitor has flagged the
	// use; the operation takes effect on whoever owns the connection now)
	if c.bad != "ok" {
		w.monOp(c, op, false)
		return errScDead
	}
	fop := op
	if op == "setac0" || op == "setac1" {
		fop = "setac"
	}
	if kind, hit := w.fires(fop, c.pool.sl, c); hit {
		switch kind {
		case "broken":
			c.bad, c.tx = "broken", false
		case "closed":
			c.bad, c.tx = "closed", false
		default:
			if op == "commit" || op == "rollback" {
				c.tx = false
			}
		}
		w.monOp(c, op, false)
		return errScFault
	}
	switch op {
	case "begin":
		c.tx = true
	case "commit", "rollback":
		c.tx = false
	case "setac0":
		c.ac0 = true
	case "setac1":
		c.ac0, c.tx = false, false
	case "exec":
		if c.ac0 {
			c.tx = true
		}
	}
	if op == "exec" {
		c.used = true
		c.more = w.streamNext
		w.streamNext = false
	}
	if op == "fetch" {
		c.more = false
	}
	w.monOp(c, op, true)
	return nil
}

func (c *scConn) Recycle() {
	w := c.w
	w.mu.Lock()
	defer w.mu.Unlock()
	if !w.monPut(c) {
		return
	}
	if c.more { // pooledConnectImpl.Recycle closes a connection that still has rows to fetch
		c.bad, c.tx, c.more = "closed", false, false
	}
	if c.bad == "ok" {
		c.st = "pool"
	} else {
		c.st = "gone"
	}
}

func (c *scConn) Reconnect() error { return nil }

func (c *scConn) Close() {
	w := c.w
	w.mu.Lock()
	defer w.mu.Unlock()
	w.log(scEvent{Ev: "close", C: c.id})
	if c.st != "held" {
		w.dev("C19", "use-of-returned-connection", "Close on connection %d which the session has already returned (state %s)", c.id, c.st)
		return
	}
	c.bad, c.tx = "closed", false
}

func (c *scConn) IsClosed() bool {
	c.w.mu.Lock()
	defer c.w.mu.Unlock()
	return c.bad == "closed"
}

func (c *scConn) UseDB(db string) error { return c.do("init") }

func scResult(sql string) *mysql.Result {
	s := strings.ToLower(strings.TrimSpace(sql))
	for strings.HasPrefix(s, "/*") {
		if i := strings.Index(s, "*/"); i >= 0 {
			s = strings.TrimSpace(s[i+2:])
		} else {
			break
		}
	}
	if strings.HasPrefix(s, "select") || strings.HasPrefix(s, "show") {
		r := new(mysql.Resultset)
		f := &mysql.Field{Charset: 33, Type: 0xFD}
		f.Name = []byte("id")
		r.Fields = append(r.Fields, f)
		r.FieldNames = map[string]int{"id": 0}
		r.Values = append(r.Values, []interface{}{"1"})
		res := mysql.ResultPool.Get()
		res.Resultset = r
		plan.GenerateSelectResultRowData(res)
		return res
	}
	res := mysql.ResultPool.GetWithoutResultSet()
	res.AffectedRows = 1
	return res
}

func (c *scConn) Execute(sql string, maxRows int) (*mysql.Result, error) {
	if err := c.do("exec"); err != nil {
		return nil, err
	}
	return scResult(sql), nil
}
func (c *scConn) ExecuteWithTimeout(sql string, maxRows int, timeout time.Duration) (*mysql.Result, error) {
	return c.Execute(sql, maxRows)
}
func (c *scConn) SetAutoCommit(v uint8) error {
	if v == 0 {
		return c.do("setac0")
	}
	return c.do("setac1")
}
func (c *scConn) Begin() error                                { return c.do("begin") }
func (c *scConn) Commit() error                               { return c.do("commit") }
func (c *scConn) Rollback() error                             { return c.do("rollback") }
func (c *scConn) Ping() error                                 { return c.do("ping") }
func (c *scConn) PingWithTimeout(timeout time.Duration) error { return c.do("ping") }
func (c *scConn) SetCharset(charset string, collation mysql.CollationID) (bool, error) {
	return false, nil
}
func (c *scConn) FieldList(table string, wildcard string) ([]*mysql.Field, error) { return nil, nil }
func (c *scConn) GetAddr() string                                                   { return c.pool.Addr() }
func (c *scConn) SetSessionVariables(frontend *mysql.SessionVariables) (bool, error) {
	return false, nil
}
func (c *scConn) SyncSessionVariables(frontend *mysql.SessionVariables) error { return c.do("sync") }
func (c *scConn) WriteSetStatement() error                                    { return nil }
func (c *scConn) GetConnectionID() int64                                      { return int64(c.id) }
func (c *scConn) GetReturnTime() time.Time                                    { return time.Time{} }
func (c *scConn) MoreRowsExist() bool {
	c.w.mu.Lock()
	defer c.w.mu.Unlock()
	return c.more
}
func (c *scConn) MoreResultsExist() bool                                      { return false }
func (c *scConn) FetchMoreRows(result *mysql.Result, maxRows int) error {
	err := c.do("fetch")
	if err != nil {
		c.w.mu.Lock()
		c.more = false
		c.w.mu.Unlock()
	}
	return err
}
func (c *scConn) ReadMoreResult(maxRows int) (*mysql.Result, error)           { return nil, nil }

// ---------------------------------------------------------------------------------------------
// client side of the session: a net.Conn that swallows what the proxy writes

// scNetConn is the client's socket as the proxy sees it.  Read hands out the packets the harness "sends";
// when the proxy asks for the next packet the previous command is completely processed (Session.Run is back
// at the top of its loop), which is signalled on idle.  Write swallows the proxy's answers, remembering the
// first payload byte of the command's answer (0x00 OK, 0xff ERR, otherwise a result set).
type scNetConn struct {
	in    chan []byte
	idle  chan struct{}
	buf   []byte
	mu    sync.Mutex
	wrote []byte
}

func newScNetConn() *scNetConn {
	return &scNetConn{in: make(chan []byte), idle: make(chan struct{}, 1)}
}

func (n *scNetConn) Read(b []byte) (int, error) {
	if len(n.buf) == 0 {
		select {
		case n.idle <- struct{}{}:
		default:
		}
		pkt, ok := <-n.in
		if !ok {
			return 0, errors.New("EOF: client went away")
		}
		n.buf = pkt
	}
	k := copy(b, n.buf)
	n.buf = n.buf[k:]
	return k, nil
}
func (n *scNetConn) Write(b []byte) (int, error) {
	n.mu.Lock()
	if len(n.wrote) < 8 {
		n.wrote = append(n.wrote, b...)
	}
	n.mu.Unlock()
	return len(b), nil
}
func (n *scNetConn) firstAnswerByte() (byte, bool) {
	n.mu.Lock()
	defer n.mu.Unlock()
	if len(n.wrote) < 5 {
		return 0, false
	}
	return n.wrote[4], true
}
func (n *scNetConn) resetAnswer() {
	n.mu.Lock()
	n.wrote = n.wrote[:0]
	n.mu.Unlock()
}
func (n *scNetConn) Close() error                       { return nil }
func (n *scNetConn) LocalAddr() net.Addr                { return &net.TCPAddr{IP: net.IPv4(127, 0, 0, 1), Port: 1} }
func (n *scNetConn) RemoteAddr() net.Addr               { return &net.TCPAddr{IP: net.IPv4(127, 0, 0, 1), Port: 2} }
func (n *scNetConn) SetDeadline(t time.Time) error      { return nil }
func (n *scNetConn) SetReadDeadline(t time.Time) error  { return nil }
func (n *scNetConn) SetWriteDeadline(t time.Time) error { return nil }

// the proxy's console logger is replaced by a silent one (thousands of reloads would print megabytes)
type scNopLogger struct{}

func (scNopLogger) SetLevel(name, level string) error                        { return nil }
func (scNopLogger) Debug(format string, a ...interface{}) error              { return nil }
func (scNopLogger) Trace(format string, a ...interface{}) error              { return nil }
func (scNopLogger) Notice(format string, a ...interface{}) error             { return nil }
func (scNopLogger) Warn(format string, a ...interface{}) error               { return nil }
func (scNopLogger) Fatal(format string, a ...interface{}) error              { return nil }
func (scNopLogger) Debugx(logID, format string, a ...interface{}) error      { return nil }
func (scNopLogger) Tracex(logID, format string, a ...interface{}) error      { return nil }
func (scNopLogger) Noticex(logID, format string, a ...interface{}) error     { return nil }
func (scNopLogger) Warnx(logID, format string, a ...interface{}) error       { return nil }
func (scNopLogger) Fatalx(logID, format string, a ...interface{}) error      { return nil }
func (scNopLogger) Close()                                                   {}
func (scNopLogger) Dropped(i int) uint64                                     { return 0 }

// ---------------------------------------------------------------------------------------------
// real manager / namespace

const scNsName = "verif_sc_namespace"

var scUsers = map[string]string{"rw": "sc_w", "rws": "sc_rws", "ro": "sc_r"}

func scNamespaceConfig(ks bool) *models.Namespace {
	cfg := fmt.Sprintf(`{
    "name": "%s", "online": true, "read_only": true,
    "allowed_dbs": {"db_ks": true},
    "default_phy_dbs": {"db_ks": "db_ks"},
    "slices": [
        {"name": "slice-0", "user_name": "root", "password": "root", "master": "127.0.0.1:3306", "slaves": ["127.0.0.1:3307"],
         "capacity": 4, "max_capacity": 8, "idle_timeout": 3600},
        {"name": "slice-1", "user_name": "root", "password": "root", "master": "127.0.0.1:13306", "slaves": ["127.0.0.1:13307"],
         "capacity": 4, "max_capacity": 8, "idle_timeout": 3600}
    ],
    "shard_rules": [
        {"db": "db_ks", "table": "tbl_ks", "type": "mod", "key": "id", "locations": [2, 2], "slices": ["slice-0", "slice-1"]}
    ],
    "users": [
        {"user_name": "sc_rws", "password": "p1", "namespace": "%s", "rw_flag": 2, "rw_split": 1},
        {"user_name": "sc_w", "password": "p2", "namespace": "%s", "rw_flag": 2, "rw_split": 0},
        {"user_name": "sc_r", "password": "p3", "namespace": "%s", "rw_flag": 1, "rw_split": 1}
    ],
    "default_slice": "slice-0",
    "check_select_lock": true,
    "set_for_keep_session": %v,
    "max_sql_execute_time": 0
}`, scNsName, scNsName, scNsName, scNsName, ks)
	n := &models.Namespace{}
	if err := json.Unmarshal([]byte(cfg), n); err != nil {
		panic(err)
	}
	return n
}

func scNewManager(logDir string) (*Manager, error) {
	proxyCfg := fmt.Sprintf(`
config_type=file
file_config_path=./etc/file
environ=local
service_name=gaea_proxy
cluster_name=gaea
log_path=%s
log_level=Notice
log_filename=gaea
log_output=file
proto_type=tcp4
proxy_addr=0.0.0.0:13306
slow_sql_time=100000
session_timeout=3600
stats_enabled=false
encrypt_key=1234abcd5678efg*
server_idc=c3
`, logDir)
	var proxy = &models.Proxy{}
	cfg, err := ini.Load([]byte(proxyCfg))
	if err != nil {
		return nil, err
	}
	if err = cfg.MapTo(proxy); err != nil {
		return nil, err
	}
	nsc := scNamespaceConfig(false)
	m := NewManager()
	sm, err := CreateStatisticManager(proxy, m)
	if err != nil {
		return nil, err
	}
	m.statistics = sm
	current, _, _ := m.switchIndex.Get()
	cfgs := map[string]*models.Namespace{scNsName: nsc}
	m.namespaces[current] = CreateNamespaceManager(proxy.ServerIdc, cfgs)
	um, err := CreateUserManager(cfgs)
	if err != nil {
		return nil, err
	}
	m.users[current] = um
	if m.GetNamespace(scNsName) == nil {
		return nil, fmt.Errorf("namespace was not created")
	}
	return m, nil
}

// scInstall replaces every pool of the active namespace by the world's fake pools (and closes the real ones,
// which never connected to anything).  Health checks are cancelled: the fake backend has no health state.
func scInstall(m *Manager, w *scWorld) error {
	ns := m.GetNamespace(scNsName)
	if ns == nil {
		return fmt.Errorf("no namespace")
	}
	ns.CloseCancel()
	for i, name := range []string{"slice-0", "slice-1"} {
		s := ns.GetSlice(name)
		if s == nil {
			return fmt.Errorf("no slice %s", name)
		}
		for ro, info := range []*backend.DBInfo{s.Master, s.Slave} {
			if info == nil || len(info.Nodes) != 1 {
				return fmt.Errorf("slice %s role %d: unexpected node list", name, ro)
			}
			n := info.Nodes[0]
			if _, fake := n.ConnPool.(*scPool); !fake && n.ConnPool != nil {
				n.ConnPool.Close()
			}
			n.ConnPool = w.pools[i*10+ro]
			n.Status = backend.StatusUp
			n.FuseStrategy = nil
			n.RecoveryStrategy = nil
		}
	}
	return nil
}

func scReload(m *Manager, ks bool, w *scWorld) error {
	cfg := scNamespaceConfig(ks)
	if err := m.ReloadNamespacePrepare(cfg); err != nil {
		return err
	}
	if err := m.ReloadNamespaceCommit(cfg.Name); err != nil {
		return err
	}
	return scInstall(m, w)
}

// ---------------------------------------------------------------------------------------------
// one session

type scSession struct {
	m    *Manager
	cc   *Session
	se   *SessionExecutor
	w    *scWorld
	nc   *scNetConn
	done chan struct{}
	gone bool // the client side has been closed
}

var scWheel *util.TimeWheel
var scWheelUses int

// scNewSession builds the session the way Server.onConn does after a successful handshake and starts the real
// Session.Run loop on it.
func scNewSession(m *Manager, w *scWorld) (*scSession, error) {
	if scWheel == nil || scWheelUses > 200 {
		// never started (the idle-session timer is not part of these properties); replaced before its
		// 4096-slot pipeline can fill up and block Remove
		tw, err := util.NewTimeWheel(time.Second, 1)
		if err != nil {
			return nil, err
		}
		scWheel, scWheelUses = tw, 0
	}
	scWheelUses++
	srv := &Server{manager: m, ServerVersion: "5.7.25-gaea", ServerVersionCompareStatus: util.NewVersionCompareStatus("5.7.25-gaea"),
		tw: scWheel, sessionTimeout: time.Hour}
	se := newSessionExecutor(m)
	se.namespace = scNsName
	se.user = scUsers[w.user]
	se.db = "db_ks"
	se.clientAddr = "127.0.0.1:2"
	se.SetCollationID(33)
	se.SetCharset("utf8")
	nc := newScNetConn()
	cc := new(Session)
	cc.c = NewClientConn(mysql.NewConn(nc), m)
	cc.c.proxy = srv
	cc.c.namespace = scNsName
	cc.c.capability = DefaultCapability &^ mysql.ClientMultiStatements
	cc.proxy = srv
	cc.manager = m
	cc.namespace = scNsName
	cc.executor = se
	cc.closed.Store(false)
	se.session = cc
	se.SetContextNamespace()
	// what Server.onConn does after the handshake
	se.keepSession = cc.getNamespace().setForKeepSession
	se.userPriv = cc.getNamespace().userProperties[se.user].RWFlag
	se.userType = cc.getNamespace().userProperties[se.user].OtherProperty
	s := &scSession{m: m, cc: cc, se: se, w: w, nc: nc, done: make(chan struct{})}
	go func() {
		defer close(s.done)
		cc.Run()
	}()
	if !s.wait() {
		return nil, fmt.Errorf("session loop ended before the first command")
	}
	return s, nil
}

var errScStuck = errors.New("the session loop neither asked for the next packet nor ended within 30s")

// wait blocks until Session.Run asks for the next packet (true) or returns (false).
func (s *scSession) wait() bool {
	t := time.NewTimer(30 * time.Second)
	defer t.Stop()
	select {
	case <-s.nc.idle:
		return true
	case <-s.done:
		return false
	case <-t.C:
		panic(errScStuck)
	}
}

// iteration sends one packet to the real Session.Run loop (or makes the client go away) and waits until the
// loop has completely processed it.
func (s *scSession) iteration(k string, sl []int, cmd byte, data []byte) (ok bool) {
	cc := s.cc
	s.w.mu.Lock()
	s.w.monCmd(k, sl)
	s.w.mu.Unlock()
	s.nc.resetAnswer()
	if k == "disconnect" {
		close(s.nc.in)
		s.gone = true
	} else {
		n := 1 + len(data)
		pkt := make([]byte, 0, 4+n)
		pkt = append(pkt, byte(n), byte(n>>8), byte(n>>16), 0, cmd)
		pkt = append(pkt, data...)
		s.nc.in <- pkt
	}
	s.wait()
	ok = true
	if b, any := s.nc.firstAnswerByte(); any && b == mysql.ErrHeader {
		ok = false
	}
	if k == "ping" {
		// a refused keep-session ping (ErrBadConn) closes the session without an answer packet
		if _, any := s.nc.firstAnswerByte(); !any {
			ok = false
		}
	}
	st := cc.executor.GetStatus()
	s.w.mu.Lock()
	s.w.monReply(ok, !cc.IsClosed(), st&mysql.ServerStatusAutocommit > 0, st&mysql.ServerStatusInTrans > 0)
	s.w.mu.Unlock()
	return ok
}

// end makes sure the Run goroutine is gone
func (s *scSession) end() {
	if !s.gone {
		select {
		case <-s.done:
		default:
			close(s.nc.in)
			s.gone = true
		}
	}
	<-s.done
}

// ---------------------------------------------------------------------------------------------
// abstract command -> concrete SQL

var scSQL = map[string][]string{
	"begin":    {"begin", "start transaction", "BEGIN"},
	"commit":   {"commit", "COMMIT"},
	"rollback": {"rollback", "ROLLBACK"},
	"setac0":   {"set autocommit=0", "SET autocommit = off", "set @@autocommit = 0"},
	"setac1":   {"set autocommit=1", "SET autocommit = on", "set @@session.autocommit = 1"},
	"sp-set":        {"savepoint sp1", "SAVEPOINT sp1"},
	"sp-rollbackto": {"rollback to sp1", "ROLLBACK TO SAVEPOINT sp1", "rollback work to savepoint sp1"},
	"sp-release":    {"release savepoint sp1", "RELEASE SAVEPOINT sp1"},
	"u-read":   {"select * from t1 where id = 1", "select id, a from t1", "SELECT count(*) FROM t1 WHERE a > 3", "show tables"},
	"u-stream": {"select * from t1", "select id, a from t1 where a > 0"},
	"u-write":  {"insert into t1 (id, a) values (1, 2)", "update t1 set a = 1 where id = 2", "delete from t1 where id = 3"},
	"u-lock":   {"select * from t1 where id = 1 for update", "select * from t1 where id = 2 lock in share mode"},
	"u-master": {"/*master*/ select * from t1 where id = 1", "select /*master*/ id from t1"},
	"s-read-0":   {"select * from tbl_ks where id = 0", "select a from tbl_ks where id = 1"},
	"s-read-1":   {"select * from tbl_ks where id = 2", "select a from tbl_ks where id = 3"},
	"s-read-01":  {"select * from tbl_ks", "select * from tbl_ks where id in (1, 2)", "select count(*) from tbl_ks"},
	"s-write-0":  {"insert into tbl_ks (id, a) values (0, 1)", "update tbl_ks set a = 1 where id = 1", "delete from tbl_ks where id = 4"},
	"s-write-1":  {"insert into tbl_ks (id, a) values (2, 1)", "update tbl_ks set a = 1 where id = 3", "delete from tbl_ks where id = 6"},
	"s-write-01": {"update tbl_ks set a = 1", "delete from tbl_ks where id in (0, 3)", "update tbl_ks set a = 2 where a = 1"},
}

func scPick(r *rand.Rand, keys ...string) string {
	var all []string
	for _, k := range keys {
		all = append(all, scSQL[k]...)
	}
	return all[r.Intn(len(all))]
}

func scConcrete(c *scCmd, user string, r *rand.Rand) (byte, []byte) {
	if c.SQL != "" {
		return mysql.ComQuery, []byte(c.SQL)
	}
	switch c.K {
	case "begin", "commit", "rollback", "setac0", "setac1":
		return mysql.ComQuery, []byte(scPick(r, c.K))
	case "savepoint":
		switch c.Kind {
		case "rollbackto":
			return mysql.ComQuery, []byte(scPick(r, "sp-rollbackto"))
		case "release":
			return mysql.ComQuery, []byte(scPick(r, "sp-release"))
		}
		return mysql.ComQuery, []byte(scPick(r, "sp-set"))
	case "ping":
		return mysql.ComPing, nil
	case "quit":
		return mysql.ComQuit, nil
	case "unshard":
		switch c.Kind {
		case "read":
			return mysql.ComQuery, []byte(scPick(r, "u-read"))
		case "lockread":
			return mysql.ComQuery, []byte(scPick(r, "u-lock"))
		case "stream":
			return mysql.ComQuery, []byte(scPick(r, "u-stream"))
		default: // "write": anything that has to go to the master for this user
			if user == "rw" {
				return mysql.ComQuery, []byte(scPick(r, "u-write", "u-lock", "u-master", "u-read"))
			}
			if user == "rws" {
				return mysql.ComQuery, []byte(scPick(r, "u-write", "u-lock", "u-master"))
			}
			return mysql.ComQuery, []byte(scPick(r, "u-write"))
		}
	case "shard":
		set := ""
		for _, s := range c.Sl {
			set += fmt.Sprint(s)
		}
		if set == "10" {
			set = "01"
		}
		kind := c.Kind
		if kind == "write" && user == "rw" && r.Intn(2) == 0 {
			kind = "read"
		}
		return mysql.ComQuery, []byte(scPick(r, "s-"+kind+"-"+set))
	}
	return mysql.ComQuery, []byte("select 1")
}

// ---------------------------------------------------------------------------------------------
// replay of one behaviour

type scObs struct {
	Ac    bool  `json:"ac"`
	Intx  bool  `json:"intx"`
	Alive bool  `json:"alive"`
	Reply string `json:"reply"`
	Ntx   int   `json:"ntx"`
	Nks   int   `json:"nks"`
	Held  []int `json:"held"`
	Gone  []int `json:"gone"`
	Used  [][]int `json:"used"`
}

func (s *scSession) observe(ok bool, k string) scObs {
	w := s.w
	w.mu.Lock()
	defer w.mu.Unlock()
	st := s.se.GetStatus()
	o := scObs{Ac: st&mysql.ServerStatusAutocommit > 0, Intx: st&mysql.ServerStatusInTrans > 0, Alive: !s.cc.IsClosed(),
		Ntx: len(s.se.txConns), Nks: len(s.se.ksConns), Held: []int{}, Gone: []int{}, Used: [][]int{}}
	o.Reply = "ok"
	if !ok {
		o.Reply = "err"
	}
	if k == "disconnect" {
		o.Reply = "none"
	}
	for _, pk := range []int{0, 1, 10, 11} {
		for _, c := range w.pools[pk].conns {
			if c.st == "held" {
				o.Held = append(o.Held, c.id)
			} else if c.st == "gone" {
				o.Gone = append(o.Gone, c.id)
			}
		}
	}
	seen := map[[2]int]bool{}
	for _, u := range w.used {
		if !seen[[2]int{u[0], u[1]}] {
			seen[[2]int{u[0], u[1]}] = true
			o.Used = append(o.Used, []int{u[0], u[1]})
		}
	}
	sort.Ints(o.Held)
	sort.Ints(o.Gone)
	sort.Slice(o.Used, func(i, j int) bool { return o.Used[i][1] < o.Used[j][1] })
	return o
}

func scSetEq(a, b []int) bool {
	x := append([]int{}, a...)
	y := append([]int{}, b...)
	sort.Ints(x)
	sort.Ints(y)
	if len(x) != len(y) {
		return false
	}
	for i := range x {
		if x[i] != y[i] {
			return false
		}
	}
	return true
}

func scUsedEq(exp [][]int, got [][]int) bool {
	e := map[[2]int]bool{}
	for _, u := range exp {
		if len(u) == 2 {
			e[[2]int{u[0], u[1]}] = true
		}
	}
	g := map[[2]int]bool{}
	for _, u := range got {
		g[[2]int{u[0], u[1]}] = true
	}
	if len(e) != len(g) {
		return false
	}
	for k := range e {
		if !g[k] {
			return false
		}
	}
	return true
}

// diff returns the projection fields in which the implementation differs from the specification
func scDiff(e *scExp, o scObs, compareUsed bool) []string {
	var d []string
	if e.Ac != o.Ac {
		d = append(d, "autocommit")
	}
	if e.Alive && e.Intx != o.Intx {
		d = append(d, "inTrans")
	}
	if e.Alive != o.Alive {
		d = append(d, "alive")
	}
	if e.Reply != o.Reply {
		d = append(d, "reply")
	}
	if e.Ntx != o.Ntx {
		d = append(d, "txConns")
	}
	if e.Nks != o.Nks {
		d = append(d, "ksConns")
	}
	if !scSetEq(e.Held, o.Held) {
		d = append(d, "held")
	}
	if !scSetEq(e.Gone, o.Gone) {
		d = append(d, "discarded")
	}
	if compareUsed && !scUsedEq(e.Used, o.Used) {
		d = append(d, "used")
	}
	return d
}

type scReplayResult struct {
	devs       []scDev
	drift      []string
	ledger     []scEvent
	orderRetry bool // the Go map order differed from the one the case was generated for
	faultMiss  bool
	obs        []scObs
}

func scReplayOnce(m *Manager, cs *scCase, tid int, r *rand.Rand) (res scReplayResult, err error) {
	w := newScWorld(tid, cs.Ks, cs.User)
	if m.GetNamespace(scNsName).setForKeepSession != cs.Ks {
		if err = scReload(m, cs.Ks, w); err != nil {
			return
		}
	} else if err = scInstall(m, w); err != nil {
		return
	}
	s, err := scNewSession(m, w)
	if err != nil {
		return
	}
	defer s.end()
	diverged := false
	for i := range cs.Cmds {
		c := &cs.Cmds[i]
		if s.cc.IsClosed() {
			if !diverged {
				res.drift = append(res.drift, fmt.Sprintf("cmd %d %s: session already closed", i, c.K))
			}
			break
		}
		if c.K == "nschange" {
			w.mu.Lock()
			w.cmdK = "nschange"
			w.stale = true
			w.log(scEvent{Ev: "nschange"})
			w.mu.Unlock()
			if err = scReload(m, cs.Ks, w); err != nil {
				return
			}
			continue
		}
		cmd, data := scConcrete(c, cs.User, r)
		w.mu.Lock()
		w.fault, w.fired = nil, false
		w.streamNext = c.K == "unshard" && c.Kind == "stream"
		if c.F.Op != "none" && c.F.Op != "" {
			f := c.F
			w.fault = &f
		}
		w.mu.Unlock()
		if c.Mid {
			w.midReload = func() {
				if e := scReload(m, cs.Ks, w); e != nil {
					panic(e)
				}
			}
		}
		ok := s.iteration(c.K, c.Sl, cmd, data)
		w.mu.Lock()
		missed := w.fault != nil || w.midReload != nil
		w.fault, w.midReload, w.streamNext = nil, nil, false
		first := w.firstGetSlice
		w.mu.Unlock()
		if c.Ord && first >= 0 && first != c.First && !diverged {
			res.orderRetry = true
			return
		}
		o := s.observe(ok, c.K)
		res.obs = append(res.obs, o)
		if missed && !diverged {
			res.faultMiss = true
			res.drift = append(res.drift, fmt.Sprintf("cmd %d %s: fault %s/%s on slice %d did not fire (sql %q)", i, c.K, c.F.Op, c.F.Kind, c.F.Sl, string(data)))
			diverged = true
		}
		if c.Exp != nil && !diverged {
			d := scDiff(c.Exp, o, true)
			if c.Exp.Faulted && len(d) == 1 && d[0] == "reply" {
				// rollback() reports the error of whichever connection the Go map yields last
				d = nil
			}
			if len(d) > 0 {
				what := fmt.Sprintf("cmd %d %s %v (sql %q, fault %s/%s@%d): specification %s, implementation %s; differs in %v",
					i, c.K, c.Sl, string(data), c.F.Op, c.F.Kind, c.F.Sl, scJSON(c.Exp), scJSON(o), d)
				if c.Exp.Faulted {
					// after a backend fault the property texts leave the handling open: conformance drift only,
					// the verdict comes from the monitors
					res.drift = append(res.drift, what)
				} else {
					prop := "C19"
					for _, f := range d {
						if f == "autocommit" || f == "inTrans" || f == "used" || ((f == "held" || f == "txConns") && (c.K == "commit" || c.K == "rollback" || c.K == "setac1")) ||
							(f == "held" && w.cmdMode == "tx") { // inside a transaction the held connections are the transaction's
							prop = "C18"
						}
					}
					if cs.Ks {
						prop = "C23"
					}
					w.mu.Lock()
					w.devs = append(w.devs, scDev{Sig: fmt.Sprintf("%s state-differs-from-specification fields=%s cmd=%s mode=%s", prop, strings.Join(d, "+"), c.K, w.cmdMode), What: what})
					w.mu.Unlock()
				}
				diverged = true
			}
		}
	}
	if !s.cc.IsClosed() {
		// every behaviour ends with the client going away
		s.iteration("disconnect", nil, 0, nil)
	}
	w.mu.Lock()
	res.devs = w.devs
	res.ledger = w.ledger
	w.mu.Unlock()
	return
}

func scJSON(v interface{}) string {
	b, _ := json.Marshal(v)
	return string(b)
}

type scOut struct {
	Cmds  []scCmd `json:"cmds"`
	Ks    bool    `json:"ks"`
	User  string  `json:"user"`
	Drift []string `json:"drift,omitempty"`
	Obs   []scObs `json:"obs,omitempty"`
	Ledger []scEvent `json:"ledger,omitempty"`
}

func TestVerifSessionConnReplay(t *testing.T) {
	out, err := verifkit.OpenOut()
	if err != nil {
		t.Fatalf("no output: %v", err)
	}
	logDir := filepath.Join(os.TempDir(), fmt.Sprintf("verif-sc-logs-%d", os.Getpid()))
	if d := os.Getenv("VERIF_SC_LOGDIR"); d != "" {
		logDir = d
	}
	os.MkdirAll(logDir, 0o755)
	defer os.RemoveAll(logDir)
	gaealog.SetGlobalLogger(scNopLogger{})
	m, err := scNewManager(logDir)
	if err != nil {
		t.Fatalf("manager: %v", err)
	}
	var trace *verifkit.Out
	if p := verifkit.TraceOutPath(); p != "" {
		if trace, err = verifkit.OpenOutPath(p); err != nil {
			t.Fatalf("trace out: %v", err)
		}
	}
	traceEvery := verifkit.EnvInt("VERIF_SC_TRACE_EVERY", 1)
	r := verifkit.Rand()
	stats := map[string]int{}
	n, err := verifkit.EachCase(func(i int, raw json.RawMessage) error {
		var cs scCase
		if err := json.Unmarshal(raw, &cs); err != nil {
			return err
		}
		res := &verifkit.Result{Case: i}
		var rr scReplayResult
		tries := 0
		for {
			var e error
			panicked, msg, stack := verifkit.Catch(func() { rr, e = scReplayOnce(m, &cs, i, r) })
			if panicked {
				// Session.Run recovers the proxy's own panics; anything arriving here is a harness problem
				t.Fatalf("case %d: harness panic: %s\n%s", i, msg, stack)
			}
			if e != nil {
				return e
			}
			if !rr.orderRetry {
				break
			}
			tries++
			if tries > 64 {
				stats["order_unexamined"]++
				res.Tag("order-unexamined")
				rr = scReplayResult{}
				break
			}
		}
		stats["commands"] += len(cs.Cmds)
		if tries > 0 {
			stats["order_retries"] += tries
		}
		for _, d := range rr.devs {
			res.Dev(d.Sig, "%s", d.What)
		}
		if len(rr.drift) > 0 {
			stats["drift_cases"]++
			res.Tag("drift")
		}
		if rr.faultMiss {
			stats["fault_not_fired"]++
		}
		clean := len(rr.devs) == 0
		if trace != nil && len(rr.ledger) > 0 && (i%traceEvery == 0 || !clean) {
			for _, e := range rr.ledger {
				e.K = e.K + ""
				if !clean {
					e.T = -e.T - 1 // traces the Go monitors already rejected are marked with a negative id
				}
				trace.Write(e)
			}
		}
		if len(res.Devs) > 0 || len(rr.drift) > 0 {
			res.Obs = scOut{Cmds: cs.Cmds, Ks: cs.Ks, User: cs.User, Drift: rr.drift, Obs: rr.obs, Ledger: rr.ledger}
			out.Write(res)
		}
		return nil
	})
	if err != nil {
		t.Fatalf("case %d: %v", n, err)
	}
	if trace != nil {
		trace.Close(n, nil)
	}
	extra := map[string]interface{}{}
	for k, v := range stats {
		extra[k] = v
	}
	out.Close(n, extra)
}
