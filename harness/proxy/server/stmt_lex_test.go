package server

// Conformance harnesses for spec/SqlLex.tla in package server:
//   TestVerifCalcParams  (C14)  parameter markers reported by CalcParams / COM_STMT_PREPARE
//   TestVerifMultiStmts  (C17)  statements executed by doMultiStmts (COM_QUERY with CLIENT_MULTI_STATEMENTS)
// Every case is a text enumerated by TLC with the specification's answer (see harness/parser/sqllex_test.go).

import (
	"encoding/json"
	"fmt"
	"sort"
	"strings"
	"testing"

	"github.com/XiaoMi/Gaea/internal/verifkit"
	"github.com/XiaoMi/Gaea/mysql"
)

type c14Case struct {
	S  string          `json:"s"`
	M  []int           `json:"m"`
	Qs [][]interface{} `json:"qs"` // [offset, context class, taint]
	Wf bool            `json:"wf"`
}

type c14Obs struct {
	S       string `json:"s"`
	Want    []int  `json:"want"`
	Count   int    `json:"count"`
	Offsets []int  `json:"offsets"`
}

func TestVerifCalcParams(t *testing.T) {
	fix, err := stmtGetFixture()
	if err != nil {
		t.Fatal(err)
	}
	defer fix.cleanup()
	se := fix.newSession(false)
	out, err := verifkit.OpenOut()
	if err != nil {
		t.Fatal(err)
	}
	stats := map[string]int{}
	n, err := verifkit.EachCase(func(ci int, raw json.RawMessage) error {
		var c c14Case
		if err := json.Unmarshal(raw, &c); err != nil {
			return err
		}
		res := verifkit.Result{Case: ci}
		count, offsets, _, cerr := CalcParams(c.S)
		if cerr != nil {
			// a refused text reports no parameters at all: not a violation of C14
			if c.Wf {
				stats["rejected_by_impl_wellformed"]++
			} else {
				stats["rejected_by_impl_illformed"]++
			}
			return nil
		}
		if !c.Wf {
			stats["illformed_accepted_not_judged"]++ // the grammar has no parse, hence no markers to compare with
			return nil
		}
		stats["judged"]++
		if len(c.M) > 0 {
			stats["judged_with_markers"]++
		}
		// the same through COM_STMT_PREPARE (unless the trailing ';' trimming changes the text)
		if !strings.HasSuffix(c.S, ";") && len(c.S) > 0 {
			r := fix.send(se, mysql.ComStmtPrepare, []byte(c.S))
			if r.RespType == RespPrepare {
				s := r.Data.(*Stmt)
				if s.paramCount != count || fmt.Sprint(s.offsets) != fmt.Sprint(offsets) {
					res.Dev("C14 prepare reports other parameters than CalcParams", "text %q: CalcParams %d %v, prepared statement %d %v", c.S, count, offsets, s.paramCount, s.offsets)
				}
				idb := []byte{byte(s.id), byte(s.id >> 8), byte(s.id >> 16), byte(s.id >> 24)}
				fix.send(se, mysql.ComStmtClose, idb)
				stats["through_prepare"]++
			} else {
				res.Dev("C14 prepare refuses what CalcParams accepts", "text %q", c.S)
			}
		}
		if count != len(offsets) {
			res.Dev("C14 count differs from number of offsets", "text %q: count %d offsets %v", c.S, count, offsets)
		}
		want := map[int]bool{}
		for _, m := range c.M {
			want[m] = true
		}
		got := map[int]bool{}
		for _, o := range offsets {
			got[o] = true
		}
		cls := func(p int) string {
			for _, q := range c.Qs {
				if int(q[0].(float64)) == p {
					return fmt.Sprintf("ctx=%s taint=%s", q[1], q[2])
				}
			}
			return "ctx=not-a-question-mark taint=none"
		}
		sigs := map[string]bool{}
		for _, o := range offsets {
			if !want[o] {
				sigs["C14 spurious "+cls(o)] = true
			}
		}
		for _, m := range c.M {
			if !got[m] {
				sigs["C14 missed "+cls(m)] = true
			}
		}
		var ks []string
		for k := range sigs {
			ks = append(ks, k)
		}
		sort.Strings(ks)
		for _, k := range ks {
			res.Dev(k, "text %q: grammar markers at %v, CalcParams reports %d at %v", c.S, c.M, count, offsets)
		}
		if len(res.Devs) > 0 {
			res.Obs = c14Obs{S: c.S, Want: c.M, Count: count, Offsets: offsets}
			out.Write(res)
		}
		return nil
	})
	if err != nil {
		t.Fatal(err)
	}
	extra := map[string]interface{}{}
	for k, v := range stats {
		extra[k] = v
	}
	out.Close(n, extra)
	fmt.Println("verif calcparams cases:", n)
}

// ------------------------------------------------------------------------------------------ C17

type c17Case struct {
	S    string   `json:"s"`
	Pc   [][2]int `json:"pc"`
	Wf   bool     `json:"wf"`
	Fail string   `json:"fail"` // a statement containing this text fails at the backend ("" = none)
}

type c17Obs struct {
	S        string   `json:"s"`
	Exp      []string `json:"exp"`
	Executed []string `json:"executed"`
	Resp     string   `json:"resp"`
	Err      string   `json:"err,omitempty"`
}

func TestVerifMultiStmts(t *testing.T) {
	fix, err := stmtGetFixture()
	if err != nil {
		t.Fatal(err)
	}
	defer fix.cleanup()
	out, err := verifkit.OpenOut()
	if err != nil {
		t.Fatal(err)
	}
	stats := map[string]int{}
	se := fix.newSession(true)
	n, err := verifkit.EachCase(func(ci int, raw json.RawMessage) error {
		var c c17Case
		if err := json.Unmarshal(raw, &c); err != nil {
			return err
		}
		res := verifkit.Result{Case: ci}
		exp := make([]string, 0, len(c.Pc))
		for _, p := range c.Pc {
			exp = append(exp, strings.TrimSpace(c.S[p[0]:p[1]]))
		}
		fix.be.take()
		fix.be.failOn = c.Fail
		r := fix.send(se, mysql.ComQuery, []byte(c.S))
		fix.be.failOn = ""
		got := fix.be.take()
		for i := range got {
			got[i] = strings.TrimSpace(got[i])
		}
		cl, emsg := respClass(r)
		obs := c17Obs{S: c.S, Exp: exp, Executed: got, Resp: cl, Err: emsg}
		failed := r.RespType == RespError
		firstFail := -1
		if c.Fail != "" {
			for i, e := range exp {
				if strings.Contains(e, c.Fail) {
					firstFail = i
					break
				}
			}
		}
		trimmed := strings.TrimRight(c.S, ";")
		tail1 := len(trimmed) >= 2 && trimmed[len(trimmed)-2] == ';'
		// 1. what was executed is a prefix of the grammar's statements: in order, each unchanged
		prefixOK := len(got) <= len(exp)
		if prefixOK {
			for i := range got {
				if got[i] != exp[i] {
					prefixOK = false
				}
			}
		}
		switch {
		case !prefixOK && len(got) == 1 && len(exp) == 1 && got[0] == strings.TrimSpace(trimmed) && strings.Contains(got[0], exp[0]):
			where := "empty statement before the statement"
			if strings.HasPrefix(got[0], exp[0]) {
				where = "only trailing empty statements"
			}
			res.Dev("C17 multi: text with one statement sent whole, empty statements included ("+where+")",
				"text %q: the only statement is %q, backend received %q", c.S, exp[0], got[0])
		case !prefixOK && len(got) == 1 && len(exp) > 1 && got[0] == strings.TrimSpace(trimmed):
			sig := "C17 multi: whole text sent to the backend as one statement"
			if tail1 {
				sig += " (one-character last statement)"
			}
			res.Dev(sig, "text %q: grammar statements %q, backend received %q", c.S, exp, got)
		case !prefixOK:
			sig := "C17 multi: executed statements are not the grammar's statements in order"
			if firstFail >= 0 && len(got) > firstFail+1 {
				sig = "C17 multi: execution continued after a failed statement"
			}
			res.Dev(sig, "text %q: grammar statements %q, backend received %q", c.S, exp, got)
		case firstFail >= 0 && len(got) > firstFail+1:
			res.Dev("C17 multi: execution continued after a failed statement", "text %q: statement %d fails, backend received %q", c.S, firstFail, got)
		case firstFail >= 0 && len(got) == firstFail+1 && !failed:
			res.Dev("C17 multi: failure of a statement not reported", "text %q: statement %d failed at the backend, reply %s", c.S, firstFail, cl)
		case !failed && len(got) < len(exp):
			sig := "C17 multi: success reported although statements were not executed"
			if tail1 && len(got) == len(exp)-1 {
				sig += " (one-character last statement)"
			}
			res.Dev(sig, "text %q: grammar statements %q, backend received only %q", c.S, exp, got)
		}
		stats["examined"]++
		if len(exp) > 1 {
			stats["multi_statement_texts"]++
		}
		if len(got) == len(exp) && len(exp) > 1 && !failed {
			stats["multi_all_executed"]++
		}
		if firstFail >= 0 && firstFail < len(exp)-1 && len(got) == firstFail+1 {
			stats["stopped_at_scripted_failure"]++
		}
		if failed && firstFail < 0 {
			stats["refused_by_proxy"]++
		}
		if len(res.Devs) > 0 {
			res.Obs = obs
			out.Write(res)
		}
		return nil
	})
	if err != nil {
		t.Fatal(err)
	}
	extra := map[string]interface{}{}
	for k, v := range stats {
		extra[k] = v
	}
	out.Close(n, extra)
	fmt.Println("verif multistmts cases:", n)
}
