package server

// Conformance harness for spec/Auth.tla part 1 + spec/Auth_hs.tla (property C30).
// Direction G: TLC emits decided handshakes - the credentials configured for the user (ordered; clear text or
// '*'-hash), the plugin field, the abstract auth response (which function, which salt, which password, how the
// bytes were modified) and the verdict of the specification's Accept.  The harness instantiates the abstract
// one-way functions with an independent implementation on crypto/sha1 / crypto/sha256 (trusted base), seeded
// salts and passwords, and replays the case on
//   - Session.handleHandshakeResponse (the selection logic) over a Manager whose UserManager was built by the
//     real CreateUserManager;
//   - UserManager.CheckPassword / CheckHashPassword / CheckSha2Password one by one (each has its own expected
//     answer in the case);
//   - mysql.CalcPassword / CalcCachingSha2Password / CheckHashPassword (equal to the independent functions).
// A panic is a violation.

import (
	"bytes"
	"crypto/sha1"
	"crypto/sha256"
	"encoding/hex"
	"encoding/json"
	"fmt"
	"math/rand"
	"net"
	"strings"
	"testing"

	"github.com/XiaoMi/Gaea/internal/verifkit"
	"github.com/XiaoMi/Gaea/models"
	"github.com/XiaoMi/Gaea/mysql"
)

type hsCred struct {
	Form string `json:"form"`
	Pw   string `json:"pw"`
}

type hsResp struct {
	M    string `json:"m"`
	Salt string `json:"salt"`
	Pw   string `json:"pw"`
	Mod  string `json:"mod"`
}

type hsCase struct {
	Stored      []hsCred `json:"stored"`
	Plugin      string   `json:"plugin"`
	Salt        string   `json:"salt"`
	Resp        hsResp   `json:"resp"`
	Verdict     string   `json:"verdict"`
	NativeClear bool     `json:"native_clear"`
	NativeHash  bool     `json:"native_hash"`
	Sha2Clear   bool     `json:"sha2_clear"`
	// set in replay files: the concrete instantiation in which the deviation was observed
	Concrete *hsConcrete `json:"concrete,omitempty"`
}

type hsConcrete struct {
	Pw    map[string]string `json:"pw"`
	Salts map[string]string `json:"salts"` // hex
	Resp  string            `json:"resp"`  // hex
}

// ---- independent instantiation of the abstract functions (trusted base)
func refSHA1(parts ...[]byte) []byte {
	h := sha1.New()
	for _, p := range parts {
		h.Write(p)
	}
	return h.Sum(nil)
}
func refSHA256(parts ...[]byte) []byte {
	h := sha256.New()
	for _, p := range parts {
		h.Write(p)
	}
	return h.Sum(nil)
}
func refXor(a, b []byte) []byte {
	o := make([]byte, len(a))
	for i := range a {
		o[i] = a[i] ^ b[i]
	}
	return o
}
func refNative(salt []byte, pw string) []byte {
	if pw == "" {
		return []byte{}
	}
	s1 := refSHA1([]byte(pw))
	return refXor(s1, refSHA1(salt, refSHA1(s1)))
}
func refSha2(salt []byte, pw string) []byte {
	if pw == "" {
		return []byte{}
	}
	m1 := refSHA256([]byte(pw))
	return refXor(m1, refSHA256(refSHA256(m1), salt))
}
func refStoredHash(pw string) string {
	return "*" + strings.ToUpper(hex.EncodeToString(refSHA1(refSHA1([]byte(pw)))))
}

// one concrete world for the abstract names of a case
type hsWorld struct {
	pw    map[string]string // "p1" -> concrete password
	salts map[string][]byte // "s1" -> 20 bytes
}

func hsRandPw(rng *rand.Rand, style int) string {
	n := 1 + rng.Intn(24)
	var sb strings.Builder
	for i := 0; i < n; i++ {
		switch style % 3 {
		case 0:
			sb.WriteByte(byte(33 + rng.Intn(94))) // printable ASCII (may contain ':' and '*' inside)
		case 1:
			rs := []rune("密码пароль🔑ßçñaZ09 _-")
			sb.WriteRune(rs[rng.Intn(len(rs))])
		default:
			sb.WriteByte("abcdefghijklmnopqrstuvwxyz0123456789"[rng.Intn(36)])
		}
	}
	s := sb.String()
	if strings.HasPrefix(s, "*") { // a clear-text password that looks like a stored hash is outside the model
		s = "x" + s
	}
	return s
}

func newWorld(rng *rand.Rand, k int) *hsWorld {
	w := &hsWorld{pw: map[string]string{}, salts: map[string][]byte{}}
	seen := map[string]bool{"": true}
	for i, name := range []string{"p1", "p2", "p3"} {
		for {
			p := hsRandPw(rng, k+i)
			if !seen[p] {
				seen[p] = true
				w.pw[name] = p
				break
			}
		}
	}
	// clear-text passwords that look like the hash form without being one
	hexd := "0123456789ABCDEFabcdef"
	mk := func(n int, alphabet string) string {
		var sb strings.Builder
		sb.WriteByte('*')
		for i := 0; i < n; i++ {
			sb.WriteByte(alphabet[rng.Intn(len(alphabet))])
		}
		return sb.String()
	}
	w.pw["s:short"] = mk(rng.Intn(40), hexd) // '*' + 0..39 hex digits
	w.pw["s:long"] = mk(41+rng.Intn(20), hexd)
	nh := []byte(mk(40, hexd))
	nh[1+rng.Intn(40)] = "ghijkXYZ_-*"[rng.Intn(11)] // 40 characters, at least one not hexadecimal
	w.pw["s:nonhex"] = string(nh)
	for _, name := range []string{"s1", "s2"} {
		b := make([]byte, 20)
		for i := range b {
			b[i] = byte(30 + rng.Intn(97)) // the range of mysql.RandomBuf
		}
		if k%2 == 1 {
			rng.Read(b) // arbitrary bytes
		}
		w.salts[name] = b
	}
	return w
}

// concretePw maps the abstract password of a response: "p1" -> text, "*p1" -> the '*'-hash text of p1, "" -> ""
func (w *hsWorld) concretePw(abs string) string {
	if abs == "" {
		return ""
	}
	if strings.HasPrefix(abs, "*") {
		return refStoredHash(w.pw[abs[1:]])
	}
	return w.pw[abs] // "p1".., "s:short"..
}

func (w *hsWorld) response(r *hsResp, rng *rand.Rand) []byte {
	if r.M == "empty" {
		return []byte{}
	}
	var b []byte
	if r.M == "native" {
		b = refNative(w.salts[r.Salt], w.concretePw(r.Pw))
	} else {
		b = refSha2(w.salts[r.Salt], w.concretePw(r.Pw))
	}
	b = append([]byte{}, b...)
	switch r.Mod {
	case "bitflip":
		i := rng.Intn(len(b) * 8)
		b[i/8] ^= 1 << uint(i%8)
	case "trunc":
		b = b[:len(b)-1]
	case "ext21": // one more byte: 21 for a native proof, 33 for a sha2 proof
		b = append(b, byte(1+rng.Intn(255)))
	case "extnul": // one more byte, 0x00 (what a NUL-terminated auth response would carry)
		b = append(b, 0)
	case "ext32": // padded to 32 bytes (native proof) / 40 bytes (sha2 proof)
		n := 32
		if len(b) >= 32 {
			n = 40
		}
		for len(b) < n {
			b = append(b, byte(rng.Intn(256)))
		}
	}
	return b
}

func (w *hsWorld) storedText(c hsCred) string {
	if c.Form == "hash" {
		return refStoredHash(w.pw[c.Pw])
	}
	return w.concretePw(c.Pw)
}

// hashCreds: whether '*'-hash credentials are configured for the user name
func hashCreds(cs []hsCred) string {
	for _, c := range cs {
		if c.Form == "hash" {
			return "some"
		}
	}
	return "none"
}

// respClass: what the response is relative to the configured credentials (coarse: the features that matter)
func respClass(c *hsCase) string {
	r := c.Resp
	if r.M == "empty" {
		return "empty"
	}
	what := "unconfigured-pw"
	nhash := 0
	var isClear, isStar, isFirstHash, isLaterHash, isText bool
	for _, s := range c.Stored {
		if s.Form == "hash" {
			nhash++
		}
		if s.Pw == r.Pw {
			switch {
			case s.Form == "clear":
				isClear = true
				if strings.HasPrefix(s.Pw, "s:") {
					isStar = true
				}
			case nhash == 1:
				isFirstHash = true
			default:
				isLaterHash = true
			}
		}
		if r.Pw == "*"+s.Pw && s.Form == "hash" {
			isText = true
		}
	}
	// the same password may be configured in several forms: name all of them, in a fixed order
	var kinds []string
	if isClear && isStar {
		kinds = append(kinds, "clear(*-prefixed:"+r.Pw[2:]+")")
	} else if isClear {
		kinds = append(kinds, "clear")
	}
	if isFirstHash {
		kinds = append(kinds, "first-hash")
	}
	if isLaterHash {
		kinds = append(kinds, "later-hash")
	}
	if len(kinds) > 0 {
		what = "pw-of-" + strings.Join(kinds, "+") + "-credential"
	}
	if isText {
		what = "text-of-stored-hash"
	}
	if r.Salt != c.Salt {
		what += "/other-salt"
	}
	return fmt.Sprintf("%s(%s)%s", r.M, what, map[string]string{"none": "", "bitflip": "/bitflip", "trunc": "/truncated", "ext21": "/one-byte-longer", "extnul": "/one-NUL-byte-longer", "ext32": "/padded"}[r.Mod])
}

func respLenClass(n int) string {
	switch {
	case n == 0, n == 20, n == 32:
		return fmt.Sprintf("%d", n)
	case n < 20:
		return "1..19"
	case n < 32:
		return "21..31"
	default:
		return "33+"
	}
}

func pluginClass(p string) string {
	if p == "" {
		return "plugin=none"
	}
	return "plugin=" + p
}

func hsSession(um *UserManager, remote string) *Session {
	nsm := NewNamespaceManager()
	mgr := &Manager{}
	mgr.namespaces[0], mgr.namespaces[1] = nsm, nsm
	mgr.users[0], mgr.users[1] = um, um
	conn := &alConn{remote: &net.TCPAddr{IP: net.ParseIP(remote), Port: 45678}}
	s := &Session{manager: mgr, c: &ClientConn{Conn: mysql.NewConn(conn), manager: mgr}, executor: newSessionExecutor(mgr)}
	s.closed.Store(false)
	s.executor.session = s
	return s
}

func TestVerifAuthCheck(t *testing.T) {
	out, err := verifkit.OpenOut()
	if err != nil {
		t.Fatal(err)
	}
	rng := verifkit.Rand()
	worlds := verifkit.EnvInt("VERIF_C30_WORLDS", 2)
	calls, either := 0, 0
	sigCount := map[string]int{}
	n, err := verifkit.EachCase(func(i int, raw json.RawMessage) error {
		var c hsCase
		if err := json.Unmarshal(raw, &c); err != nil {
			return err
		}
		res := &verifkit.Result{Case: i}
		cls := fmt.Sprintf("%s resp=%s hash-credentials=%s", pluginClass(c.Plugin), respClass(&c), hashCreds(c.Stored))
		var devWorld *hsConcrete
		nw := worlds
		if c.Concrete != nil {
			nw = 1
		}
		for k := 0; k < nw; k++ {
			w := newWorld(rng, k+i)
			resp := w.response(&c.Resp, rng)
			if c.Concrete != nil {
				w = &hsWorld{pw: c.Concrete.Pw, salts: map[string][]byte{}}
				for name, h := range c.Concrete.Salts {
					w.salts[name], _ = hex.DecodeString(h)
				}
				resp, _ = hex.DecodeString(c.Concrete.Resp)
			}
			salt := w.salts[c.Salt]
			ndevBefore := len(res.Devs)
			// configuration: user u1 with the case's credentials in order, user u2 with the other password
			ns := &models.Namespace{Name: "ns1"}
			var texts []string
			for _, cr := range c.Stored {
				txt := w.storedText(cr)
				texts = append(texts, txt)
				ns.Users = append(ns.Users, &models.User{UserName: "u1", Password: txt, Namespace: "ns1"})
			}
			ns.Users = append(ns.Users, &models.User{UserName: "u2", Password: w.pw["p3"], Namespace: "ns1"})
			um, err := CreateUserManager(map[string]*models.Namespace{"ns1": ns})
			if err != nil {
				res.Dev("C30 harness user-manager", "%v", err)
				break
			}
			desc := fmt.Sprintf("stored %q salt %x response %x (%d bytes)", texts, salt, resp, len(resp))

			// ---- (a) the handshake's selection logic
			{
				calls++
				sess := hsSession(um, "10.1.2.3")
				info := HandshakeResponseInfo{CollationID: mysql.DefaultCollationID, User: "u1", AuthResponse: append([]byte{}, resp...),
					Salt: append([]byte{}, salt...), Database: "", AuthPlugin: c.Plugin}
				var herr error
				pan, msg, _ := verifkit.Catch(func() { herr = sess.handleHandshakeResponse(info) })
				got := "accept"
				if herr != nil {
					got = "reject"
				}
				switch {
				case pan:
					res.Dev(fmt.Sprintf("C30 panic handshake %s response-length=%s hash-credentials=%s", pluginClass(c.Plugin), respLenClass(len(resp)), hashCreds(c.Stored)),
						"handleHandshakeResponse panics: %s; %s", msg, desc)
				case c.Verdict == "either":
					either++
				case got != c.Verdict:
					res.Dev(fmt.Sprintf("C30 handshake %ss, specification %ss: %s", got, c.Verdict, cls),
						"handleHandshakeResponse(plugin %q): %s (%v), the specification %ss; %s; response buffer afterwards %x", c.Plugin, got, herr, c.Verdict, desc, info.AuthResponse)
				}
			}

			// ---- (b) the three check functions of UserManager
			type fn struct {
				name string
				want bool
				call func(a []byte) (bool, string)
			}
			fns := []fn{
				{"CheckPassword", c.NativeClear, func(a []byte) (bool, string) { return um.CheckPassword("u1", salt, a) }},
				{"CheckHashPassword", c.NativeHash, func(a []byte) (bool, string) { return um.CheckHashPassword("u1", salt, a) }},
				{"CheckSha2Password", c.Sha2Clear, func(a []byte) (bool, string) { return um.CheckSha2Password("u1", salt, a) }},
			}
			fcls := fmt.Sprintf("resp=%s hash-credentials=%s", respClass(&c), hashCreds(c.Stored))
			for _, f := range fns {
				calls++
				var ok bool
				pan, msg, _ := verifkit.Catch(func() { ok, _ = f.call(append([]byte{}, resp...)) })
				switch {
				case pan:
					res.Dev(fmt.Sprintf("C30 panic UserManager.%s response-length=%s hash-credentials=%s", f.name, respLenClass(len(resp)), hashCreds(c.Stored)), "%s panics: %s; %s", f.name, msg, desc)
				case ok != f.want:
					res.Dev(fmt.Sprintf("C30 UserManager.%s=%v, specification %v: %s", f.name, ok, f.want, fcls), "%s(u1) = %v, the specification %v; %s", f.name, ok, f.want, desc)
				}
			}

			// ---- (c) the scramble functions against the independent implementation
			calls++
			pan, msg, _ := verifkit.Catch(func() {
				for name, p := range w.pw {
					if !bytes.Equal(mysql.CalcPassword(salt, []byte(p)), refNative(salt, p)) {
						res.Dev("C30 CalcPassword differs from mysql_native_password", "password %s=%q salt %x", name, p, salt)
					}
					if !bytes.Equal(mysql.CalcCachingSha2Password(salt, p), refSha2(salt, p)) {
						res.Dev("C30 CalcCachingSha2Password differs from caching_sha2_password", "password %s=%q salt %x", name, p, salt)
					}
				}
				if len(mysql.CalcPassword(salt, nil)) != 0 || len(mysql.CalcCachingSha2Password(salt, "")) != 0 {
					res.Dev("C30 empty password does not give the empty response", "salt %x", salt)
				}
			})
			if pan {
				res.Dev("C30 panic scramble functions", "%s", msg)
			}
			// mysql.CheckHashPassword(resp, salt, hex of the stored hash of p1): true iff resp is Native(salt, p1)
			if c.Resp.M != "empty" {
				calls++
				want := bytes.Equal(resp, refNative(salt, w.pw["p1"]))
				var ok bool
				pan, msg, _ := verifkit.Catch(func() {
					ok = mysql.CheckHashPassword(append([]byte{}, resp...), salt, []byte(refStoredHash(w.pw["p1"])[1:]))
				})
				lc := "length=" + respLenClass(len(resp))
				switch {
				case pan:
					res.Dev("C30 panic mysql.CheckHashPassword response "+lc, "CheckHashPassword panics: %s; response %x", msg, resp)
				case ok != want:
					res.Dev(fmt.Sprintf("C30 mysql.CheckHashPassword=%v, reference %v response %s", ok, want, lc), "response %x salt %x", resp, salt)
				}
			}
			if devWorld == nil && len(res.Devs) > ndevBefore {
				devWorld = &hsConcrete{Pw: w.pw, Salts: map[string]string{}, Resp: hex.EncodeToString(resp)}
				for name, b := range w.salts {
					devWorld.Salts[name] = hex.EncodeToString(b)
				}
			}
		}
		if len(res.Devs) > 0 {
			var keep []verifkit.Dev
			seen := map[string]bool{}
			for _, d := range res.Devs {
				if seen[d.Sig] {
					continue
				}
				seen[d.Sig] = true
				sigCount[d.Sig]++
				if sigCount[d.Sig] <= 2 {
					keep = append(keep, d)
				}
			}
			if len(keep) > 0 {
				res.Devs = keep
				c.Concrete = devWorld
				res.Obs = c
				out.Write(res)
			}
		}
		return nil
	})
	if err != nil {
		t.Fatal(err)
	}
	out.Close(n, map[string]interface{}{"calls": calls, "either": either, "worlds": worlds, "dev_counts": sigCount})
}
