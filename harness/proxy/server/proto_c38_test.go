package server

// Conformance harness for spec/Protocol.tla PART M (property C38): malformed client input.
// Every abstract malformation TLC emits (packet kind + operators on its field list) is rendered to
// real bytes and sent on a fresh connection to a real Server listening on loopback (real accept
// loop, sessions, executor; fake MySQL backends).  Observed: what the offending client saw first
// (ERR packet / connection closed / an answer / nothing), whether a healthy session that was open
// and querying during the input still gets correct answers, and whether a new connection is still
// accepted and served.  The case id is written and flushed BEFORE the bytes are sent, so that a
// crash of the process (this test binary) is attributed to the case by the driver.

import (
	"encoding/binary"
	"encoding/json"
	"fmt"
	"net"
	"os"
	"strings"
	"testing"
	"time"

	"github.com/XiaoMi/Gaea/internal/verifkit"
)

type c38Op struct {
	Op      string `json:"op"`
	Field   int    `json:"field"`
	Variant string `json:"variant"`
	At      int    `json:"at"`
}

type c38Case struct {
	ID       string   `json:"id"`
	Kind     string   `json:"kind"`
	Ops      []c38Op  `json:"ops"`
	Class    string   `json:"class"`
	PayLen   int      `json:"paylen"`
	Lens     []int    `json:"lens"`
	SeedLens []int    `json:"seedlens"`
	Names    []string `json:"names"`
	MinLen   int      `json:"minlen"`
	ExpSeq   int      `json:"expseq"`
}

const (
	c38User    = "u_c38"
	c38Pass    = "pw"
	c38Timeout = 30 * time.Second
	c38Stmt3   = "select v from t_plain where a=? and b=? and c=?"
	c38Stmt0   = "select v from t_plain"
)

func c38Pad(s string, n int) []byte {
	b := []byte(s)
	for len(b) < n {
		b = append(b, ' ')
	}
	return b
}

// c38Seed renders the well-formed packet of a kind as the list of its fields (spec: Layout(kind)).
func c38Seed(kind string, salt []byte) ([][]byte, error) {
	u32 := func(v uint32) []byte { b := make([]byte, 4); binary.LittleEndian.PutUint32(b, v); return b }
	switch kind {
	case "hs_plain":
		return pxHandshakeFields(salt, c38User, c38Pass, "", false), nil
	case "hs_db_plugin":
		return pxHandshakeFields(salt, c38User, c38Pass, "db_ks", true), nil
	case "query":
		return [][]byte{{0x03}, []byte("select 'c38seed1'")}, nil
	case "initdb":
		return [][]byte{{0x02}, []byte("db_ks")}, nil
	case "fieldlist":
		return [][]byte{{0x04}, append([]byte("t_plain"), 0), []byte("%")}, nil
	case "fieldlist_nodb":
		return [][]byte{{0x04}, append([]byte("t_plain"), 0), []byte("%")}, nil
	case "prepare":
		return [][]byte{{0x16}, c38Pad("select v from t_plain where a=?", 32)}, nil
	case "execute":
		return [][]byte{{0x17}, u32(0), {0x00}, u32(1), {0x00}, {0x01},
			{0x03, 0x00, 0xfd, 0x00, 0x0c, 0x00}, // long, var_string, datetime
			u32(7), {5}, []byte("hello"), {7}, {0xe0, 0x07, 3, 4, 5, 6, 7}}, nil
	case "execute_rebound":
		return [][]byte{{0x17}, u32(0), {0x00}, u32(1), {0x00}, {0x00},
			u32(7), {5}, []byte("hello"), {7}, {0xe0, 0x07, 3, 4, 5, 6, 7}}, nil
	case "execute0":
		return [][]byte{{0x17}, u32(1), {0x00}, u32(1)}, nil
	case "longdata":
		return [][]byte{{0x18}, u32(0), {0x01, 0x00}, []byte("data")}, nil
	case "stmtclose":
		return [][]byte{{0x19}, u32(1)}, nil
	case "stmtreset":
		return [][]byte{{0x1a}, u32(0)}, nil
	case "ping":
		return [][]byte{{0x0e}}, nil
	case "setoption":
		return [][]byte{{0x1b}, {0x00, 0x00}}, nil
	case "unknown":
		return [][]byte{{0x1f}, {1, 2, 3}}, nil
	}
	return nil, fmt.Errorf("unknown packet kind %q", kind)
}

func c38IsHandshake(kind string) bool { return strings.HasPrefix(kind, "hs_") }
func c38Responds(kind string) bool    { return kind != "longdata" && kind != "stmtclose" }
func c38NeedsStmts(kind string) bool {
	switch kind {
	case "execute", "execute_rebound", "execute0", "longdata", "stmtclose", "stmtreset":
		return true
	}
	return false
}

// c38Describe names an operator in the vocabulary of the field list (used in signatures).
func c38Describe(c *c38Case, o c38Op) string {
	switch o.Op {
	case "trunc":
		if o.At == 0 {
			return "zero-length"
		}
		off := 0
		for i, l := range c.Lens {
			if o.At < off+l {
				if o.At == off {
					return "trunc:before " + c.Names[i]
				}
				return "trunc:inside " + c.Names[i]
			}
			off += l
		}
		if o.At == off {
			return "trunc:none"
		}
		return "padded"
	case "oversize":
		return "oversize:" + c.Names[o.Field-1] + ":" + o.Variant
	default:
		return o.Op + ":" + o.Variant
	}
}

func c38Desc(c *c38Case) string {
	var d []string
	for _, o := range c.Ops {
		d = append(d, c38Describe(c, o))
	}
	return c.Kind + " [" + strings.Join(d, " + ") + "]"
}

// c38Render applies the operators to the seed and returns the raw bytes to send (header included),
// and whether the declared length promises more bytes than are sent.
func c38Render(c *c38Case, fields [][]byte) (raw []byte, incomplete bool, err error) {
	if len(fields) != len(c.SeedLens) {
		return nil, false, fmt.Errorf("seed of %s has %d fields, the specification's layout has %d", c.Kind, len(fields), len(c.SeedLens))
	}
	for i, f := range fields {
		if len(f) != c.SeedLens[i] {
			return nil, false, fmt.Errorf("seed field %s of %s has %d bytes, the specification says %d", c.Names[i], c.Kind, len(f), c.SeedLens[i])
		}
	}
	fs := make([][]byte, len(fields))
	for i := range fields {
		fs[i] = append([]byte{}, fields[i]...)
	}
	var trunc *c38Op
	for i := range c.Ops {
		if c.Ops[i].Op == "trunc" {
			trunc = &c.Ops[i]
		}
	}
	mutTotal := 0
	for _, l := range c.Lens {
		mutTotal += l
	}
	payLen := mutTotal
	if trunc != nil {
		payLen = trunc.At
	}
	for _, o := range c.Ops {
		switch o.Op {
		case "oversize":
			i := o.Field - 1
			endOfPrefix := 0
			for j := 0; j <= i; j++ {
				endOfPrefix += c.Lens[j]
			}
			lenenc := c.Names[i] == "auth_len" || c.Names[i] == "p2_len"
			switch o.Variant {
			case "rem1":
				rem := payLen - endOfPrefix
				if rem < 0 {
					rem = 0
				}
				fs[i] = []byte{byte(rem + 1)}
			case "max1":
				if lenenc {
					fs[i] = []byte{0xfa}
				} else {
					fs[i] = []byte{0xff}
				}
			case "null":
				fs[i] = []byte{0xfb}
			case "w2":
				fs[i] = []byte{0xfc, 0xff, 0xff}
			case "w3":
				fs[i] = []byte{0xfd, 0xff, 0xff, 0xff}
			case "w8":
				fs[i] = []byte{0xfe, 0xff, 0xff, 0xff, 0xff, 0xff, 0xff, 0xff, 0xff}
			case "w8p32", "w8p47", "w8p63":
				v := map[string]uint64{"w8p32": 1 << 32, "w8p47": 1 << 47, "w8p63": 1<<63 - 1}[o.Variant]
				fs[i] = make([]byte, 9)
				fs[i][0] = 0xfe
				binary.LittleEndian.PutUint64(fs[i][1:], v)
			default:
				return nil, false, fmt.Errorf("unknown oversize variant %q", o.Variant)
			}
			if len(fs[i]) != c.Lens[i] {
				return nil, false, fmt.Errorf("prefix %s rendered to %d bytes, the specification says %d", c.Names[i], len(fs[i]), c.Lens[i])
			}
		case "stmtid":
			v := map[string]uint32{"next": 2, "mid": 0x80000000, "max": 0xffffffff}[o.Variant]
			binary.LittleEndian.PutUint32(fs[o.Field-1], v)
		case "paramid":
			v := map[string]uint16{"count": 3, "max": 0xffff}[o.Variant]
			binary.LittleEndian.PutUint16(fs[o.Field-1], v)
		}
	}
	payload := pxJoin(fs)
	if len(payload) != mutTotal {
		return nil, false, fmt.Errorf("payload has %d bytes before truncation, the specification says %d", len(payload), mutTotal)
	}
	if trunc != nil {
		if trunc.At <= len(payload) {
			payload = payload[:trunc.At]
		} else {
			payload = append(payload, make([]byte, trunc.At-len(payload))...)
		}
	}
	if len(payload) != c.PayLen {
		return nil, false, fmt.Errorf("payload has %d bytes, the specification says %d", len(payload), c.PayLen)
	}
	seq := byte(c.ExpSeq)
	declared := len(payload)
	for _, o := range c.Ops {
		switch o.Op {
		case "seq":
			seq += map[string]byte{"plus1": 1, "minus1": 255, "far": 128}[o.Variant]
		case "hdrlen":
			switch o.Variant {
			case "minus1":
				if declared > 0 {
					declared--
				}
			case "plus1":
				declared++
				incomplete = true
			case "plus255":
				declared += 255
				incomplete = true
			case "max":
				declared = 0xffffff
				incomplete = true
			}
		}
	}
	raw = append([]byte{byte(declared), byte(declared >> 8), byte(declared >> 16), seq}, payload...)
	return raw, incomplete, nil
}

type c38Obs struct {
	ID       string `json:"done"`
	Offender string `json:"offender"` // error | closed | answered | ignored | hang
	Detail   string `json:"detail,omitempty"`
	Healthy  bool   `json:"healthy"`
	HDetail  string `json:"healthy_detail,omitempty"`
	Accept   bool   `json:"accept"`
	ADetail  string `json:"accept_detail,omitempty"`
	Desc     string `json:"desc"`
	Harness  string `json:"harness,omitempty"`
}

// c38Token asks for a constant through the proxy (answered by a fake backend) and checks the answer.
func c38Token(cl *pxClient, token string) (bool, string) {
	got := ""
	rows := 0
	cl.c.SetDeadline(time.Now().Add(c38Timeout))
	r := cl.query("select '"+token+"'", func(row []byte) error {
		rows++
		n, np, _, ok := pxReadLenEnc(row, 0)
		if ok && np+int(n) == len(row) {
			got = string(row[np:])
		}
		return nil
	})
	if r.Kind != "resultset" || r.Term != "eof" || rows != 1 || got != token {
		return false, fmt.Sprintf("asked for %q, got %s rows=%d value=%q", token, r, rows, got)
	}
	return true, ""
}

// after three sessions were seen hanging for the full deadline the run is a violation anyway: the remaining
// cases get a short deadline so that a defect that makes many inputs hang does not take hours to report
var c38Hangs int

func c38Deadline() time.Duration {
	if c38Hangs >= 3 {
		return 5 * time.Second
	}
	return c38Timeout
}

func c38First(cl *pxClient, responds bool) (string, string) {
	cl.c.SetReadDeadline(time.Now().Add(c38Deadline()))
	d, err := cl.readPacket()
	if err != nil {
		if pxIsTimeout(err) {
			c38Hangs++
			return "hang", err.Error()
		}
		return "closed", err.Error()
	}
	if len(d) > 0 && d[0] == 0xff {
		return "error", pxDescribe(d)
	}
	if responds {
		return "answered", pxDescribe(d)
	}
	return "ignored", pxDescribe(d)
}

func TestVerifProtoMalformed(t *testing.T) {
	out, err := verifkit.OpenOut()
	if err != nil {
		t.Fatalf("no output: %v", err)
	}
	var trace *verifkit.Out
	if tp := verifkit.TraceOutPath(); tp != "" {
		if trace, err = verifkit.OpenOutPath(tp); err != nil {
			t.Fatalf("trace output: %v", err)
		}
	}
	var cases []c38Case
	if _, err = verifkit.EachCase(func(i int, raw json.RawMessage) error {
		var c c38Case
		if e := json.Unmarshal(raw, &c); e != nil {
			return e
		}
		cases = append(cases, c)
		return nil
	}); err != nil {
		t.Fatalf("cases: %v", err)
	}
	tmp, err := os.MkdirTemp("", "verif-c38-")
	if err != nil {
		t.Fatal(err)
	}
	defer os.RemoveAll(tmp)
	var backends []*fakeBackend
	for i := 0; i < 2; i++ {
		fb, err := startFakeBackend(i)
		if err != nil {
			t.Fatalf("fake backend: %v", err)
		}
		backends = append(backends, fb)
	}
	px, err := startProxy(tmp, backends, []pxNamespace{{Name: "ns_c38", User: c38User, Pass: c38Pass, MaxRes: -1}})
	if err != nil {
		t.Fatalf("proxy: %v", err)
	}
	defer px.stop()

	var healthy *pxClient
	broken := 0
	stats := map[string]int{}
	for i := range cases {
		c := &cases[i]
		obs := c38Obs{ID: c.ID, Desc: c38Desc(c)}
		// the driver attributes a dead process to the last started case
		out.Write(map[string]interface{}{"started": c.ID})
		out.Flush()
		if trace != nil {
			trace.Write(map[string]interface{}{"t": c.ID, "ev": "case", "kind": c.Kind, "ops": c.Ops})
			trace.Flush()
		}
		if healthy == nil {
			if healthy, err = pxConnect(px.addr, c38User, c38Pass, "db_ks"); err != nil {
				obs.Harness = "cannot open the healthy session: " + err.Error()
				healthy = nil
			}
		}
		c38Run(px, c, &obs, healthy)
		if !obs.Healthy && healthy != nil {
			healthy.close()
			healthy = nil
		}
		if !obs.Healthy && !obs.Accept {
			broken++
		} else {
			broken = 0
		}
		stats[obs.Offender]++
		if trace != nil {
			trace.Write(map[string]interface{}{"t": c.ID, "ev": "offender", "saw": obs.Offender})
			trace.Write(map[string]interface{}{"t": c.ID, "ev": "healthy", "ok": obs.Healthy})
			trace.Write(map[string]interface{}{"t": c.ID, "ev": "accept", "ok": obs.Accept})
		}
		out.Write(obs)
		if broken >= 5 {
			// the proxy no longer serves anybody (five cases in a row): every further case would only repeat that
			stats["aborted_with_cases_left"] = len(cases) - i - 1
			break
		}
	}
	extra := map[string]interface{}{}
	for k, v := range stats {
		extra[k] = v
	}
	if trace != nil {
		trace.Close(len(cases), nil)
	}
	out.Close(len(cases), extra)
}

func c38Run(px *pxProxy, c *c38Case, obs *c38Obs, healthy *pxClient) {
	// --- the offending session
	cl, err := pxDial(px.addr)
	if err != nil {
		obs.Harness = "dial: " + err.Error()
		return
	}
	defer cl.close()
	cl.c.SetDeadline(time.Now().Add(c38Timeout))
	if c38IsHandshake(c.Kind) {
		if err := cl.readGreeting(); err != nil {
			obs.Harness = "greeting: " + err.Error()
			return
		}
	} else {
		sessDB := "db_ks"
		if c.Kind == "fieldlist_nodb" {
			sessDB = "db_unknown"
		}
		if err := cl.handshake(c38User, c38Pass, sessDB); err != nil {
			obs.Harness = "handshake of the offending session: " + err.Error()
			return
		}
		if c38NeedsStmts(c.Kind) {
			id0, n0, r0 := cl.prepare(c38Stmt3)
			id1, n1, r1 := cl.prepare(c38Stmt0)
			if r0.Kind != "ok" || r1.Kind != "ok" || id0 != 0 || id1 != 1 || n0 != 3 || n1 != 0 {
				obs.Harness = fmt.Sprintf("prepare: %s id=%d params=%d / %s id=%d params=%d", r0, id0, n0, r1, id1, n1)
				return
			}
			if c.Kind == "execute_rebound" {
				// a first, well-formed execution binds the parameter types
				first, _ := c38Seed("execute", cl.salt)
				if err := cl.command(first[0][0], pxJoin(first[1:])); err != nil {
					obs.Harness = "first execute: " + err.Error()
					return
				}
				if r := cl.readResponse(nil); r.Kind != "resultset" || r.Term != "eof" {
					obs.Harness = "first execute: " + r.String()
					return
				}
			}
		}
	}
	fields, err := c38Seed(c.Kind, cl.salt)
	if err != nil {
		obs.Harness = err.Error()
		return
	}
	raw, incomplete, err := c38Render(c, fields)
	if err != nil {
		obs.Harness = "render: " + err.Error()
		return
	}
	halfClose := incomplete
	for _, o := range c.Ops {
		if o.Op == "hdrlen" {
			halfClose = true // the stream is out of step afterwards: end it so that the proxy sees EOF
		}
	}
	// a healthy session is querying while the input arrives
	type hres struct {
		ok     bool
		detail string
	}
	hch := make(chan hres, 1)
	if healthy != nil {
		go func() {
			ok, d := c38Token(healthy, "during-"+c.ID)
			hch <- hres{ok, d}
		}()
	}
	repeat := false
	for _, o := range c.Ops {
		if o.Op == "repeat" {
			repeat = true
		}
	}
	werr := cl.sendRaw(raw)
	if repeat {
		// the same packet nineteen more times, then the end of the stream: the proxy works through all of them
		for i := 0; i < 19 && werr == nil; i++ {
			if e := cl.sendRaw(raw); e != nil {
				break // the session was closed on an earlier copy
			}
		}
		halfClose = true
	}
	if werr == nil && !c38IsHandshake(c.Kind) && !c38Responds(c.Kind) && !halfClose {
		// commands without an answer: a probe tells an ignored packet from a dead session
		werr = cl.sendRaw([]byte{1, 0, 0, 0, 0x0e})
	}
	if halfClose {
		if tc, ok := cl.c.(*net.TCPConn); ok {
			tc.CloseWrite()
		}
	}
	if werr != nil {
		obs.Offender, obs.Detail = "closed", "write: "+werr.Error()
	} else {
		obs.Offender, obs.Detail = c38First(cl, c38IsHandshake(c.Kind) || c38Responds(c.Kind))
	}
	if repeat && obs.Offender != "hang" {
		// wait until the proxy has worked through the copies and closed the session
		cl.c.SetReadDeadline(time.Now().Add(c38Deadline()))
		for {
			if _, err := cl.readPacket(); err != nil {
				break
			}
		}
	}
	if healthy != nil {
		h := <-hch
		obs.Healthy, obs.HDetail = h.ok, h.detail
		if h.ok {
			obs.Healthy, obs.HDetail = c38Token(healthy, "after-"+c.ID)
		}
	}
	// --- the listener still accepts and serves
	fresh, err := pxConnect(px.addr, c38User, c38Pass, "db_ks")
	if err != nil {
		obs.Accept, obs.ADetail = false, err.Error()
		return
	}
	obs.Accept, obs.ADetail = c38Token(fresh, "fresh-"+c.ID)
	fresh.close()
}
