package server

// In-process fake MySQL endpoint for the C20 conformance harness (spec/SessionVars.tla).
// It speaks just enough server protocol for backend.DirectConnection: handshake v10 + OK,
// COM_QUERY -> OK / ERR, COM_INIT_DB, COM_PING, COM_QUIT.  Framing is done on the raw socket so
// that the fake does not depend on the code under test.
//
// Every accepted TCP connection is one backend session with its own *actual* settings:
//   - the character set / collation pair (initially the collation byte of the handshake response),
//   - session and user variables (name -> literal text; absent = server default / NULL).
// A SET statement is parsed assignment by assignment and applied atomically, or refused atomically
// when the current step of the case says so.  Every other query is recorded together with the
// settings the session carried when it arrived; queries carrying a "c20:" tag are held until the
// harness releases them (that is how two statements overlap deterministically).

import (
	"encoding/binary"
	"fmt"
	"io"
	"net"
	"sort"
	"strings"
	"sync"
)

type c20Assign struct {
	Name string // lower case, user variables keep '@'
	Val  string // literal without quotes; "" with Def=true means DEFAULT / NULL
	Def  bool
}

type c20Snapshot struct {
	Charset   string
	Collation string
	Vars      map[string]string
}

type c20BackendEvent struct {
	Kind    string // "fresh", "apply", "reject", "exec", "other"
	Serial  int
	Snap    c20Snapshot // settings after the event (for exec: the settings the query ran with)
	HasCs   bool
	Assigns []c20Assign
	SQL     string
}

type c20Arrival struct {
	Serial int
	Tag    string
	Snap   c20Snapshot
}

type c20Fake struct {
	ln net.Listener

	mu      sync.Mutex
	serial  int
	conns   map[int]*c20FakeConn
	events  []c20BackendEvent
	nset    int    // SET statements (other than autocommit) seen in the current step
	rejNth  int    // refuse the n-th of them (0 = none)
	rejKind string // "reject" | "sqlmode"

	arrived chan c20Arrival
}

type c20FakeConn struct {
	f       *c20Fake
	c       net.Conn
	serial  int
	seq     byte
	status  uint16
	snap    c20Snapshot
	release chan struct{}
}

func c20StartFake() (*c20Fake, error) {
	ln, err := net.Listen("tcp", "127.0.0.1:0")
	if err != nil {
		return nil, err
	}
	f := &c20Fake{ln: ln, conns: map[int]*c20FakeConn{}, arrived: make(chan c20Arrival, 16)}
	go func() {
		for {
			c, err := ln.Accept()
			if err != nil {
				return
			}
			f.mu.Lock()
			f.serial++
			fc := &c20FakeConn{f: f, c: c, serial: f.serial, status: 0x0002, release: make(chan struct{}, 1)}
			f.conns[fc.serial] = fc
			f.mu.Unlock()
			go fc.serve()
		}
	}()
	return f, nil
}

func (f *c20Fake) Addr() string { return f.ln.Addr().String() }

// beginStep arms the refusal of the n-th SET of the coming step and clears the per-step counter.
func (f *c20Fake) beginStep(rejNth int, kind string) {
	f.mu.Lock()
	f.nset, f.rejNth, f.rejKind = 0, rejNth, kind
	f.mu.Unlock()
}

func (f *c20Fake) stepSets() int {
	f.mu.Lock()
	defer f.mu.Unlock()
	return f.nset
}

func (f *c20Fake) takeEvents() []c20BackendEvent {
	f.mu.Lock()
	defer f.mu.Unlock()
	ev := f.events
	f.events = nil
	return ev
}

func (f *c20Fake) releaseConn(serial int) {
	f.mu.Lock()
	fc := f.conns[serial]
	f.mu.Unlock()
	if fc != nil {
		select {
		case fc.release <- struct{}{}:
		default:
		}
	}
}

func (s c20Snapshot) clone() c20Snapshot {
	m := make(map[string]string, len(s.Vars))
	for k, v := range s.Vars {
		m[k] = v
	}
	return c20Snapshot{Charset: s.Charset, Collation: s.Collation, Vars: m}
}

func (fc *c20FakeConn) log(e c20BackendEvent) {
	e.Serial = fc.serial
	fc.f.mu.Lock()
	fc.f.events = append(fc.f.events, e)
	fc.f.mu.Unlock()
}

// ---- framing -------------------------------------------------------------------------

func (fc *c20FakeConn) readPacket() ([]byte, error) {
	var h [4]byte
	if _, err := io.ReadFull(fc.c, h[:]); err != nil {
		return nil, err
	}
	n := int(h[0]) | int(h[1])<<8 | int(h[2])<<16
	fc.seq = h[3] + 1
	b := make([]byte, n)
	if _, err := io.ReadFull(fc.c, b); err != nil {
		return nil, err
	}
	return b, nil
}

func (fc *c20FakeConn) writePacket(b []byte) error {
	h := []byte{byte(len(b)), byte(len(b) >> 8), byte(len(b) >> 16), fc.seq}
	fc.seq++
	_, err := fc.c.Write(append(h, b...))
	return err
}

func (fc *c20FakeConn) writeOK() error {
	b := []byte{0x00, 0, 0, 0, 0, 0, 0}
	binary.LittleEndian.PutUint16(b[3:], fc.status)
	return fc.writePacket(b)
}

func (fc *c20FakeConn) writeErr(code uint16, state, msg string) error {
	b := []byte{0xff, 0, 0, '#'}
	binary.LittleEndian.PutUint16(b[1:], code)
	b = append(b, state...)
	b = append(b, msg...)
	return fc.writePacket(b)
}

// ---- session -------------------------------------------------------------------------

func (fc *c20FakeConn) serve() {
	defer fc.c.Close()
	// handshake v10
	hs := []byte{10}
	hs = append(hs, "5.7.25-c20fake"...)
	hs = append(hs, 0)
	id := make([]byte, 4)
	binary.LittleEndian.PutUint32(id, uint32(fc.serial))
	hs = append(hs, id...)
	hs = append(hs, "abcdefgh"...) // salt part 1
	hs = append(hs, 0)
	capab := uint32(0x00000001 | 0x00000004 | 0x00000008 | 0x00000200 | 0x00002000 | 0x00008000 | 0x00080000)
	hs = append(hs, byte(capab), byte(capab>>8))
	hs = append(hs, 45) // server default collation
	hs = append(hs, byte(fc.status), byte(fc.status>>8))
	hs = append(hs, byte(capab>>16), byte(capab>>24))
	hs = append(hs, 21)
	hs = append(hs, make([]byte, 10)...)
	hs = append(hs, "ijklmnopqrst"...) // salt part 2
	hs = append(hs, 0)
	hs = append(hs, "mysql_native_password"...)
	hs = append(hs, 0)
	fc.seq = 0
	if fc.writePacket(hs) != nil {
		return
	}
	resp, err := fc.readPacket()
	if err != nil || len(resp) < 9 {
		return
	}
	coll := int(resp[8])
	cs, cn := c20CollationName(coll)
	fc.snap = c20Snapshot{Charset: cs, Collation: cn, Vars: map[string]string{}}
	fc.log(c20BackendEvent{Kind: "fresh", Snap: fc.snap.clone()})
	if fc.writeOK() != nil {
		return
	}
	for {
		pkt, err := fc.readPacket()
		if err != nil || len(pkt) == 0 {
			return
		}
		switch pkt[0] {
		case 0x01: // COM_QUIT
			return
		case 0x02, 0x0e: // COM_INIT_DB, COM_PING
			if fc.writeOK() != nil {
				return
			}
		case 0x03:
			if fc.query(string(pkt[1:])) != nil {
				return
			}
		default:
			if fc.writeErr(1047, "08S01", "c20 fake: unsupported command") != nil {
				return
			}
		}
	}
}

func (fc *c20FakeConn) query(sql string) error {
	low := strings.ToLower(strings.TrimSpace(sql))
	switch {
	case low == "begin" || strings.HasPrefix(low, "start transaction"):
		fc.status |= 0x0001
		return fc.writeOK()
	case low == "commit" || low == "rollback":
		fc.status &^= 0x0001
		return fc.writeOK()
	case strings.HasPrefix(low, "set "):
		as, hasCs, cs, coll, perr := c20ParseSet(sql)
		if perr != nil {
			fc.log(c20BackendEvent{Kind: "other", SQL: sql})
			return fc.writeErr(1064, "42000", "c20 fake cannot parse: "+perr.Error())
		}
		if len(as) == 1 && !hasCs && as[0].Name == "autocommit" {
			if as[0].Val == "0" {
				fc.status &^= 0x0002
			} else {
				fc.status |= 0x0002
			}
			return fc.writeOK()
		}
		f := fc.f
		f.mu.Lock()
		f.nset++
		refuse := f.rejNth != 0 && f.nset == f.rejNth
		kind := f.rejKind
		f.mu.Unlock()
		if refuse {
			fc.log(c20BackendEvent{Kind: "reject", Snap: fc.snap.clone(), SQL: sql})
			if kind == "sqlmode" {
				return fc.writeErr(1231, "42000", "Variable 'sql_mode' can't be set to the value of 'c20'")
			}
			return fc.writeErr(1205, "HY000", "c20 fake: SET refused")
		}
		if hasCs {
			fc.snap.Charset, fc.snap.Collation = cs, coll
		}
		for _, a := range as {
			if a.Def {
				delete(fc.snap.Vars, a.Name)
			} else {
				fc.snap.Vars[a.Name] = a.Val
			}
		}
		fc.log(c20BackendEvent{Kind: "apply", Snap: fc.snap.clone(), HasCs: hasCs, Assigns: as, SQL: sql})
		return fc.writeOK()
	}
	tag := ""
	if i := strings.Index(sql, "c20:"); i >= 0 {
		tag = sql[i+4:]
		if j := strings.IndexAny(tag, "' */"); j >= 0 {
			tag = tag[:j]
		}
	}
	if tag == "" {
		fc.log(c20BackendEvent{Kind: "other", SQL: sql})
		return fc.writeOK()
	}
	snap := fc.snap.clone()
	fc.log(c20BackendEvent{Kind: "exec", Snap: snap, SQL: tag})
	fc.f.arrived <- c20Arrival{Serial: fc.serial, Tag: tag, Snap: snap}
	<-fc.release
	return fc.writeOK()
}

// ---- SET parser ------------------------------------------------------------------------

// c20SplitTop splits on commas that are outside quotes.
func c20SplitTop(s string) []string {
	var out []string
	var cur strings.Builder
	var q byte
	for i := 0; i < len(s); i++ {
		ch := s[i]
		switch {
		case q != 0:
			cur.WriteByte(ch)
			if ch == q {
				q = 0
			}
		case ch == '\'' || ch == '"' || ch == '`':
			q = ch
			cur.WriteByte(ch)
		case ch == ',':
			out = append(out, cur.String())
			cur.Reset()
		default:
			cur.WriteByte(ch)
		}
	}
	out = append(out, cur.String())
	return out
}

func c20Unquote(s string) string {
	s = strings.TrimSpace(s)
	if len(s) >= 2 && (s[0] == '\'' || s[0] == '"' || s[0] == '`') && s[len(s)-1] == s[0] {
		return s[1 : len(s)-1]
	}
	return s
}

func c20ParseSet(sql string) (as []c20Assign, hasCs bool, charset, collation string, err error) {
	body := strings.TrimSpace(sql)[4:]
	for i, part := range c20SplitTop(body) {
		p := strings.TrimSpace(part)
		lp := strings.ToLower(p)
		if strings.HasPrefix(lp, "names ") || strings.HasPrefix(lp, "names\t") {
			if i != 0 {
				return nil, false, "", "", fmt.Errorf("NAMES not first")
			}
			rest := strings.TrimSpace(p[6:])
			lrest := strings.ToLower(rest)
			if j := strings.Index(lrest, " collate "); j >= 0 {
				charset = strings.ToLower(c20Unquote(rest[:j]))
				collation = strings.ToLower(c20Unquote(rest[j+9:]))
			} else {
				charset = strings.ToLower(c20Unquote(rest))
				collation = c20DefaultCollation(charset)
			}
			if c20DefaultCollation(charset) == "" {
				return nil, false, "", "", fmt.Errorf("unknown charset %q", charset)
			}
			hasCs = true
			continue
		}
		eq := strings.Index(p, "=")
		if eq < 0 {
			return nil, false, "", "", fmt.Errorf("no '=' in %q", p)
		}
		name := strings.ToLower(strings.TrimSpace(p[:eq]))
		name = strings.TrimPrefix(name, "session ")
		name = strings.TrimPrefix(name, "@@session.")
		name = strings.TrimPrefix(name, "@@")
		val := strings.TrimSpace(p[eq+1:])
		if name == "" || val == "" || strings.ContainsAny(name, " \t") {
			return nil, false, "", "", fmt.Errorf("bad assignment %q", p)
		}
		lv := strings.ToLower(val)
		if lv == "default" || (strings.HasPrefix(name, "@") && lv == "null") {
			as = append(as, c20Assign{Name: name, Def: true})
		} else {
			as = append(as, c20Assign{Name: name, Val: c20Unquote(val)})
		}
	}
	return as, hasCs, charset, collation, nil
}

func c20DefaultCollation(cs string) string {
	switch cs {
	case "utf8mb4":
		return "utf8mb4_general_ci"
	case "gbk":
		return "gbk_chinese_ci"
	case "utf8":
		return "utf8_general_ci"
	case "latin1":
		return "latin1_swedish_ci"
	}
	return ""
}

func c20CollationName(id int) (string, string) {
	switch id {
	case 45:
		return "utf8mb4", "utf8mb4_general_ci"
	case 46:
		return "utf8mb4", "utf8mb4_bin"
	case 28:
		return "gbk", "gbk_chinese_ci"
	case 87:
		return "gbk", "gbk_bin"
	case 33:
		return "utf8", "utf8_general_ci"
	case 8:
		return "latin1", "latin1_swedish_ci"
	}
	return "?", fmt.Sprintf("?%d", id)
}

func c20SortedKeys(m map[string]string) []string {
	ks := make([]string, 0, len(m))
	for k := range m {
		ks = append(ks, k)
	}
	sort.Strings(ks)
	return ks
}
