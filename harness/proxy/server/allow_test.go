package server

// Conformance harness for spec/Auth.tla part 2 + spec/Auth_allow.tla (property C35).
// Direction G: TLC emits allow-lists (entries: family, address bytes, prefix length, "/n" or single address,
// spaces around) and for each list client addresses at the prefix boundaries with the specification's verdict
// (allow / deny / either).  The harness writes the entries as configuration text, runs the real
// parseAllowIps, and asks the real Namespace.IsClientIPAllowed - directly and through
// Session.IsAllowConnect with a connection whose remote address is the client - for every presentation of
// the client address.

import (
	"encoding/json"
	"fmt"
	"net"
	"sort"
	"strings"
	"testing"

	"github.com/XiaoMi/Gaea/internal/verifkit"
	"github.com/XiaoMi/Gaea/mysql"
)

type alEntry struct {
	Fam   int   `json:"fam"`
	IP    []int `json:"ip"`
	Plen  int   `json:"plen"`
	Cidr  bool  `json:"cidr"`
	Lead  int   `json:"lead"`
	Trail int   `json:"trail"`
}

type alClient struct {
	IP      []int  `json:"ip"`
	Verdict string `json:"verdict"`
}

type alCase struct {
	List    []alEntry  `json:"list"`
	Clients []alClient `json:"clients"`
}

func alBytes(a []int) []byte {
	b := make([]byte, len(a))
	for i, x := range a {
		b[i] = byte(x)
	}
	return b
}

func isMapped16(b []byte) bool {
	if len(b) != 16 {
		return false
	}
	for i := 0; i < 10; i++ {
		if b[i] != 0 {
			return false
		}
	}
	return b[10] == 0xff && b[11] == 0xff
}

// v6Text writes 16 bytes as eight hexadecimal groups (no compression), or, for style 1 and an IPv4-mapped
// address, as ::ffff:a.b.c.d
func v6Text(b []byte, style int) string {
	if style == 1 && isMapped16(b) {
		return fmt.Sprintf("::ffff:%d.%d.%d.%d", b[12], b[13], b[14], b[15])
	}
	g := make([]string, 8)
	for i := 0; i < 8; i++ {
		g[i] = fmt.Sprintf("%x", int(b[2*i])<<8|int(b[2*i+1]))
	}
	return strings.Join(g, ":")
}

func entryText(e *alEntry, idx int) string {
	if e.Fam == 0 {
		return strings.Repeat(" ", 1+idx%2)
	}
	b := alBytes(e.IP)
	var s string
	if e.Fam == 4 {
		s = fmt.Sprintf("%d.%d.%d.%d", b[0], b[1], b[2], b[3])
	} else {
		s = v6Text(b, (e.Plen+idx)%2)
	}
	if e.Cidr {
		s += fmt.Sprintf("/%d", e.Plen)
	}
	return strings.Repeat(" ", e.Lead) + s + strings.Repeat(" ", e.Trail)
}

func entryKind(e *alEntry) string {
	if e.Fam == 0 {
		return "blank"
	}
	k := fmt.Sprintf("v%d", e.Fam)
	if e.Fam == 6 && isMapped16(alBytes(e.IP)) {
		k = "v6mapped"
	}
	w := 32
	if e.Fam == 6 {
		w = 128
	}
	switch {
	case !e.Cidr:
		k += "-single"
	case e.Plen == 0:
		k += "/0"
	case e.Plen == w:
		k += "/full"
	default:
		k += "/n"
	}
	return k
}

type alPresentation struct {
	name string
	ip   net.IP
}

func presentations(b []byte) []alPresentation {
	var out []alPresentation
	if len(b) == 4 {
		txt := fmt.Sprintf("%d.%d.%d.%d", b[0], b[1], b[2], b[3])
		out = append(out, alPresentation{"v4-parsed", net.ParseIP(txt)}, alPresentation{"v4-4byte", net.IP(append([]byte{}, b...))})
		return out
	}
	if isMapped16(b) {
		out = append(out, alPresentation{"mapped-parsed", net.ParseIP(v6Text(b, 1))})
		out = append(out, alPresentation{"mapped-16byte", net.IP(append([]byte{}, b...))})
		return out
	}
	out = append(out, alPresentation{"v6-parsed", net.ParseIP(v6Text(b, 0))}, alPresentation{"v6-16byte", net.IP(append([]byte{}, b...))})
	return out
}

func TestVerifAllowList(t *testing.T) {
	out, err := verifkit.OpenOut()
	if err != nil {
		t.Fatal(err)
	}
	nchecks, neither, nallow, ndeny := 0, 0, 0, 0
	n, err := verifkit.EachCase(func(i int, raw json.RawMessage) error {
		var c alCase
		if err := json.Unmarshal(raw, &c); err != nil {
			return err
		}
		res := &verifkit.Result{Case: i}
		var texts, kinds []string
		for k := range c.List {
			texts = append(texts, entryText(&c.List[k], k))
			kinds = append(kinds, entryKind(&c.List[k]))
		}
		sort.Strings(kinds)
		lk := strings.Join(kinds, "+")
		if lk == "" {
			lk = "empty"
		}
		var ns *Namespace
		pan, msg, _ := verifkit.Catch(func() {
			ips, err := parseAllowIps(texts)
			if err != nil {
				res.Dev("C35 valid-entry-refused "+lk, "parseAllowIps(%q): %v", texts, err)
				return
			}
			ns = &Namespace{name: "verif_ns", allowips: ips}
		})
		if pan {
			res.Dev("C35 panic parseAllowIps "+lk, "parseAllowIps(%q) panics: %s", texts, msg)
		}
		if ns != nil {
			// a session of that namespace whose peer is the client (Session.IsAllowConnect)
			nsm := NewNamespaceManager()
			nsm.namespaces[ns.name] = ns
			mgr := &Manager{}
			mgr.namespaces[0], mgr.namespaces[1] = nsm, nsm
			for _, cl := range c.Clients {
				b := alBytes(cl.IP)
				for _, p := range presentations(b) {
					for _, via := range []string{"IsClientIPAllowed", "Session.IsAllowConnect"} {
						var got bool
						pan, msg, _ := verifkit.Catch(func() {
							if via == "IsClientIPAllowed" {
								got = ns.IsClientIPAllowed(p.ip)
							} else {
								conn := &alConn{remote: &net.TCPAddr{IP: p.ip, Port: 40000 + i%1000}}
								s := &Session{manager: mgr, namespace: ns.name, c: &ClientConn{Conn: mysql.NewConn(conn)}}
								got = s.IsAllowConnect()
							}
						})
						nchecks++
						pk := strings.SplitN(p.name, "-", 2)[0]
						if pan {
							res.Dev(fmt.Sprintf("C35 panic %s list=%s client=%s", via, lk, pk), "list %q client %v: %s", texts, p.ip, msg)
							continue
						}
						switch cl.Verdict {
						case "either":
							neither++
						case "allow":
							nallow++
							if !got {
								res.Dev(fmt.Sprintf("C35 refused-but-listed list=%s client=%s", lk, pk), "allow-list %q, client %v (%s) via %s: refused, the specification allows", texts, p.ip, p.name, via)
							}
						case "deny":
							ndeny++
							if got {
								res.Dev(fmt.Sprintf("C35 admitted-but-not-listed list=%s client=%s", lk, pk), "allow-list %q, client %v (%s) via %s: admitted, the specification denies", texts, p.ip, p.name, via)
							}
						default:
							res.Dev("C35 harness bad-case", "verdict %q", cl.Verdict)
						}
					}
				}
			}
		}
		if len(res.Devs) > 0 {
			if len(res.Devs) > 6 {
				res.Devs = res.Devs[:6]
			}
			res.Obs = raw
			out.Write(res)
		}
		return nil
	})
	if err != nil {
		t.Fatal(err)
	}
	out.Close(n, map[string]interface{}{"calls": nchecks, "either": neither, "allow": nallow, "deny": ndeny})
}
