package server

// Conformance harness for spec/Protocol.tla, result delivery (property C39).
// Direction G: every case TLC enumerates (row limit, rows per backend, row packet length,
// unsharded / single shard / two shards, text / binary protocol) is executed against the real
// proxy: fake MySQL backends produce the scripted result sets with real protocol bytes, the real
// Server / Session / SessionExecutor / plan / Slice / pool / DirectConnection carry them, and a
// client counts the rows it receives.  The observation is compared with the specification's
// expected outcome (expect = "full" | "error"); the prediction of the as-coded design model
// (pred) is compared too, but only reported as model drift.

import (
	"bytes"
	"encoding/json"
	"fmt"
	"os"
	"testing"

	"github.com/XiaoMi/Gaea/internal/verifkit"
)

type c39Pred struct {
	Outcome string `json:"outcome"`
	Sent    int    `json:"sent"`
}

type c39Case struct {
	ID     string  `json:"id"`
	Limit  int     `json:"limit"` // 0 = unlimited
	Mode   string  `json:"mode"`  // unsharded | shard1 | shard2
	Proto  string  `json:"proto"` // text | binary
	RowLen int     `json:"rowlen"`
	N      []int   `json:"n"`
	Expect string  `json:"expect"` // full | error
	Total  int     `json:"total"`
	Pred   c39Pred `json:"pred"`
}

type c39Obs struct {
	ID      string `json:"id"`
	Outcome string `json:"outcome"` // complete | error | closed | hang | protocol
	Rows    int    `json:"rows"`
	Intact  bool   `json:"intact"` // every delivered row is byte-identical to a produced row, no row twice
	Detail  string `json:"detail,omitempty"`
	Drift   string `json:"drift,omitempty"`
}

func c39NsName(limit int) string {
	if limit == 0 {
		return "ns_unl"
	}
	return fmt.Sprintf("ns_l%d", limit)
}

func c39Rel(c *c39Case, n int) string {
	if c.Limit == 0 {
		return "unlimited"
	}
	switch {
	case n == c.Limit:
		return "limit"
	case n == c.Limit-1:
		return "limit-1"
	case n == c.Limit+1:
		return "limit+1"
	case n < c.Limit:
		return "below-limit"
	}
	return "above-limit"
}

func c39MaxRel(c *c39Case) string {
	m := 0
	for _, n := range c.N {
		if n > m {
			m = n
		}
	}
	return c39Rel(c, m)
}

func c39Crosses(c *c39Case) bool {
	for _, n := range c.N {
		if n*c.RowLen > pxMaxPacket {
			return true
		}
	}
	return false
}

func c39ModeClass(c *c39Case) string {
	if c.Mode == "unsharded" {
		return "unsharded"
	}
	if c.Mode == "multi2" {
		return "multi-result"
	}
	return "sharded"
}

func TestVerifProtoResults(t *testing.T) {
	out, err := verifkit.OpenOut()
	if err != nil {
		t.Fatalf("no output: %v", err)
	}
	var cases []c39Case
	_, err = verifkit.EachCase(func(i int, raw json.RawMessage) error {
		var c c39Case
		if e := json.Unmarshal(raw, &c); e != nil {
			return e
		}
		cases = append(cases, c)
		return nil
	})
	if err != nil {
		t.Fatalf("cases: %v", err)
	}
	tmp, err := os.MkdirTemp("", "verif-c39-")
	if err != nil {
		t.Fatal(err)
	}
	defer os.RemoveAll(tmp)
	var backends []*fakeBackend
	for i := 0; i < 2; i++ {
		fb, err := startFakeBackend(i)
		if err != nil {
			t.Fatalf("fake backend: %v", err)
		}
		backends = append(backends, fb)
	}
	limits := map[int]bool{}
	var nss []pxNamespace
	for _, c := range cases {
		if !limits[c.Limit] {
			limits[c.Limit] = true
			mr := c.Limit
			if mr == 0 {
				mr = -1
			}
			nss = append(nss, pxNamespace{Name: c39NsName(c.Limit), User: "u_" + c39NsName(c.Limit), Pass: "pw", MaxRes: mr})
		}
	}
	px, err := startProxy(tmp, backends, nss)
	if err != nil {
		t.Fatalf("proxy: %v", err)
	}
	defer px.stop()

	var trace *verifkit.Out
	if tp := verifkit.TraceOutPath(); tp != "" {
		if trace, err = verifkit.OpenOutPath(tp); err != nil {
			t.Fatalf("trace output: %v", err)
		}
	}
	stats := map[string]int{}
	for i := range cases {
		c := &cases[i]
		res := verifkit.Result{Case: i}
		obs := c39Run(px, c, &res)
		res.Obs = obs
		if trace != nil {
			// the observation as a trace line for TLC (spec/Protocol_trace.tla, ev = "result")
			trace.Write(map[string]interface{}{"t": c.ID, "ev": "result", "limit": c.Limit, "mode": c.Mode, "proto": c.Proto,
				"rowlen": c.RowLen, "n": c.N, "outcome": obs.Outcome, "rows": obs.Rows, "intact": obs.Intact, "detail": obs.Detail})
		}
		stats[obs.Outcome]++
		if obs.Drift != "" {
			stats["model_drift"]++
			res.Tag("drift")
		}
		if len(res.Devs) > 0 || obs.Drift != "" {
			out.Write(res)
		}
	}
	extra := map[string]interface{}{}
	for k, v := range stats {
		extra[k] = v
	}
	if trace != nil {
		trace.Close(len(cases), nil)
	}
	out.Close(len(cases), extra)
}

func c39Run(px *pxProxy, c *c39Case, res *verifkit.Result) c39Obs {
	obs := c39Obs{ID: c.ID}
	dl, err := pxDataLenForRowLen(c.RowLen)
	if err != nil {
		res.Dev("C39 harness bad-rowlen", "%v", err)
		obs.Outcome = "harness"
		return obs
	}
	// script the backends: which sub-table statement produces how many rows
	var sql string
	subs := []int{-1}          // sub-table index of every per-shard result of the case (-1: the unsharded table)
	stmts := map[int]int{0: 1} // statements every backend must see
	switch c.Mode {
	case "unsharded":
		sql = "select v from t_plain"
	case "shard1":
		sql = "select v from tbl_ks where id = 0"
		subs = []int{0}
	case "shard2":
		sql = "select v from tbl_ks where id in (0, 2)"
		subs = []int{0, 2}
		stmts = map[int]int{0: 1, 1: 1}
	case "shard4":
		sql = "select v from tbl_ks"
		subs = []int{0, 1, 2, 3}
		stmts = map[int]int{0: 2, 1: 2}
	case "multi2": // one unsharded statement answered with two result sets
		sql = "select v from t_plain"
		subs = []int{-1, -1}
	default:
		res.Dev("C39 harness bad-mode", "%s", c.Mode)
		obs.Outcome = "harness"
		return obs
	}
	if len(c.N) != len(subs) {
		res.Dev("C39 harness bad-case", "mode %s with %d backends", c.Mode, len(c.N))
		obs.Outcome = "harness"
		return obs
	}
	produced := map[int]int{} // row tag (sub-table index, 0 for the unsharded table) -> rows produced
	for _, b := range px.backends {
		sc := fbScript{Rows: 0, RowLen: c.RowLen, Sub: map[int]int{}}
		for i, sub := range subs {
			if sub < 0 && c.Mode == "multi2" {
				sc.Multi = append(sc.Multi, c.N[i])
				produced[i] = c.N[i]
			} else if sub < 0 {
				sc.Rows = c.N[i]
				produced[0] = c.N[i]
			} else {
				sc.Sub[sub] = c.N[i]
				produced[sub] = c.N[i]
			}
		}
		b.setScript(sc)
	}
	cl, err := pxConnect(px.addr, "u_"+c39NsName(c.Limit), "pw", "db_ks")
	if err != nil {
		res.Dev("C39 harness connect-failed", "%v", err)
		obs.Outcome = "harness"
		return obs
	}
	defer cl.close()

	// rows seen per backend, by row index
	seen := make([]map[int]int, 4)
	for i := range seen {
		seen[i] = map[int]int{}
	}
	bad := ""
	binary := c.Proto == "binary"
	onRow := func(row []byte) error {
		pos := 0
		if binary {
			// binary row: 0x00, null bitmap of (1+7+2)/8 = 1 byte, then the value
			if len(row) < 2 || row[0] != 0 {
				if bad == "" {
					bad = fmt.Sprintf("not a binary row: % x", row[:pxMin(len(row), 8)])
				}
				return nil
			}
			pos = 2
		}
		n, np, isNull, ok := pxReadLenEnc(row, pos)
		if !ok || isNull || np+int(n) != len(row) {
			if bad == "" {
				bad = fmt.Sprintf("row framing: packet %d bytes, value prefix says %d at %d", len(row), n, np)
			}
			return nil
		}
		data := row[np:]
		if len(data) != dl {
			if bad == "" {
				bad = fmt.Sprintf("row value has %d bytes, produced rows have %d", len(data), dl)
			}
			return nil
		}
		if dl >= 12 {
			var be, idx int
			if _, e := fmt.Sscanf(string(data[:11]), "B%dR%07d|", &be, &idx); e != nil || be < 0 || be > 3 {
				if bad == "" {
					bad = fmt.Sprintf("row header unreadable: %q", data[:11])
				}
				return nil
			}
			if !bytes.Equal(data, pxRowData(be, idx, dl)) {
				if bad == "" {
					bad = fmt.Sprintf("row B%dR%d content differs from what the backend produced", be, idx)
				}
				return nil
			}
			seen[be][idx]++
		}
		return nil
	}
	var r pxResult
	if binary {
		id, _, pr := cl.prepare(sql)
		if pr.Kind != "ok" {
			res.Dev("C39 harness prepare-failed", "%s", pr)
			obs.Outcome = "harness"
			return obs
		}
		p := make([]byte, 9)
		p[0], p[1], p[2], p[3] = byte(id), byte(id>>8), byte(id>>16), byte(id>>24)
		p[5] = 1
		if err := cl.command(0x17, p); err != nil {
			r = pxResult{Kind: "closed", Detail: err.Error()}
		} else {
			r, _ = cl.readResults(onRow)
		}
	} else {
		if err := cl.command(0x03, []byte(sql)); err != nil {
			r = pxResult{Kind: "closed", Detail: "write: " + err.Error()}
		} else {
			r, _ = cl.readResults(onRow)
		}
	}
	obs.Rows = r.Rows
	obs.Intact = bad == ""
	if dl >= 12 {
		for be, m := range seen {
			wantN := produced[be]
			for idx, k := range m {
				if k != 1 || idx >= wantN {
					obs.Intact = false
				}
			}
		}
	}
	switch {
	case r.Kind == "err":
		obs.Outcome = "error"
		obs.Detail = r.ErrMsg
	case r.Kind == "resultset" && r.Term == "eof":
		obs.Outcome = "complete"
	case r.Kind == "resultset" && r.Term == "err":
		obs.Outcome = "error"
		obs.Detail = r.ErrMsg
	case r.Kind == "closed" || (r.Kind == "resultset" && r.Term == "closed"):
		obs.Outcome = "closed"
		obs.Detail = r.Detail
	case r.Kind == "timeout" || (r.Kind == "resultset" && r.Term == "timeout"):
		obs.Outcome = "hang"
		obs.Detail = r.Detail
	default:
		obs.Outcome = "protocol"
		obs.Detail = r.String()
	}

	// harness soundness: the statement reached exactly the backends the case is about
	for i, b := range px.backends {
		_, qs := b.stats()
		want := stmts[i]
		if len(qs) > want {
			res.Tag("surplus-statement") // a statement of an earlier case reached the backend late; the oracle judges the rows
		}
		if len(qs) < want && obs.Outcome != "error" { // (a failed statement ends its slice's work)
			res.Dev("C39 harness routing", "backend %d saw %d statements %q, the case (%s) needs %d", i, len(qs), qs, c.Mode, want)
		}
	}

	cross := "below-threshold"
	if c39Crosses(c) {
		cross = "above-threshold"
	}
	what := fmt.Sprintf("case %s: limit=%d mode=%s proto=%s rowlen=%d produced=%v; specification expects %s (%d rows); "+
		"client observed %s with %d rows %s", c.ID, c.Limit, c.Mode, c.Proto, c.RowLen, c.N, c.Expect, c.Total, obs.Outcome, obs.Rows, obs.Detail)
	switch obs.Outcome {
	case "complete":
		if c.Expect == "error" {
			res.Dev(fmt.Sprintf("C39 over-limit result delivered without error: %s rows=%s %s", c39ModeClass(c), c39MaxRel(c), cross), "%s", what)
		} else if obs.Rows < c.Total {
			res.Dev(fmt.Sprintf("C39 silent truncation: %s %s", c39ModeClass(c), cross), "%s", what)
		} else if obs.Rows > c.Total {
			res.Dev(fmt.Sprintf("C39 surplus rows: %s %s", c39ModeClass(c), cross), "%s", what)
		} else if bad != "" {
			res.Dev(fmt.Sprintf("C39 delivered rows differ from produced rows: %s %s %s", c39ModeClass(c), c.Proto, cross), "%s; %s", what, bad)
		} else if dl >= 12 {
			for be, m := range seen {
				wantN := produced[be]
				for idx, k := range m {
					if k != 1 || idx >= wantN {
						res.Dev(fmt.Sprintf("C39 delivered rows differ from produced rows: %s %s %s", c39ModeClass(c), c.Proto, cross),
							"%s; row B%dR%d delivered %d times", what, be, idx, k)
						break
					}
				}
				if len(m) != wantN {
					res.Dev(fmt.Sprintf("C39 delivered rows differ from produced rows: %s %s %s", c39ModeClass(c), c.Proto, cross),
						"%s; %d distinct rows of backend %d delivered, %d produced", what, len(m), be, wantN)
				}
			}
		}
	case "error", "closed":
		// a closed connection in place of the terminator is an error at the client (lost connection)
		if c.Expect == "full" {
			res.Dev(fmt.Sprintf("C39 result within limit answered with error: %s rows=%s %s", c39ModeClass(c), c39MaxRel(c), cross), "%s", what)
		}
	case "hang":
		res.Dev(fmt.Sprintf("C39 no answer: %s %s", c39ModeClass(c), cross), "%s", what)
	default:
		res.Dev(fmt.Sprintf("C39 malformed answer: %s %s %s", c39ModeClass(c), c.Proto, cross), "%s", what)
	}

	// faithfulness of the as-coded design model (never a verdict)
	po := c.Pred.Outcome
	oo := obs.Outcome
	if oo == "closed" {
		oo = "error"
	}
	if po != "" && (po != oo || (po == "complete" && c.Pred.Sent != obs.Rows)) {
		obs.Drift = fmt.Sprintf("as-coded model predicts %s/%d rows, implementation showed %s/%d rows", po, c.Pred.Sent, obs.Outcome, obs.Rows)
	}
	return obs
}
