package server

// Conformance harness for spec/StmtLifecycle.tla (property C16), direction G.
//
// A case is one behaviour enumerated by TLC: the commands of one client session with the
// outcome the specification requires for each (error class; for a successful execute the
// value tags it must use).  The harness turns every abstract command into the real binary
// COM_STMT_* payload and sends it through SessionExecutor.ExecuteCommand of a real session;
// what an execution "used" is read off the statement text that reaches the fake backend.
//
// Instantiation of tags (seeded per case, field iseed): the inline value tag <<n,q>> is a
// VAR_STRING "vNpQ", a LONGLONG, a TINY or a BLOB; chunk tag n is the bytes "cN" (sometimes
// empty); NULL is the null bit.  Only benign bytes are used here (rendering of hostile values
// is property C15).

import (
	"encoding/binary"
	"encoding/json"
	"fmt"
	"math/rand"
	"sort"
	"strings"
	"testing"

	"github.com/XiaoMi/Gaea/internal/verifkit"
	"github.com/XiaoMi/Gaea/mysql"
)

type c16Used struct {
	K      string `json:"k"`
	Tag    []int  `json:"tag,omitempty"`
	Chunks []int  `json:"chunks,omitempty"`
}

type c16Cmd struct {
	C     string          `json:"c"`
	H     int             `json:"h"`
	P     int             `json:"p,omitempty"`
	Tag   int             `json:"tag,omitempty"`
	Pk    []string        `json:"pk,omitempty"`
	Mal   int             `json:"mal,omitempty"`
	Ty    string          `json:"ty,omitempty"`    // "sent": types in the packet, "reused": new-params-bound = 0
	Fault bool            `json:"fault,omitempty"` // the statement fails at the backend
	Hdr   string          `json:"hdr,omitempty"`   // "special": header fields a server may refuse (cursor flags, iteration count)
	Res   string          `json:"res"`
	Used  json.RawMessage `json:"used,omitempty"`
}

type c16Case struct {
	NP    int      `json:"np"`
	Cmds  []c16Cmd `json:"cmds"`
	ISeed int64    `json:"iseed"`
}

type c16Step struct {
	I    int      `json:"i"`
	Cmd  string   `json:"cmd"`
	Exp  string   `json:"exp"`
	Got  string   `json:"got"`
	Err  string   `json:"err,omitempty"`
	SQL  []string `json:"sql,omitempty"`
	Want string   `json:"want,omitempty"`
}

type c16Inst struct {
	rng    *rand.Rand
	kinds  map[[2]int]int // value tag -> wire kind
	chunks map[int][]byte
}

func (in *c16Inst) kind(n, q int) int {
	k, ok := in.kinds[[2]int{n, q}]
	if !ok {
		k = in.rng.Intn(4)
		in.kinds[[2]int{n, q}] = k
	}
	return k
}

func (in *c16Inst) chunk(n int) []byte {
	b, ok := in.chunks[n]
	if !ok {
		if in.rng.Intn(8) == 0 {
			b = []byte{}
		} else {
			b = []byte(fmt.Sprintf("c%d", n))
		}
		in.chunks[n] = b
	}
	return b
}

// kindOfType: the instantiation kind that is encoded with wire type tp
func kindOfType(tp byte) int {
	switch tp {
	case mysql.TypeLonglong:
		return 1
	case mysql.TypeTiny:
		return 2
	case mysql.TypeBlob:
		return 3
	}
	return 0
}

// wire encoding and SQL literal of the inline value <<n,q>>
func (in *c16Inst) inline(n, q int) (tp byte, enc []byte, lit string) {
	switch in.kind(n, q) {
	case 0:
		s := fmt.Sprintf("v%dp%d", n, q)
		return mysql.TypeVarString, append([]byte{byte(len(s))}, s...), "'" + s + "'"
	case 1:
		v := uint64(7000 + n*10 + q)
		enc = make([]byte, 8)
		binary.LittleEndian.PutUint64(enc, v)
		return mysql.TypeLonglong, enc, fmt.Sprint(v)
	case 2:
		v := (n*7 + q) % 120
		return mysql.TypeTiny, []byte{byte(v)}, fmt.Sprint(v)
	default:
		s := fmt.Sprintf("b%dq%d", n, q)
		return mysql.TypeBlob, append([]byte{byte(len(s))}, s...), "'" + s + "'"
	}
}

func c16Template(h, np int) (sql string, parts []string) {
	// parts: the text between the placeholders (len np+1)
	parts = append(parts, fmt.Sprintf("select c%d from t%d where k1 = ", h, h))
	for p := 2; p <= np; p++ {
		parts = append(parts, fmt.Sprintf(" and k%d = ", p))
	}
	parts = append(parts, " limit 1")
	return strings.Join(parts, "?"), parts
}

// split the observed statement along the template; ok=false when the structure is not the template's
func c16Extract(obs string, parts []string) (vals []string, ok bool) {
	rest := obs
	if !strings.HasPrefix(rest, parts[0]) {
		return nil, false
	}
	rest = rest[len(parts[0]):]
	for i := 1; i < len(parts); i++ {
		var j int
		if i == len(parts)-1 {
			j = strings.LastIndex(rest, parts[i])
			if j < 0 || j+len(parts[i]) != len(rest) {
				return nil, false
			}
		} else {
			j = strings.Index(rest, parts[i])
			if j < 0 {
				return nil, false
			}
		}
		vals = append(vals, rest[:j])
		rest = rest[j+len(parts[i]):]
	}
	return vals, true
}

func TestVerifStmtLifecycle(t *testing.T) {
	fix, err := stmtGetFixture()
	if err != nil {
		t.Fatal(err)
	}
	defer fix.cleanup()
	out, err := verifkit.OpenOut()
	if err != nil {
		t.Fatal(err)
	}
	stats := map[string]int{}
	n, err := verifkit.EachCase(func(ci int, raw json.RawMessage) error {
		var c c16Case
		if err := json.Unmarshal(raw, &c); err != nil {
			return err
		}
		res := verifkit.Result{Case: ci}
		var steps []c16Step
		in := &c16Inst{rng: rand.New(rand.NewSource(c.ISeed)), kinds: map[[2]int]int{}, chunks: map[int][]byte{}}
		se := fix.newSession(false)
		realID := map[int]uint32{}    // handle ordinal -> id given by the proxy
		lastClear := map[int]string{} // handle -> kind of the last command that (per the specification) cleared it
		lastTypes := map[int][]byte{} // handle -> type array of the last processed execute that carried types
		origin := map[string]string{} // literal -> "h<handle>:inline" / "h<handle>:long" (everything sent so far)
		idOf := func(h int) uint32 {
			if id, ok := realID[h]; ok {
				return id
			}
			return 0x7fff0000 + uint32(h)
		}
		stop := false
		for i, cmd := range c.Cmds {
			if stop {
				stats["cmds_unexamined_after_deviation"]++
				continue
			}
			n := i + 1
			st := c16Step{I: n, Cmd: cmd.C, Exp: cmd.Res}
			shape := lastClear[cmd.H]
			if shape == "" {
				shape = "never-prepared"
			}
			switch cmd.C {
			case "prepare":
				sql, _ := c16Template(cmd.H, c.NP)
				r := fix.send(se, mysql.ComStmtPrepare, []byte(sql))
				st.Got, st.Err = respClass(r)
				if r.RespType != RespPrepare {
					res.Dev("C16 prepare refused", "command %d: prepare of %q failed: %s", n, sql, st.Err)
					stop = true
				} else {
					s := r.Data.(*Stmt)
					realID[cmd.H] = s.id
					if s.paramCount != c.NP {
						res.Dev("C16 prepare wrong parameter count", "command %d: %q reports %d parameters", n, sql, s.paramCount)
						stop = true
					}
				}
				lastClear[cmd.H] = "prepare"
			case "long":
				data := make([]byte, 6)
				binary.LittleEndian.PutUint32(data[0:4], idOf(cmd.H))
				binary.LittleEndian.PutUint16(data[4:6], uint16(cmd.P-1))
				ch := in.chunk(cmd.Tag)
				data = append(data, ch...)
				r := fix.send(se, mysql.ComStmtSendLongData, data)
				st.Got, st.Err = respClass(r)
				refused := r.RespType == RespError
				if cmd.Res == "ok" && refused {
					res.Dev(fmt.Sprintf("C16 long-data after %s: refused", shape), "command %d: long data for open statement %d refused: %s", n, cmd.H, st.Err)
					stop = true
				}
				if cmd.Res == "unknown" && !refused {
					res.Dev("C16 long-data on unknown handle: accepted", "command %d: long data for handle %d (not open) accepted", n, cmd.H)
					stop = true
				}
				if cmd.Res == "ok" {
					origin[fmt.Sprintf("c:%d", cmd.Tag)] = fmt.Sprintf("h%d", cmd.H)
				}
			case "reset":
				data := make([]byte, 4)
				binary.LittleEndian.PutUint32(data, idOf(cmd.H))
				r := fix.send(se, mysql.ComStmtReset, data)
				st.Got, st.Err = respClass(r)
				refused := r.RespType == RespError
				if cmd.Res == "ok" && refused {
					res.Dev(fmt.Sprintf("C16 reset after %s: refused", shape), "command %d: reset of open statement refused: %s", n, st.Err)
					stop = true
				}
				if cmd.Res == "unknown" && !refused {
					res.Dev("C16 reset on unknown handle: accepted", "command %d: reset of handle %d (not open) accepted", n, cmd.H)
				}
				if cmd.Res == "ok" {
					lastClear[cmd.H] = "reset"
				}
			case "close":
				data := make([]byte, 4)
				binary.LittleEndian.PutUint32(data, idOf(cmd.H))
				r := fix.send(se, mysql.ComStmtClose, data)
				st.Got, st.Err = respClass(r)
				lastClear[cmd.H] = "closed"
			case "exec":
				_, parts := c16Template(cmd.H, c.NP)
				// ---- build the packet
				data := make([]byte, 9)
				binary.LittleEndian.PutUint32(data[0:4], idOf(cmd.H))
				data[4] = 0
				binary.LittleEndian.PutUint32(data[5:9], 1)
				if cmd.Hdr == "special" {
					// a well-formed packet asking for something the server may not support
					switch in.rng.Intn(6) {
					case 0, 1, 2:
						data[4] = 1 // CURSOR_TYPE_READ_ONLY
					case 3:
						data[4] = 5 // CURSOR_TYPE_READ_ONLY | CURSOR_TYPE_SCROLLABLE
					case 4:
						data[4] = 2 // CURSOR_TYPE_FOR_UPDATE
					default:
						binary.LittleEndian.PutUint32(data[5:9], 2) // iteration count 2
					}
				}
				nullmap := make([]byte, (c.NP+7)/8)
				types := make([]byte, 0, 2*c.NP)
				var values []byte
				sent := map[int]string{} // parameter -> literal of the inline value of THIS packet
				for p := 1; p <= c.NP; p++ {
					switch cmd.Pk[p-1] {
					case "null":
						nullmap[(p-1)>>3] |= 1 << uint((p-1)%8)
						types = append(types, mysql.TypeVarString, 0)
					case "long":
						types = append(types, mysql.TypeBlob, 0)
					default:
						if cmd.Ty == "reused" {
							// no types in this packet: the value must be encoded with the type sent last time
							in.kinds[[2]int{n, p}] = kindOfType(lastTypes[cmd.H][2*(p-1)])
						}
						tp, enc, lit := in.inline(n, p)
						flag := byte(0)
						if tp == mysql.TypeLonglong || tp == mysql.TypeTiny {
							flag = 0x80 // unsigned
						}
						types = append(types, tp, flag)
						if cmd.Mal == p {
							// truncated inside this value: everything but its last byte (a one byte value: nothing)
							values = append(values, enc[:len(enc)-1]...)
						} else if cmd.Mal == 0 || p < cmd.Mal {
							values = append(values, enc...)
							sent[p] = lit
						}
						if cmd.Mal == 0 || p <= cmd.Mal {
							origin["v:"+lit] = fmt.Sprintf("h%d", cmd.H)
						}
					}
				}
				data = append(data, nullmap...)
				switch {
				case cmd.Ty == "reused":
					data = append(data, 0) // new-params-bound = 0: the types of the previous execution apply
					data = append(data, values...)
				case cmd.Mal == c.NP+1:
					data = append(data, 1)
					data = append(data, types[:1]...) // truncated inside the type array
				default:
					data = append(data, 1)
					data = append(data, types...)
					data = append(data, values...)
				}
				// ---- expected statement
				want := ""
				if cmd.Res == "ok" || cmd.Res == "backend-error" || cmd.Res == "may-refuse" {
					var used []c16Used
					if err := json.Unmarshal(cmd.Used, &used); err != nil {
						return fmt.Errorf("case %d command %d: used: %v", ci, n, err)
					}
					var b strings.Builder
					for p := 1; p <= c.NP; p++ {
						b.WriteString(parts[p-1])
						u := used[p-1]
						switch u.K {
						case "null":
							b.WriteString("NULL")
						case "val":
							_, _, lit := in.inline(u.Tag[0], u.Tag[1])
							b.WriteString(lit)
						case "long":
							b.WriteString("'")
							for _, ct := range u.Chunks {
								b.Write(in.chunk(ct))
							}
							b.WriteString("'")
						}
					}
					b.WriteString(parts[c.NP])
					want = b.String()
				}
				st.Want = want
				fix.be.take()
				fix.be.failNext = cmd.Fault
				r := fix.send(se, mysql.ComStmtExecute, data)
				fix.be.failNext = false
				st.Got, st.Err = respClass(r)
				st.SQL = fix.be.take()
				failed := r.RespType == RespError
				pending := ""
				for p := 1; p <= c.NP; p++ {
					if cmd.Pk[p-1] == "long" {
						pending = "+long-data"
					}
				}
				where := fmt.Sprintf("C16 exec after %s%s", shape, pending)
				switch cmd.Res {
				case "unknown":
					if !failed || len(st.SQL) > 0 {
						res.Dev("C16 exec on unknown handle: executed", "command %d: execute of handle %d (not open) ran %q", n, cmd.H, st.SQL)
					}
				case "malformed":
					kind := "value"
					if cmd.Mal == c.NP+1 {
						kind = "types"
					}
					if !failed || len(st.SQL) > 0 {
						res.Dev(fmt.Sprintf("%s: truncated packet (%s) executed", where, kind), "command %d: packet truncated at %d was executed: %q", n, cmd.Mal, st.SQL)
					}
					lastClear[cmd.H] = "exec-malformed(" + kind + ")"
				case "may-refuse":
					// the server may refuse the header (then nothing reaches the backend) or execute the statement
					// (then with exactly the specified values); either way the statement is cleared afterwards
					switch {
					case failed && len(st.SQL) > 0:
						res.Dev(where+": refused execute reached the backend", "command %d: reply %s but the backend received %q", n, st.Err, st.SQL)
					case !failed && (len(st.SQL) != 1 || st.SQL[0] != want):
						res.Dev(where+": wrong values (execute with cursor flags / iteration count)", "command %d: executed %q, the specification requires %q", n, st.SQL, want)
					}
					if failed {
						lastClear[cmd.H] = "exec-refused-header"
					} else {
						lastClear[cmd.H] = "exec-ok"
					}
				case "ok", "backend-error":
					if cmd.Ty != "reused" {
						lastTypes[cmd.H] = types
					}
					switch {
					case cmd.Res == "backend-error" && !failed:
						res.Dev(where+": backend failure not reported", "command %d: the backend failed %q, reply %s", n, st.SQL, st.Got)
					case failed && cmd.Res == "backend-error" && len(st.SQL) == 0:
						res.Dev(where+": well-formed packet refused", "command %d: %s; expected to run %q", n, st.Err, want)
						stop = true
					case failed && cmd.Res == "ok":
						res.Dev(where+": well-formed packet refused", "command %d: %s; expected to run %q", n, st.Err, want)
						stop = true // the implementation did not reach its own reset: its statement state is unknown
					case len(st.SQL) != 1:
						res.Dev(where+": statement count", "command %d: backend received %q, expected exactly %q", n, st.SQL, want)
					case st.SQL[0] != want:
						obs := st.SQL[0]
						vals, ok := c16Extract(obs, parts)
						cls := map[string]bool{}
						if !ok {
							cls["statement-structure-changed"] = true
						} else {
							wv, _ := c16Extract(want, parts)
							for p := range vals {
								if vals[p] == wv[p] {
									continue
								}
								cls[c16Origin(vals[p], cmd.H, p+1, sent, origin, in)] = true
							}
						}
						var ks []string
						for k := range cls {
							ks = append(ks, k)
						}
						sort.Strings(ks)
						res.Dev(fmt.Sprintf("%s: wrong values (%s)", where, strings.Join(ks, "+")),
							"command %d: executed %q, the specification requires %q", n, obs, want)
					}
					if cmd.Res == "ok" {
						lastClear[cmd.H] = "exec-ok"
					} else {
						lastClear[cmd.H] = "exec-backend-error"
					}
				}
			}
			if fix.panicked != "" {
				res.Dev(fmt.Sprintf("C16 %s after %s: the session panicked", cmd.C, shape), "command %d: %s", n, fix.panicked)
				fix.panicked = ""
				stop = true
			}
			steps = append(steps, st)
		}
		if len(res.Devs) > 0 {
			res.Obs = map[string]interface{}{"steps": steps}
			out.Write(res)
			stats["behaviours_deviating"]++
		}
		stats["commands"] += len(c.Cmds)
		return nil
	})
	if err != nil {
		t.Fatal(err)
	}
	extra := map[string]interface{}{}
	for k, v := range stats {
		extra[k] = v
	}
	out.Close(n, extra)
	fmt.Println("verif stmt lifecycle behaviours:", n)
}

// where does a wrong value come from?
func c16Origin(got string, h, p int, sent map[int]string, origin map[string]string, in *c16Inst) string {
	for q, lit := range sent {
		if q != p && lit == got {
			return "value of another parameter of the same packet"
		}
	}
	if o, ok := origin["v:"+got]; ok {
		if o == fmt.Sprintf("h%d", h) {
			return "inline value of an earlier packet of this statement"
		}
		return "inline value sent for another statement"
	}
	if strings.HasPrefix(got, "'") && strings.HasSuffix(got, "'") && len(got) >= 2 {
		body := got[1 : len(got)-1]
		// a concatenation of chunks (possibly after a stale inline string)?
		own, other, inlinePrefix := false, false, false
		for k, o := range origin {
			if strings.HasPrefix(k, "v:'") {
				s := k[3 : len(k)-1]
				if strings.HasPrefix(body, s) && len(body) > len(s) {
					inlinePrefix = true
				}
			}
			if strings.HasPrefix(k, "c:") {
				var n int
				fmt.Sscanf(k, "c:%d", &n)
				if ch := string(in.chunk(n)); ch != "" && strings.Contains(body, ch) {
					if o == fmt.Sprintf("h%d", h) {
						own = true
					} else {
						other = true
					}
				}
			}
		}
		switch {
		case other:
			return "long data sent for another statement"
		case inlinePrefix && own:
			return "long data appended to a stale inline value"
		case own:
			return "stale or wrong long data of this statement"
		}
	}
	if got == "NULL" {
		return "NULL instead of the supplied value"
	}
	return "unexplained value"
}
