package server

// Conformance harness for spec/SessionVars.tla (property C20).
//
// Direction G: every TLC-generated behaviour (client SET statements, statement starts/ends, BEGIN/
// COMMIT, which SET the backend refuses) is replayed through the real session path:
//   SessionExecutor.ExecuteCommand(COM_QUERY) -> handleSet* / doQuery -> real backend.Slice ->
//   real connection pool (capacity = the case's pool size) -> real backend.DirectConnection ->
//   loopback TCP -> the fake MySQL endpoint of c20_fakemysql_test.go.
// At every statement start the settings the fake session carried when the query arrived are compared
// with the specification's expectation `want` (property level: the client's requested settings) and
// with `model` (what the specification of the code as written predicts).
// Direction V: the client requests and everything the fake saw (sessions opened, SETs applied or
// refused, tagged queries with the settings they ran with) are written as a trace for
// SessionVars_trace.tla.

import (
	"encoding/json"
	"fmt"
	"os"
	"sort"
	"strings"
	"testing"
	"time"

	"github.com/XiaoMi/Gaea/backend"
	"github.com/XiaoMi/Gaea/internal/verifkit"
	"github.com/XiaoMi/Gaea/models"
	"github.com/XiaoMi/Gaea/mysql"
	"github.com/XiaoMi/Gaea/util"
	"gopkg.in/ini.v1"
)

type c20Setting struct {
	Cs   string            `json:"cs"`
	Vars map[string]string `json:"vars"`
}

type c20Event struct {
	Ev      string      `json:"ev"`
	C       string      `json:"c"`
	Name    string      `json:"name,omitempty"`
	Val     string      `json:"val,omitempty"`
	Form    string      `json:"form,omitempty"` // setnames: "plain" = SET NAMES x, "collate" = SET NAMES x COLLATE y
	Fail    string      `json:"fail,omitempty"`
	Txfail  string      `json:"txfail,omitempty"`
	Conn    string      `json:"conn,omitempty"`
	Nset    int         `json:"nset"`
	Rejnth  int         `json:"rejnth"`
	Tainted bool        `json:"tainted"`
	Outcome string      `json:"outcome,omitempty"`
	Want    *c20Setting `json:"want,omitempty"`
	Model   *c20Setting `json:"model,omitempty"`
	After   *c20Setting `json:"after,omitempty"`
}

type c20Case struct {
	Nconns int        `json:"nconns"`
	Names  []string   `json:"names"` // every tracked variable name of the configuration
	Events []c20Event `json:"events"`
}

// ---- abstract <-> concrete values ---------------------------------------------------------

var c20CsTable = map[string][2]string{
	"d": {"utf8mb4", "utf8mb4_general_ci"},
	"a": {"utf8mb4", "utf8mb4_bin"},
	"b": {"gbk", "gbk_chinese_ci"},
	"c": {"gbk", "gbk_bin"},
}

var c20ValTable = map[string]map[string]string{
	"time_zone":            {"a": "+08:00", "b": "-05:00"},
	"sql_select_limit":     {"a": "10", "b": "20"},
	"group_concat_max_len": {"a": "2048", "b": "4096"},
	"lock_wait_timeout":    {"a": "11", "b": "22"},
	"sql_safe_updates":     {"a": "1", "b": "0"},
	"sql_mode":             {"a": "STRICT_TRANS_TABLES", "b": "ANSI_QUOTES,NO_ZERO_DATE"},
	"@u":                   {"a": "ua", "b": "ub"},
	"@w":                   {"a": "wa", "b": "wb"},
}

var c20Numeric = map[string]bool{"sql_select_limit": true, "group_concat_max_len": true, "lock_wait_timeout": true, "sql_safe_updates": true}

func c20AbsCs(charset, collation string) string {
	for k, v := range c20CsTable {
		if v[0] == charset && v[1] == collation {
			return k
		}
	}
	return "?" + charset + "/" + collation
}

func c20AbsVal(name, raw string) string {
	for k, v := range c20ValTable[name] {
		if v == raw {
			return k
		}
	}
	return "?" + raw
}

func c20Unq(s string) string {
	if len(s) >= 2 && s[0] == '\'' && s[len(s)-1] == '\'' {
		return s[1 : len(s)-1]
	}
	return s
}

func c20SetSQL(e *c20Event) (string, error) {
	if e.Ev == "setnames" {
		cs, ok := c20CsTable[e.Val]
		if !ok {
			return "", fmt.Errorf("unknown cs value %q", e.Val)
		}
		switch e.Form {
		case "plain":
			if cs[1] != c20DefaultCollation(cs[0]) {
				return "", fmt.Errorf("plain SET NAMES cannot request %s/%s", cs[0], cs[1])
			}
			return "set names " + cs[0], nil
		case "collate":
			return "set names " + cs[0] + " collate " + cs[1], nil
		}
		// cases recorded before the form was part of the event
		if cs[1] == c20DefaultCollation(cs[0]) && e.Val != "d" {
			return "set names " + cs[0], nil
		}
		return "set names " + cs[0] + " collate " + cs[1], nil
	}
	switch e.Val {
	case "d":
		return "set " + e.Name + " = default", nil
	case "null":
		return "set " + e.Name + " = NULL", nil
	}
	raw, ok := c20ValTable[e.Name][e.Val]
	if !ok {
		return "", fmt.Errorf("no concrete value for %s=%s", e.Name, e.Val)
	}
	if c20Numeric[e.Name] {
		return "set " + e.Name + " = " + raw, nil
	}
	return "set " + e.Name + " = '" + raw + "'", nil
}

func c20AbsSnapshot(s c20Snapshot, names []string) c20Setting {
	out := c20Setting{Cs: c20AbsCs(s.Charset, s.Collation), Vars: map[string]string{}}
	for _, n := range names {
		if raw, ok := s.Vars[n]; ok {
			out.Vars[n] = c20AbsVal(n, raw)
		} else {
			out.Vars[n] = "d"
		}
	}
	for n, raw := range s.Vars {
		if _, ok := out.Vars[n]; !ok {
			out.Vars[n] = "?" + raw
		}
	}
	return out
}

// c20Tracked projects the session's own bookkeeping (charset, collation, sessionVariables).
func c20Tracked(se *SessionExecutor, names []string) c20Setting {
	coll := mysql.Collations[se.GetCollationID()]
	out := c20Setting{Cs: c20AbsCs(se.GetCharset(), coll), Vars: map[string]string{}}
	for _, n := range names {
		out.Vars[n] = "d"
	}
	for n, v := range se.GetVariables().GetAll() {
		raw := c20Unq(fmt.Sprintf("%v", v.Get()))
		if strings.HasPrefix(n, "@") && strings.EqualFold(raw, "null") {
			out.Vars[n] = "null"
			continue
		}
		if _, ok := c20ValTable[n]; ok {
			out.Vars[n] = c20AbsVal(n, raw)
		} else {
			out.Vars[n] = "?" + raw
		}
	}
	return out
}

func c20Kind(name string) string {
	switch {
	case name == "cs":
		return "charset/collation"
	case strings.HasPrefix(name, "@"):
		return "user-variable"
	default:
		if _, ok := mysqlVerifyKnown[name]; ok {
			return "session-variable"
		}
		return "extra-session-variable"
	}
}

// names with a verify function in mysql/variables.go (SessionVariables.Reset keeps them)
var mysqlVerifyKnown = map[string]bool{"sql_mode": true, "sql_safe_updates": true, "time_zone": true, "sql_select_limit": true,
	"tx_read_only": true, "transaction_read_only": true, "character_set_connection": true, "character_set_results": true,
	"character_set_client": true, "group_concat_max_len": true, "max_execution_time": true, "unique_checks": true,
	"transaction_isolation": true}

func c20Diff(got, want c20Setting) []string {
	var out []string
	if got.Cs != want.Cs {
		out = append(out, "cs")
	}
	seen := map[string]bool{}
	for n, w := range want.Vars {
		seen[n] = true
		if got.Vars[n] != w && !(got.Vars[n] == "" && w == "d") {
			out = append(out, n)
		}
	}
	for n, g := range got.Vars {
		if !seen[n] && g != "d" {
			out = append(out, n)
		}
	}
	sort.Strings(out)
	return out
}

func (s c20Setting) get(n string) string {
	if n == "cs" {
		return s.Cs
	}
	if v, ok := s.Vars[n]; ok {
		return v
	}
	return "d"
}

func (s c20Setting) String() string {
	b, _ := json.Marshal(s)
	return string(b)
}

// ---- fixture ---------------------------------------------------------------------------

type c20World struct {
	fake    *c20Fake
	manager *Manager
	nsName  string
}

func c20NewWorld(logdir string) (*c20World, error) {
	fake, err := c20StartFake()
	if err != nil {
		return nil, err
	}
	proxyCfg := fmt.Sprintf(`
config_type=file
file_config_path=./etc/file
cluster_name=c20
log_path=%s
log_level=Notice
log_filename=c20
log_output=file
proto_type=tcp4
proxy_addr=127.0.0.1:0
admin_addr=127.0.0.1:0
admin_user=admin
admin_password=admin
slow_sql_time=100000
session_timeout=3600
stats_enabled=false
encrypt_key=1234abcd5678efg*
server_idc=c3
`, logdir)
	var proxy = &models.Proxy{}
	cfg, err := ini.Load([]byte(proxyCfg))
	if err != nil {
		return nil, err
	}
	if err = cfg.MapTo(proxy); err != nil {
		return nil, err
	}
	nsCfg := fmt.Sprintf(`{
  "name": "c20_ns", "online": true, "read_only": false,
  "allowed_dbs": {"db_c20": true},
  "default_phy_dbs": {"db_c20": "db_c20"},
  "default_charset": "utf8mb4", "default_collation": "utf8mb4_general_ci",
  "slices": [{"name": "slice-0", "user_name": "root", "password": "root", "master": "%s",
              "capacity": 1, "max_capacity": 1, "idle_timeout": 3600}],
  "shard_rules": [],
  "users": [{"user_name": "c20_user", "password": "x", "namespace": "c20_ns", "rw_flag": 2, "rw_split": 0}],
  "default_slice": "slice-0", "max_sql_execute_time": 0
}`, fake.Addr())
	nc := &models.Namespace{}
	if err := json.Unmarshal([]byte(nsCfg), nc); err != nil {
		return nil, err
	}
	m := NewManager()
	sm, err := CreateStatisticManager(proxy, m)
	if err != nil {
		return nil, fmt.Errorf("statistic manager: %v", err)
	}
	m.statistics = sm
	sm.SQLResponsePercentile[nc.Name] = NewSQLResponse(nc.Name)
	ns, err := NewNamespace(nc, "c3")
	if err != nil {
		return nil, fmt.Errorf("namespace: %v", err)
	}
	// no Init(): no health-check goroutines; the only backend traffic is the sessions'
	nsMgr := NewNamespaceManager()
	nsMgr.namespaces[ns.name] = ns
	current, _, _ := m.switchIndex.Get()
	m.namespaces[current] = nsMgr
	um, err := CreateUserManager(map[string]*models.Namespace{nc.Name: nc})
	if err != nil {
		return nil, err
	}
	m.users[current] = um
	return &c20World{fake: fake, manager: m, nsName: nc.Name}, nil
}

// newPool replaces the master pool of slice-0 by a fresh real connection pool of the given capacity.
func (w *c20World) newPool(capacity int) error {
	ns := w.manager.GetNamespace(w.nsName)
	sl := ns.GetSlice("slice-0")
	if sl.Master != nil {
		for _, n := range sl.Master.Nodes {
			if n.ConnPool != nil {
				n.ConnPool.Close()
			}
		}
	}
	cp := backend.NewConnectionPool(w.fake.Addr(), "root", "root", "", capacity, capacity, time.Hour,
		ns.GetDefaultCharset(), ns.GetDefaultCollationID(), 0, "", "c3", 0)
	if err := cp.Open(); err != nil {
		return err
	}
	sl.Master = &backend.DBInfo{Nodes: []*backend.NodeInfo{{Address: w.fake.Addr(), Datacenter: "c3", Weight: 1, ConnPool: cp, Status: backend.StatusUp}}}
	return nil
}

func (w *c20World) newSession() *SessionExecutor {
	se := newSessionExecutor(w.manager)
	se.namespace = w.nsName
	se.user = "c20_user"
	se.db = "db_c20"
	cc := new(Session)
	cc.proxy = &Server{manager: w.manager, ServerVersion: "5.7.25-gaea", ServerVersionCompareStatus: util.NewVersionCompareStatus("5.7.25")}
	cc.c = &ClientConn{Conn: &mysql.Conn{}}
	cc.manager = w.manager
	cc.executor = se
	se.session = cc
	se.SetContextNamespace()
	se.SetNamespaceDefaultCharset()
	se.SetNamespaceDefaultCollationID()
	return se
}

// ---- replay ----------------------------------------------------------------------------

type c20Run struct {
	w       *c20World
	c       *c20Case
	id      int
	res     *verifkit.Result
	ses     map[string]*SessionExecutor
	connOf  map[int]string // fake session serial -> name in order of first use ("k1", ...)
	nconn   int
	slot    map[string]string // specification connection -> implementation connection name
	pending map[string]chan Response
	serial  map[string]int // client -> fake session its running statement waits on
	freshCs map[int]string
	trace   []map[string]interface{}
	drift   string // hard drift: the rest of the behaviour cannot be judged
	soft    string // soft drift: judged at property level only from here on
	ponly   bool
	refused map[int]bool // fake sessions that refused a SET
	stats   *c20Stats
	tooMany bool
}

type c20Stats struct {
	starts, ran, rejected, compared, drift, knownLike, traceSkipped, unexamined int
	driftKinds                                                                  map[string]int
}

func (r *c20Run) tr(m map[string]interface{}) {
	m["t"] = r.id
	r.trace = append(r.trace, m)
}

func (r *c20Run) connName(serial int) string {
	if n, ok := r.connOf[serial]; ok {
		return n
	}
	r.nconn++
	n := fmt.Sprintf("k%d", r.nconn)
	r.connOf[serial] = n
	if r.nconn > 4 {
		r.tooMany = true
	}
	return n
}

func (r *c20Run) settingJSON(s c20Setting) map[string]interface{} {
	v := map[string]interface{}{}
	for _, n := range r.c.Names {
		v[n] = "d"
	}
	for n, x := range s.Vars {
		v[n] = x
	}
	return map[string]interface{}{"cs": s.Cs, "vars": v}
}

// drainBackend turns what the fake saw since the last call into trace lines.
func (r *c20Run) drainBackend(client string) {
	for _, e := range r.w.fake.takeEvents() {
		switch e.Kind {
		case "fresh":
			// named lazily: a session that never serves this case's clients stays out of the trace
			r.freshCs[e.Serial] = c20AbsCs(e.Snap.Charset, e.Snap.Collation)
			continue
		}
		if _, ok := r.connOf[e.Serial]; !ok {
			k := r.connName(e.Serial)
			cs, ok := r.freshCs[e.Serial]
			if !ok {
				cs = "?unknown-session"
			}
			r.tr(map[string]interface{}{"ev": "fresh", "k": k, "cs": cs})
		}
		k := r.connName(e.Serial)
		switch e.Kind {
		case "apply":
			as := []map[string]string{}
			for _, a := range e.Assigns {
				v := "d"
				if !a.Def {
					v = c20AbsVal(a.Name, a.Val)
				}
				as = append(as, map[string]string{"n": a.Name, "v": v})
			}
			cs := ""
			if e.HasCs {
				cs = c20AbsCs(e.Snap.Charset, e.Snap.Collation)
			}
			r.tr(map[string]interface{}{"ev": "apply", "k": k, "cs": cs, "assigns": as})
		case "reject":
			r.refused[e.Serial] = true
			r.tr(map[string]interface{}{"ev": "reject", "k": k})
		case "exec":
			r.tr(map[string]interface{}{"ev": "exec", "c": client, "k": k, "ran": r.settingJSON(c20AbsSnapshot(e.Snap, r.c.Names))})
		case "other":
			r.tr(map[string]interface{}{"ev": "noop", "what": "backend:" + e.SQL})
		}
	}
}

func (r *c20Run) driftf(kind, format string, a ...interface{}) {
	if r.drift == "" {
		r.drift = kind + ": " + fmt.Sprintf(format, a...)
		r.stats.drift++
		if r.stats.driftKinds == nil {
			r.stats.driftKinds = map[string]int{}
		}
		r.stats.driftKinds[kind]++
	}
}

// softDrift: the as-written model is out of step with the code, but the property-level expectation (the client's
// requested settings) stays valid: the behaviour goes on, judged at property level only.
func (r *c20Run) softDrift(kind, format string, a ...interface{}) {
	if !r.ponly {
		r.ponly = true
		r.soft = kind + ": " + fmt.Sprintf(format, a...)
		r.stats.drift++
		if r.stats.driftKinds == nil {
			r.stats.driftKinds = map[string]int{}
		}
		r.stats.driftKinds[kind]++
	}
}

func c20RespErr(resp Response) error {
	if resp.RespType == RespError {
		if e, ok := resp.Data.(error); ok {
			return e
		}
		return fmt.Errorf("%v", resp.Data)
	}
	return nil
}

// clientCmd runs a proxy-only command (SET, BEGIN, COMMIT) to completion.
func (r *c20Run) clientCmd(client, sql string) error {
	se := r.ses[client]
	done := make(chan Response, 1)
	go func() { done <- se.ExecuteCommand(mysql.ComQuery, []byte(sql)) }()
	select {
	case resp := <-done:
		return c20RespErr(resp)
	case <-time.After(20 * time.Second):
		return fmt.Errorf("c20-hang")
	}
}

func (r *c20Run) start(i int, e *c20Event) bool {
	st := r.stats
	st.starts++
	se := r.ses[e.C]
	kind := e.Fail
	if e.Txfail != "" && e.Txfail != "none" {
		kind = e.Txfail
	}
	r.w.fake.beginStep(e.Rejnth, kind)
	tag := fmt.Sprintf("%d-%d-%s", r.id, i, e.C)
	sql := "select 1 from t_c20 where tag = 'c20:" + tag + "'"
	done := make(chan Response, 1)
	go func() { done <- se.ExecuteCommand(mysql.ComQuery, []byte(sql)) }()
	var arr *c20Arrival
	var failErr error
	select {
	case a := <-r.w.fake.arrived:
		if a.Tag != tag {
			r.res.Dev("C20 harness stray-query", "event %d: query with tag %q arrived while waiting for %q", i, a.Tag, tag)
			return false
		}
		arr = &a
		r.pending[e.C] = done
		r.serial[e.C] = a.Serial
	case resp := <-done:
		failErr = c20RespErr(resp)
		if failErr == nil {
			r.res.Dev("C20 harness statement-without-backend-query", "event %d: the statement completed but no query reached the backend", i)
			return false
		}
	case <-time.After(20 * time.Second):
		r.res.Dev("C20 harness hang", "event %d (%s of %s): neither a backend query nor a reply within 20s", i, e.Ev, e.C)
		return false
	}
	nset := r.w.fake.stepSets()
	r.w.fake.beginStep(0, "")
	r.drainBackend(e.C)

	if arr == nil {
		// the statement failed
		st.rejected++
		after := c20Tracked(se, r.c.Names)
		r.tr(map[string]interface{}{"ev": "failed", "c": e.C, "after": r.settingJSON(after)})
		if e.Ev == "txfirst" && e.Txfail != "" && e.Txfail != "none" {
			// getTransactionConn closes the connection: the pool slot reopens a new backend session
			delete(r.slot, e.Conn)
		}
		if e.Outcome != "rejected" {
			r.driftf("statement-failed-unexpectedly", "event %d: the specification runs the statement, the proxy answered: %v", i, failErr)
			return false
		}
		// the client's settings must survive a refused SET: everything Reset may not forget
		for _, n := range c20Diff(after, *e.After) {
			wantBefore := e.Want.get(n)
			forgettable := n != "cs" && (!mysqlVerifyKnown[n] || n == "sql_mode")
			if forgettable && (after.get(n) == wantBefore || after.get(n) == "d") {
				// user variables / names unknown to Reset / sql_mode: kept or forgotten are both within the property
				r.driftf("reset-rule-differs", "event %d: after the refused SET the session tracks %s=%s, the specification of Reset says %s", i, n, after.get(n), e.After.get(n))
				continue
			}
			r.res.Dev("C20 client setting changed by a refused SET: "+c20Kind(n),
				"event %d: after the backend refused the SET, session %s tracks %s=%s; it requested %s (specification: %s)", i, e.C, n, after.get(n), wantBefore, e.After.get(n))
			return false
		}
		return r.drift == ""
	}

	// the query reached a backend session
	st.ran++
	got := c20AbsSnapshot(arr.Snap, r.c.Names)
	k := r.connName(arr.Serial)
	realTainted := r.refused[arr.Serial]
	if e.Outcome != "ran" {
		r.driftf("statement-ran-unexpectedly", "event %d: the specification has the SET refused, the proxy sent no SET to refuse", i)
	}
	if !r.ponly && r.drift == "" {
		if prev, ok := r.slot[e.Conn]; ok && prev != k {
			r.softDrift("pool-order", "event %d: specification connection %s was %s, now %s", i, e.Conn, prev, k)
		} else if e.Tainted != realTainted {
			r.softDrift("pool-order", "event %d: specification connection %s refused a SET before: %v, implementation session %s: %v", i, e.Conn, e.Tainted, k, realTainted)
		}
		r.slot[e.Conn] = k
	}
	if r.ponly && realTainted {
		// the as-written model is out of step (drift) and this backend session refused a SET earlier: whether a
		// mismatch here is the known believed-ahead mechanism cannot be told; not judged
		st.unexamined++
		return r.drift == ""
	}
	st.compared++
	bad := c20Diff(got, *e.Want)
	unpredicted := false
	for _, n := range bad {
		g, wv := got.get(n), e.Want.get(n)
		how := "other-value"
		if wv == "d" {
			how = "not-reset-to-default"
		} else if g == "d" {
			how = "requested-value-not-applied"
		}
		predicted := !r.ponly && r.drift == "" && realTainted && e.Model != nil && e.Model.get(n) == g
		var sig string
		switch {
		case predicted:
			sig = "C20 believed-ahead-after-refused-SET: " + c20Kind(n) + " " + how
			st.knownLike++
		case realTainted:
			sig = "C20 " + c20Kind(n) + " " + how + " after a refused SET, not as the believed-ahead model predicts"
			unpredicted = true
		default:
			sig = "C20 " + c20Kind(n) + " " + how + " on a backend session without refused SET"
			unpredicted = true
		}
		r.res.Dev(sig, "event %d: statement of %s ran on %s with %s=%s, the client requested %s (ran with %s, requested %s)",
			i, e.C, k, n, g, wv, got, *e.Want)
	}
	if unpredicted {
		return false
	}
	if !r.ponly && r.drift == "" && e.Model != nil {
		if d := c20Diff(got, *e.Model); len(d) > 0 {
			// every name differing from the model carries the requested value here: the code did better than the
			// specification of the code as written (e.g. the defect was repaired)
			r.softDrift("better-than-model", "event %d: names %v carry the requested values, the as-written model predicts %s", i, d, *e.Model)
		}
	}
	if !r.ponly && r.drift == "" && nset != e.Nset {
		r.softDrift("set-count", "event %d: the backend received %d SET statements, the specification writes %d", i, nset, e.Nset)
	}
	return r.drift == ""
}

func (r *c20Run) end(i int, e *c20Event) bool {
	done, ok := r.pending[e.C]
	if !ok {
		r.res.Dev("C20 harness end-without-start", "event %d", i)
		return false
	}
	delete(r.pending, e.C)
	r.w.fake.releaseConn(r.serial[e.C])
	select {
	case resp := <-done:
		if err := c20RespErr(resp); err != nil {
			// not a matter of C20 (e.g. the pool refusing the connection's return): no verdict here
			r.driftf("statement-failed-at-end", "event %d: %v", i, err)
			return false
		}
	case <-time.After(20 * time.Second):
		r.res.Dev("C20 harness hang", "event %d: statement of %s did not complete after release", i, e.C)
		return false
	}
	r.drainBackend(e.C)
	r.tr(map[string]interface{}{"ev": "noop", "what": "end " + e.C})
	return true
}

func (r *c20Run) abort() {
	for c, done := range r.pending {
		r.w.fake.releaseConn(r.serial[c])
		select {
		case <-done:
		case <-time.After(5 * time.Second):
		}
	}
	r.pending = map[string]chan Response{}
	for _, se := range r.ses {
		se.ExecuteCommand(mysql.ComQuery, []byte("rollback"))
	}
	r.w.fake.takeEvents()
}

func (r *c20Run) run() {
	if err := r.w.newPool(r.c.Nconns); err != nil {
		r.res.Dev("C20 harness pool", "%v", err)
		return
	}
	r.w.fake.takeEvents()
	defer r.abort()
	for i := range r.c.Events {
		e := &r.c.Events[i]
		if _, ok := r.ses[e.C]; !ok {
			r.ses[e.C] = r.w.newSession()
		}
		ok := true
		switch e.Ev {
		case "setnames", "set":
			sql, err := c20SetSQL(e)
			if err != nil {
				r.res.Dev("C20 harness bad-case", "%v", err)
				return
			}
			err = r.clientCmd(e.C, sql)
			tl := map[string]interface{}{"ev": e.Ev, "c": e.C, "val": e.Val, "name": e.Name, "form": e.Form, "ok": err == nil}
			r.tr(tl)
			if err != nil {
				r.driftf("client-set-refused-by-proxy", "event %d: %q: %v", i, sql, err)
				return
			}
			r.drainBackend(e.C)
		case "begin", "commit":
			if err := r.clientCmd(e.C, e.Ev); err != nil {
				r.driftf(e.Ev+"-failed", "event %d: %v", i, err)
				return
			}
			r.drainBackend(e.C)
			r.tr(map[string]interface{}{"ev": "noop", "what": e.Ev + " " + e.C})
		case "start", "txfirst", "txstmt":
			ok = r.start(i, e)
		case "end":
			ok = r.end(i, e)
		default:
			r.res.Dev("C20 harness bad-case", "unknown event %q", e.Ev)
			return
		}
		if !ok || r.drift != "" {
			return
		}
		// a deviation the as-written model predicts leaves the model in step with the code: go on;
		// any other deviation ends this behaviour
		for _, d := range r.res.Devs {
			if !strings.HasPrefix(d.Sig, "C20 believed-ahead-after-refused-SET") {
				return
			}
		}
	}
}

func TestVerifC20Replay(t *testing.T) {
	out, err := verifkit.OpenOut()
	if err != nil {
		t.Fatal(err)
	}
	var trace *verifkit.Out
	if p := verifkit.TraceOutPath(); p != "" {
		if trace, err = verifkit.OpenOutPath(p); err != nil {
			t.Fatal(err)
		}
	}
	logdir := os.Getenv("VERIF_C20_LOGDIR")
	if logdir == "" {
		logdir = t.TempDir()
	}
	w, err := c20NewWorld(logdir)
	if err != nil {
		t.Fatal(err)
	}
	st := &c20Stats{}
	maxDev := verifkit.EnvInt("VERIF_MAX_DEVS", 1000000)
	ndev, nover := 0, 0
	n, err := verifkit.EachCase(func(i int, raw json.RawMessage) error {
		var c c20Case
		if err := json.Unmarshal(raw, &c); err != nil {
			return err
		}
		res := &verifkit.Result{Case: i}
		r := &c20Run{w: w, c: &c, id: i, res: res, ses: map[string]*SessionExecutor{}, connOf: map[int]string{}, slot: map[string]string{},
			pending: map[string]chan Response{}, serial: map[string]int{}, freshCs: map[int]string{}, refused: map[int]bool{}, stats: st}
		pan, msg, stack := verifkit.Catch(r.run)
		if pan {
			res.Dev("C20 harness panic", "%s\n%s", msg, stack)
		}
		if r.drift != "" {
			res.Tag("drift:" + r.drift)
		} else if r.soft != "" {
			res.Tag("drift:" + r.soft)
		}
		if trace != nil {
			if r.tooMany {
				st.traceSkipped++
			} else {
				for _, l := range r.trace {
					trace.Write(l)
				}
			}
		}
		if len(res.Devs) > 0 || r.drift != "" || r.soft != "" {
			if len(res.Devs) > 0 {
				ndev++
			}
			if ndev <= maxDev {
				out.Write(res)
			} else {
				nover++
			}
		}
		return nil
	})
	if err != nil {
		t.Fatal(err)
	}
	if trace != nil {
		trace.Close(n, nil)
	}
	out.Close(n, map[string]interface{}{"starts": st.starts, "ran": st.ran, "rejected": st.rejected, "compared": st.compared,
		"drift": st.drift, "drift_kinds": st.driftKinds, "known_like": st.knownLike, "trace_skipped": st.traceSkipped, "results_dropped": nover, "unexamined_after_drift": st.unexamined})
}
