package mysql

// Conformance harness for spec/Wire_rows.tla (property C13).
// Direction G: TLC emits rows: column types/flags, the canonical value of every column, the text-protocol
// row and the binary-protocol row the specification derives from it.  The harness
//   1. decodes TLC's binary row with an independent decoder (a transliteration of the specification's Decode)
//      and requires the canonical values (this checks the decoder against the specification on every case);
//   2. feeds the text row to the real RowData.ParseText and the values to the real BuildBinaryResultset
//      (the path of Result.BuildBinaryResultSet for COM_STMT_EXECUTE responses);
//   3. decodes the real binary row with the same decoder and compares the values column by column.
// An error returned by the real code is allowed by the property (counted); a different value, an undecodable
// row or a panic is a deviation.

import (
	"bytes"
	"encoding/json"
	"fmt"
	"strings"
	"testing"

	"github.com/XiaoMi/Gaea/internal/verifkit"
)

type rwField struct {
	T int  `json:"t"`
	U bool `json:"u"`
}

type rwVal struct {
	K string `json:"k"`
	B []int  `json:"b"`
	N []int  `json:"n"`
}

type rwCase struct {
	Fields []rwField `json:"fields"`
	// a single row ...
	Vals []rwVal `json:"vals"`
	Text []int   `json:"text"`
	Bin  []int   `json:"bin"`
	// ... or a result set of several rows over the same fields
	Set []rwRow `json:"set"`
}

func rwBytes(a []int) []byte {
	b := make([]byte, len(a))
	for i, x := range a {
		b[i] = byte(x)
	}
	return b
}

// decoded canonical value
type rwDec struct {
	k string
	b []byte
	n []int
	p int // offset of the column in the row (bad: where decoding stopped)
}

func (d rwDec) String() string {
	switch d.k {
	case "null", "bad":
		return d.k
	case "date", "dt", "time":
		return fmt.Sprintf("%s%v", d.k, d.n)
	case "int", "flt":
		return fmt.Sprintf("%s:%x", d.k, d.b)
	}
	if len(d.b) > 24 {
		return fmt.Sprintf("%s:%q...(%d bytes)", d.k, d.b[:24], len(d.b))
	}
	return fmt.Sprintf("%s:%q", d.k, d.b)
}

func rwEqual(a, b rwDec) bool {
	if a.k != b.k || !bytes.Equal(a.b, b.b) || len(a.n) != len(b.n) {
		return false
	}
	for i := range a.n {
		if a.n[i] != b.n[i] {
			return false
		}
	}
	return true
}

func decCanon(s []byte) []byte {
	t := string(s)
	if strings.Contains(t, ".") {
		t = strings.TrimRight(t, "0")
		t = strings.TrimSuffix(t, ".")
	}
	if t == "-0" {
		t = "0"
	}
	return []byte(t)
}

var rwIntWidth = map[int]int{1: 1, 2: 2, 13: 2, 9: 4, 3: 4, 8: 8}
var rwLenEnc = map[int]bool{15: true, 16: true, 245: true, 247: true, 248: true, 249: true, 250: true, 251: true, 252: true, 253: true, 254: true, 0: true, 255: true, 246: true}

// rwLenEncInt: independent length-encoded integer reader (protocol definition)
func rwLenEncInt(b []byte, p int) (n uint64, next int, isNull, ok bool) {
	if p >= len(b) {
		return 0, 0, false, false
	}
	need := func(k int) bool { return p+1+k <= len(b) }
	le := func(k int) uint64 {
		var v uint64
		for i := 0; i < k; i++ {
			v |= uint64(b[p+1+i]) << (8 * uint(i))
		}
		return v
	}
	switch c := b[p]; {
	case c < 251:
		return uint64(c), p + 1, false, true
	case c == 251:
		return 0, p + 1, true, true
	case c == 252:
		if !need(2) {
			return 0, 0, false, false
		}
		return le(2), p + 3, false, true
	case c == 253:
		if !need(3) {
			return 0, 0, false, false
		}
		return le(3), p + 4, false, true
	case c == 254:
		if !need(8) {
			return 0, 0, false, false
		}
		return le(8), p + 9, false, true
	}
	return 0, 0, false, false
}

// rwDecodeCol decodes one non-NULL column of type f at offset p: value and next offset; ok=false when the bytes do not
// form a value of that type (the specification's DecodeCol, transliterated)
func rwDecodeCol(f rwField, b []byte, p int) (rwDec, int, bool) {
	if w, ok := rwIntWidth[f.T]; ok {
		if p+w > len(b) {
			return rwDec{}, p, false
		}
		v := make([]byte, 8)
		copy(v, b[p:p+w])
		if !f.U && b[p+w-1] >= 128 {
			for i := w; i < 8; i++ {
				v[i] = 255
			}
		}
		return rwDec{k: "int", b: v}, p + w, true
	}
	if f.T == 4 || f.T == 5 {
		w := 4
		if f.T == 5 {
			w = 8
		}
		if p+w > len(b) {
			return rwDec{}, p, false
		}
		return rwDec{k: "flt", b: append([]byte{}, b[p:p+w]...)}, p + w, true
	}
	if rwLenEnc[f.T] {
		l, next, isNull, ok := rwLenEncInt(b, p)
		if !ok || isNull || l > uint64(len(b)-next) {
			return rwDec{}, p, false
		}
		s := b[next : next+int(l)]
		if f.T == 246 {
			return rwDec{k: "dec", b: decCanon(s)}, next + int(l), true
		}
		return rwDec{k: "str", b: append([]byte{}, s...)}, next + int(l), true
	}
	// temporal
	if p >= len(b) {
		return rwDec{}, p, false
	}
	l := int(b[p])
	if p+1+l > len(b) {
		return rwDec{}, p, false
	}
	u2 := func(o int) int { return int(b[o]) | int(b[o+1])<<8 }
	u4 := func(o int) int { return int(b[o]) | int(b[o+1])<<8 | int(b[o+2])<<16 | int(b[o+3])<<24 }
	switch f.T {
	case 10:
		switch l {
		case 0:
			return rwDec{k: "date", n: []int{0, 0, 0}}, p + 1, true
		case 4, 7, 11:
			return rwDec{k: "date", n: []int{u2(p + 1), int(b[p+3]), int(b[p+4])}}, p + 1 + l, true
		}
	case 12, 7:
		v := []int{0, 0, 0, 0, 0, 0, 0}
		switch l {
		case 0, 4, 7, 11:
		default:
			return rwDec{}, p, false
		}
		if l >= 4 {
			v[0], v[1], v[2] = u2(p+1), int(b[p+3]), int(b[p+4])
		}
		if l >= 7 {
			v[3], v[4], v[5] = int(b[p+5]), int(b[p+6]), int(b[p+7])
		}
		if l == 11 {
			v[6] = u4(p + 8)
		}
		return rwDec{k: "dt", n: v}, p + 1 + l, true
	case 11:
		switch l {
		case 0:
			return rwDec{k: "time", n: []int{0, 0, 0, 0, 0}}, p + 1, true
		case 8, 12:
			hh := u4(p+2)*24 + int(b[p+6])
			us := 0
			if l == 12 {
				us = u4(p + 9)
			}
			neg := 0
			if b[p+1] == 1 && (hh != 0 || b[p+7] != 0 || b[p+8] != 0 || us != 0) {
				neg = 1
			}
			return rwDec{k: "time", n: []int{neg, hh, int(b[p+7]), int(b[p+8]), us}}, p + 1 + l, true
		}
	}
	return rwDec{}, p, false
}

// rwDecodeRow: the specification's Decode, transliterated.  Every element carries the offset at which its
// column starts; a final element of kind "bad" marks where decoding stopped (also: bytes after the last column).
func rwDecodeRow(fields []rwField, b []byte) []rwDec {
	n := len(fields)
	bm := (n + 7 + 2) / 8
	if len(b) < 1+bm || b[0] != 0 {
		return []rwDec{{k: "bad"}}
	}
	p := 1 + bm
	var out []rwDec
	for j := 1; j <= n; j++ {
		q := j + 1
		if b[1+q/8]&(1<<uint(q%8)) != 0 {
			out = append(out, rwDec{k: "null", p: p})
			continue
		}
		d, next, ok := rwDecodeCol(fields[j-1], b, p)
		if !ok {
			return append(out, rwDec{k: "bad", p: p})
		}
		d.p = p
		out = append(out, d)
		p = next
	}
	if p != len(b) {
		return append(out, rwDec{k: "bad", p: p})
	}
	return out
}

// rwLenPrefix: the length prefix of n bytes (protocol definition), to recognise a value appended without it
func rwLenPrefix(n int) []byte {
	switch {
	case n < 251:
		return []byte{byte(n)}
	case n < 1<<16:
		return []byte{0xfc, byte(n), byte(n >> 8)}
	default:
		return []byte{0xfd, byte(n), byte(n >> 8), byte(n >> 16)}
	}
}

func rwTypeName(t int) string {
	if t == 0 {
		return "DECIMAL(old)"
	}
	return MysqlTypeName(uint8(t))
}

func rwValClass(f rwField, v rwVal) string {
	switch v.K {
	case "date":
		if v.N[0] == 0 && v.N[1] == 0 && v.N[2] == 0 {
			return "zero-date"
		}
		if v.N[1] == 0 || v.N[2] == 0 {
			return "zero-in-date"
		}
	case "dt":
		z := true
		for _, x := range v.N {
			if x != 0 {
				z = false
			}
		}
		if z {
			return "zero-datetime"
		}
		if v.N[1] == 0 || v.N[2] == 0 {
			return "zero-in-date"
		}
		if v.N[6] != 0 {
			return "fractional"
		}
	case "time":
		c := "positive"
		if v.N[0] == 1 {
			c = "negative"
		}
		if v.N[1] >= 24 {
			c += ">24h"
		}
		if v.N[4] != 0 {
			c += "-fractional"
		}
		return c
	case "str":
		if len(v.B) == 0 {
			return "empty"
		}
		if len(v.B) > 250 {
			return "len>250"
		}
	case "int":
		if f.U {
			return "unsigned"
		}
	}
	return "value"
}

// rwRow is one row of a result set: canonical values, text-protocol row, the specification's binary row
type rwRow struct {
	Vals []rwVal `json:"vals"`
	Text []int   `json:"text"`
	Bin  []int   `json:"bin"`
}

func rwNorm(ds []rwDec) []rwDec {
	for j := range ds {
		if (ds[j].k == "str" || ds[j].k == "dec") && ds[j].b == nil {
			ds[j].b = []byte{}
		}
	}
	return ds
}

func rwWant(vals []rwVal) []rwDec {
	want := make([]rwDec, len(vals))
	for j, v := range vals {
		want[j] = rwDec{k: v.K, n: v.N}
		if v.B != nil {
			want[j].b = rwBytes(v.B)
		}
	}
	return rwNorm(want)
}

// rwCompareRow decodes one real binary row and compares it column by column with the row's values.
// where = "" for a single-row result, else the position of the row in its result set.
func rwCompareRow(res *verifkit.Result, fields []rwField, row *rwRow, got []byte, where string, names []string) {
	want := rwWant(row.Vals)
	dec := rwNorm(rwDecodeRow(fields, got))
	ndev := len(res.Devs)
	for j := range want {
		cls := fmt.Sprintf("%s %s%s", rwTypeName(fields[j].T), rwValClass(fields[j], row.Vals[j]), where)
		if j >= len(dec) {
			break
		}
		if row.Vals[j].K == "str" && (dec[j].k == "bad" || !rwEqual(dec[j], want[j])) {
			// column j starts at dec[j].p (everything before it decoded to the right values)
			off := dec[j].p
			raw := want[j].b
			withPrefix := append(rwLenPrefix(len(raw)), raw...)
			if off <= len(got) && bytes.HasPrefix(got[off:], raw) && !bytes.HasPrefix(got[off:], withPrefix) {
				res.Dev("C13 value-without-length-prefix "+rwTypeName(fields[j].T)+where, "column %d (%s): the value bytes are appended without their length prefix: row %x, the specification's row is %x (text row %x)", j, cls, got, rwBytes(row.Bin), rwBytes(row.Text))
				break
			}
		}
		if dec[j].k == "bad" {
			res.Dev("C13 undecodable-from-column "+cls, "column %d (%s): the binary row %x cannot be decoded from here on; text row %x; the specification's row is %x", j, cls, got, rwBytes(row.Text), rwBytes(row.Bin))
			break
		}
		if !rwEqual(dec[j], want[j]) {
			res.Dev("C13 different-value "+cls, "column %d (%s): the binary row %x decodes to %v, the text value is %v (text row %x; the specification's row is %x)", j, cls, got, dec[j], want[j], rwBytes(row.Text), rwBytes(row.Bin))
			break
		}
	}
	if len(dec) > len(want) && len(res.Devs) == ndev {
		res.Dev("C13 trailing-bytes-after-row "+strings.Join(names, ",")+where, "the binary row %x has bytes after the last column; the specification's row is %x", got, rwBytes(row.Bin))
	}
}

func TestVerifBinaryRows(t *testing.T) {
	out, err := verifkit.OpenOut()
	if err != nil {
		t.Fatal(err)
	}
	nerr, ncols, nrows, nsets := 0, 0, 0, 0
	errKinds := map[string]int{}
	n, err := verifkit.EachCase(func(i int, raw json.RawMessage) error {
		var c rwCase
		if err := json.Unmarshal(raw, &c); err != nil {
			return err
		}
		res := &verifkit.Result{Case: i}
		rows := c.Set
		if len(rows) == 0 {
			rows = []rwRow{{Vals: c.Vals, Text: c.Text, Bin: c.Bin}}
		} else {
			nsets++
		}
		// 1. the decoder agrees with the specification on the specification's own bytes, row by row
		okSpec := true
		for k := range rows {
			want := rwWant(rows[k].Vals)
			specDec := rwNorm(rwDecodeRow(c.Fields, rwBytes(rows[k].Bin)))
			ok := len(specDec) == len(want)
			for j := 0; ok && j < len(want); j++ {
				ok = rwEqual(specDec[j], want[j])
			}
			if !ok {
				okSpec = false
				res.Dev("C13 harness decoder-disagrees-with-specification", "decoding the specification's row %x gives %v, the case says %v", rwBytes(rows[k].Bin), specDec, want)
				break
			}
		}
		if okSpec {
			// 2. the real conversion: every text row through ParseText, all rows of the result set through one BuildBinaryResultset
			fields := make([]*Field, len(c.Fields))
			for j, f := range c.Fields {
				fl := uint16(0)
				if f.U {
					fl = uint16(UnsignedFlag)
				}
				fields[j] = &Field{Name: []byte(fmt.Sprintf("c%d", j)), Type: uint8(f.T), Flag: fl}
			}
			var got []RowData
			var cerr error
			stage := ""
			pan, msg, _ := verifkit.Catch(func() {
				var all [][]interface{}
				var kept []rwRow
				for k := range rows {
					vals, err := RowData(rwBytes(rows[k].Text)).ParseText(fields)
					if err == nil && len(rows) > 1 {
						// a row the real code answers with an error (allowed) must not hide the other rows of the set
						_, err = BuildBinaryResultset(fields, [][]interface{}{vals})
					}
					if err != nil {
						if len(rows) == 1 {
							cerr, stage = err, "ParseText"
							return
						}
						nerr++
						continue
					}
					all = append(all, vals)
					kept = append(kept, rows[k])
				}
				rows = kept
				if len(rows) == 0 {
					return
				}
				rs, err := BuildBinaryResultset(fields, all)
				if err != nil {
					cerr, stage = err, "BuildBinaryResultset"
					return
				}
				if len(rs.RowDatas) != len(rows) {
					cerr, stage = fmt.Errorf("%d rows for %d", len(rs.RowDatas), len(rows)), "row-count"
					return
				}
				got = rs.RowDatas
			})
			nrows += len(rows)
			ncols += len(c.Fields) * len(rows)
			var names []string
			for _, f := range c.Fields {
				names = append(names, rwTypeName(f.T))
			}
			if len(names) > 4 {
				names = append(names[:3], fmt.Sprintf("...(%d columns)", len(c.Fields)))
			}
			switch {
			case pan:
				res.Dev("C13 panic "+strings.Join(names, ","), "converting text rows panics: %s (first text row %x)", msg, rwBytes(rows[0].Text))
			case cerr != nil && stage == "row-count":
				res.Dev("C13 wrong-number-of-rows", "%v", cerr)
			case cerr != nil:
				nerr++ // allowed: "or the proxy reports an error instead of sending a different value"
				errKinds[fmt.Sprintf("%s %s", stage, strings.Join(names, ","))]++
			default:
				for k := range rows {
					where := ""
					if k > 0 {
						where = " (row after the first of a result set)"
					}
					rwCompareRow(res, c.Fields, &rows[k], got[k], where, names)
					if len(res.Devs) > 0 {
						break
					}
				}
			}
		}
		if len(res.Devs) > 0 {
			res.Obs = raw
			out.Write(res)
		}
		return nil
	})
	if err != nil {
		t.Fatal(err)
	}
	out.Close(n, map[string]interface{}{"calls": nrows, "columns": ncols, "result_sets": nsets, "errors_returned": nerr, "error_kinds": errKinds})
}
