package mysql

// Conformance harness for spec/Wire.tla part A + spec/Wire_frames.tla (property C11).
// Direction G: TLC instantiates Split / Reassemble with M = 2^24-1 and emits, per (length, starting
// sequence id), the expected frame headers, the sequence id after the packet and the reader's outcome when
// frame i carries a wrong sequence id.  The harness
//   - writes a seeded payload through the real Conn.WritePacket (unbuffered, buffered) and
//     StartEphemeralPacket/WriteEphemeralPacket into an in-memory connection and compares the byte stream
//     with header(len, seq) + payload slice of every expected frame;
//   - feeds the expected stream to the real ReadPacket and ReadEphemeralPacket through an in-memory
//     connection that fragments it by a seeded chunk schedule (one-byte chunks around every header),
//     with and without the bufio reader, and compares payload and sequence id;
//   - replaces the sequence id of frame i (every i, including the empty terminator) and requires an error.

import (
	"bytes"
	"encoding/json"
	"fmt"
	"io"
	"math/rand"
	"net"
	"testing"
	"time"

	"github.com/XiaoMi/Gaea/internal/verifkit"
)

type frFrame struct {
	Len int `json:"len"`
	Seq int `json:"seq"`
	Off int `json:"off"`
}

type frBad struct {
	I   int    `json:"i"`
	D   int    `json:"d"`
	Ok  bool   `json:"ok"`
	At  int    `json:"at"`
	Why string `json:"why"`
}

type frCase struct {
	M      int       `json:"m"`
	Len    int       `json:"len"`
	Seq    int       `json:"seq"`
	Frames []frFrame `json:"frames"`
	Ok     bool      `json:"ok"`
	RLen   int       `json:"rlen"`
	Next   int       `json:"next"`
	Bad    []frBad   `json:"bad"`
}

type memAddr struct{}

func (memAddr) Network() string { return "mem" }
func (memAddr) String() string  { return "mem:0" }

// captureConn records everything written to it.
type captureConn struct {
	buf    bytes.Buffer
	writes int
}

func (c *captureConn) Read(p []byte) (int, error)         { return 0, io.EOF }
func (c *captureConn) Write(p []byte) (int, error)        { c.writes++; return c.buf.Write(p) }
func (c *captureConn) Close() error                       { return nil }
func (c *captureConn) LocalAddr() net.Addr                { return memAddr{} }
func (c *captureConn) RemoteAddr() net.Addr               { return memAddr{} }
func (c *captureConn) SetDeadline(t time.Time) error      { return nil }
func (c *captureConn) SetReadDeadline(t time.Time) error  { return nil }
func (c *captureConn) SetWriteDeadline(t time.Time) error { return nil }

// chunkConn delivers a byte stream in the chunks of a schedule (cut positions), then io.EOF.
type chunkConn struct {
	data  []byte
	pos   int
	cuts  []int // ascending stream offsets at which a Read must stop
	ci    int
	reads int
}

func (c *chunkConn) Read(p []byte) (int, error) {
	if c.pos >= len(c.data) {
		return 0, io.EOF
	}
	if len(p) == 0 {
		return 0, nil
	}
	for c.ci < len(c.cuts) && c.cuts[c.ci] <= c.pos {
		c.ci++
	}
	end := len(c.data)
	if c.ci < len(c.cuts) && c.cuts[c.ci] < end {
		end = c.cuts[c.ci]
	}
	if end-c.pos > len(p) {
		end = c.pos + len(p)
	}
	n := copy(p, c.data[c.pos:end])
	c.pos += n
	c.reads++
	return n, nil
}
func (c *chunkConn) Write(p []byte) (int, error)        { return len(p), nil }
func (c *chunkConn) Close() error                       { return nil }
func (c *chunkConn) LocalAddr() net.Addr                { return memAddr{} }
func (c *chunkConn) RemoteAddr() net.Addr               { return memAddr{} }
func (c *chunkConn) SetDeadline(t time.Time) error      { return nil }
func (c *chunkConn) SetReadDeadline(t time.Time) error  { return nil }
func (c *chunkConn) SetWriteDeadline(t time.Time) error { return nil }

func frPayload(n int, seed uint64) []byte {
	b := make([]byte, n)
	x := seed*2862933555777941757 + 3037000493
	i := 0
	for ; i+8 <= n; i += 8 {
		x ^= x << 13
		x ^= x >> 7
		x ^= x << 17
		b[i], b[i+1], b[i+2], b[i+3] = byte(x), byte(x>>8), byte(x>>16), byte(x>>24)
		b[i+4], b[i+5], b[i+6], b[i+7] = byte(x>>32), byte(x>>40), byte(x>>48), byte(x>>56)
	}
	for ; i < n; i++ {
		x ^= x << 13
		x ^= x >> 7
		x ^= x << 17
		b[i] = byte(x)
	}
	return b
}

// expectedStream builds header(len, seq) + payload[off:off+len] for every frame of the specification.
func expectedStream(c *frCase, payload []byte) ([]byte, []int) {
	total := 0
	for _, f := range c.Frames {
		total += 4 + f.Len
	}
	out := make([]byte, 0, total)
	var hdrs []int
	for _, f := range c.Frames {
		hdrs = append(hdrs, len(out))
		out = append(out, byte(f.Len), byte(f.Len>>8), byte(f.Len>>16), byte(f.Seq))
		out = append(out, payload[f.Off:f.Off+f.Len]...)
	}
	return out, hdrs
}

func frameClass(c *frCase, i int) string { // i is 1-based
	n := len(c.Frames)
	pos := "middle"
	switch {
	case n == 1:
		pos = "only"
	case i == 1:
		pos = "first"
	case i == n:
		pos = "last"
	}
	if c.Frames[i-1].Len == 0 {
		return pos + "-empty"
	}
	if c.Frames[i-1].Len == c.M {
		return pos + "-full"
	}
	return pos + "-partial"
}

// compareStream classifies the first difference between the written stream and the expected one.
func compareStream(res *verifkit.Result, variant string, c *frCase, got, want []byte, hdrs []int) {
	if bytes.Equal(got, want) {
		return
	}
	for k, h := range hdrs {
		cls := frameClass(c, k+1)
		if h+4 > len(got) {
			res.Dev(fmt.Sprintf("C11 write %s missing-frame %s", variant, cls), "len=%d seq=%d: the stream ends (%d bytes) before frame %d of %d (expected header at %d)", c.Len, c.Seq, len(got), k+1, len(hdrs), h)
			return
		}
		if !bytes.Equal(got[h:h+3], want[h:h+3]) {
			res.Dev(fmt.Sprintf("C11 write %s wrong-frame-length %s", variant, cls), "len=%d seq=%d frame %d: header length bytes %v, specification %v", c.Len, c.Seq, k+1, got[h:h+3], want[h:h+3])
			return
		}
		if got[h+3] != want[h+3] {
			res.Dev(fmt.Sprintf("C11 write %s wrong-sequence-id %s", variant, cls), "len=%d seq=%d frame %d: sequence id %d, specification %d", c.Len, c.Seq, k+1, got[h+3], want[h+3])
			return
		}
		end := h + 4 + c.Frames[k].Len
		if end > len(got) || !bytes.Equal(got[h+4:end], want[h+4:end]) {
			res.Dev(fmt.Sprintf("C11 write %s wrong-payload-bytes %s", variant, cls), "len=%d seq=%d frame %d: payload bytes differ", c.Len, c.Seq, k+1)
			return
		}
	}
	res.Dev(fmt.Sprintf("C11 write %s surplus-bytes", variant), "len=%d seq=%d: %d bytes written, specification %d", c.Len, c.Seq, len(got), len(want))
}

func frWrite(res *verifkit.Result, variant string, c *frCase, payload, want []byte, hdrs []int) {
	cc := &captureConn{}
	conn := NewConn(cc)
	conn.SetSequence(uint8(c.Seq))
	var err error
	pan, msg, _ := verifkit.Catch(func() {
		switch variant {
		case "WritePacket":
			err = conn.WritePacket(payload)
		case "WritePacket-buffered":
			conn.StartWriterBuffering()
			err = conn.WritePacket(payload)
			if e2 := conn.Flush(); err == nil {
				err = e2
			}
		case "WriteEphemeralPacket":
			b := conn.StartEphemeralPacket(len(payload))
			if len(b) != len(payload) {
				panic(fmt.Sprintf("StartEphemeralPacket(%d) returned %d bytes", len(payload), len(b)))
			}
			copy(b, payload)
			err = conn.WriteEphemeralPacket()
		}
	})
	lc := lenClass(c)
	if pan {
		res.Dev(fmt.Sprintf("C11 write %s panic %s", variant, lc), "len=%d seq=%d: %s", c.Len, c.Seq, msg)
		return
	}
	if err != nil {
		res.Dev(fmt.Sprintf("C11 write %s error %s", variant, lc), "len=%d seq=%d: %v", c.Len, c.Seq, err)
		return
	}
	compareStream(res, variant, c, cc.buf.Bytes(), want, hdrs)
	if int(conn.GetSequence()) != c.Next {
		res.Dev(fmt.Sprintf("C11 write %s wrong-next-sequence-id %s", variant, lc), "len=%d seq=%d: writer's sequence id afterwards %d, specification %d", c.Len, c.Seq, conn.GetSequence(), c.Next)
	}
}

func lenClass(c *frCase) string {
	switch {
	case c.Len == 0:
		return "len=0"
	case c.Len%c.M == 0:
		return "len=k*M"
	case c.Len < c.M:
		return "len<M"
	default:
		return "len>M"
	}
}

// schedule returns cut positions for the stream: kind 0 = one-byte chunks around every header and seeded
// large chunks elsewhere; 1 = seeded small chunks everywhere near headers and medium chunks elsewhere;
// 2 = a single cut in the middle of every header.
func schedule(kind int, n int, hdrs []int, rng *rand.Rand) []int {
	var cuts []int
	add := func(x int) {
		if x > 0 && x < n {
			cuts = append(cuts, x)
		}
	}
	prev := 0
	for _, h := range hdrs {
		// body of the previous frame
		for p := prev; p < h-3; {
			var step int
			switch kind {
			case 0:
				step = 1 + rng.Intn(4<<20)
			case 1:
				step = 1 + rng.Intn(70000)
			default:
				step = h
			}
			p += step
			if p < h-3 {
				add(p)
			}
		}
		switch kind {
		case 0, 1:
			for x := h - 2; x <= h+6; x++ {
				add(x)
			}
		default:
			add(h + 1 + rng.Intn(3))
		}
		prev = h + 7
	}
	for p := prev; p < n; {
		step := 1 + rng.Intn(4<<20)
		if kind == 1 {
			step = 1 + rng.Intn(70000)
		}
		p += step
		add(p)
	}
	// ascending and unique
	out := cuts[:0]
	last := -1
	for _, x := range cuts {
		if x > last {
			out = append(out, x)
			last = x
		}
	}
	return out
}

type frStats struct {
	writes, reads, rejects, bytesRead int
}

// frRead runs one of the two readers over stream; returns payload, error, sequence id afterwards, unread bytes.
func frRead(reader string, buffered bool, stream []byte, cuts []int, seq int) (data []byte, err error, after int, unread int, panicked bool, msg string) {
	cc := &chunkConn{data: stream, cuts: cuts}
	var conn *Conn
	if buffered {
		conn = NewConn(cc)
	} else {
		conn = NewConn(cc)
		conn.bufferedReader = nil
	}
	conn.SetSequence(uint8(seq))
	panicked, msg, _ = verifkit.Catch(func() {
		if reader == "ReadPacket" {
			data, err = conn.ReadPacket()
		} else {
			var d []byte
			d, err = conn.ReadEphemeralPacket()
			if err == nil {
				data = append([]byte{}, d...) // the buffer goes back to the pool
			}
			conn.RecycleReadPacket()
		}
	})
	after = int(conn.GetSequence())
	unread = len(stream) - cc.pos
	if conn.bufferedReader != nil {
		unread += conn.bufferedReader.Buffered()
	}
	return
}

func frCaseRun(idx int, c *frCase, res *verifkit.Result, st *frStats, rng *rand.Rand, light bool) {
	payload := frPayload(c.Len, uint64(verifkit.Seed())*1000003+uint64(idx))
	// sanity of the case itself (frames must tile the payload: otherwise the harness cannot build the stream)
	for _, f := range c.Frames {
		if f.Off < 0 || f.Len < 0 || f.Off+f.Len > c.Len {
			res.Dev("C11 harness bad-case", "frame %+v outside payload of %d bytes", f, c.Len)
			return
		}
	}
	want, hdrs := expectedStream(c, payload)
	big := c.Len > 1<<20

	// ---- writers
	variants := []string{"WritePacket", "WritePacket-buffered", "WriteEphemeralPacket"}
	if big && light {
		variants = []string{variants[idx%3]}
	}
	for _, v := range variants {
		st.writes++
		frWrite(res, v, c, payload, want, hdrs)
	}

	// ---- readers on the expected stream, fragmented
	type rd struct {
		reader   string
		buffered bool
	}
	rds := []rd{{"ReadPacket", true}, {"ReadEphemeralPacket", true}, {"ReadPacket", false}, {"ReadEphemeralPacket", false}}
	kinds := []int{0, 1, 2}
	lc := lenClass(c)
	for ri, r := range rds {
		ks := kinds
		if big {
			ks = []int{(idx + ri) % 3}
			if light && ri >= 2 && (idx+ri)%2 == 0 {
				continue
			}
		}
		for _, k := range ks {
			cuts := schedule(k, len(want), hdrs, rng)
			st.reads++
			st.bytesRead += len(want)
			data, err, after, unread, pan, msg := frRead(r.reader, r.buffered, want, cuts, c.Seq)
			switch {
			case pan:
				res.Dev(fmt.Sprintf("C11 read %s panic %s", r.reader, lc), "len=%d seq=%d schedule %d: %s", c.Len, c.Seq, k, msg)
			case err != nil:
				res.Dev(fmt.Sprintf("C11 read %s error-on-valid-stream %s", r.reader, lc), "len=%d seq=%d schedule %d (%d cuts): %v", c.Len, c.Seq, k, len(cuts), err)
			case !bytes.Equal(data, payload):
				res.Dev(fmt.Sprintf("C11 read %s wrong-payload %s", r.reader, lc), "len=%d seq=%d schedule %d: %d bytes returned, differs from the %d written", c.Len, c.Seq, k, len(data), len(payload))
			case after != c.Next:
				res.Dev(fmt.Sprintf("C11 read %s wrong-next-sequence-id %s", r.reader, lc), "len=%d seq=%d: reader's sequence id afterwards %d, specification %d", c.Len, c.Seq, after, c.Next)
			case unread != 0:
				res.Dev(fmt.Sprintf("C11 read %s left-bytes-unread %s", r.reader, lc), "len=%d seq=%d: %d bytes of the packet not consumed", c.Len, c.Seq, unread)
			}
		}
	}

	// ---- wrong sequence id at frame i
	for bi, b := range c.Bad {
		if b.I < 1 || b.I > len(hdrs) {
			res.Dev("C11 harness bad-case", "bad frame index %d", b.I)
			continue
		}
		bad := make([]byte, len(want))
		copy(bad, want)
		bad[hdrs[b.I-1]+3] = byte((c.Frames[b.I-1].Seq + b.D) % 256)
		for ri, r := range rds {
			if big && (ri+bi+idx)%4 != 0 {
				continue // large streams: one reader variant per injected fault, rotating
			}
			if !big && light && c.Len > 4096 && (ri+bi)%2 != 0 {
				continue
			}
			cuts := schedule((bi+ri)%3, len(bad), hdrs, rng)
			st.rejects++
			data, err, after, _, pan, msg := frRead(r.reader, r.buffered, bad, cuts, c.Seq)
			cls := frameClass(c, b.I)
			switch {
			case pan:
				res.Dev(fmt.Sprintf("C11 read %s panic-on-wrong-sequence-id %s", r.reader, cls), "len=%d seq=%d frame %d delta %d: %s", c.Len, c.Seq, b.I, b.D, msg)
			case b.Ok:
				res.Dev("C11 harness bad-case", "the specification accepts a wrong sequence id?")
			case err == nil:
				res.Dev(fmt.Sprintf("C11 wrong-sequence-id-accepted %s %s", r.reader, cls),
					"len=%d seq=%d: frame %d of %d carries sequence id %d instead of %d; %s returned %d bytes without error (sequence id afterwards %d); the specification rejects at frame %d",
					c.Len, c.Seq, b.I, len(hdrs), bad[hdrs[b.I-1]+3], c.Frames[b.I-1].Seq, r.reader, len(data), after, b.At)
			}
		}
	}
}

func TestVerifFrames(t *testing.T) {
	out, err := verifkit.OpenOut()
	if err != nil {
		t.Fatal(err)
	}
	rng := verifkit.Rand()
	light := verifkit.EnvInt("VERIF_C11_LIGHT", 1) == 1
	st := &frStats{}
	nframes := 0
	n, err := verifkit.EachCase(func(i int, raw json.RawMessage) error {
		var c frCase
		if err := json.Unmarshal(raw, &c); err != nil {
			return err
		}
		if c.M != MaxPacketSize {
			return fmt.Errorf("case %d: frame limit %d is not the implementation's MaxPacketSize %d", i, c.M, MaxPacketSize)
		}
		nframes += len(c.Frames)
		res := &verifkit.Result{Case: i}
		frCaseRun(i, &c, res, st, rng, light)
		if len(res.Devs) > 0 {
			res.Obs = raw
			out.Write(res)
		}
		return nil
	})
	if err != nil {
		t.Fatal(err)
	}
	out.Close(n, map[string]interface{}{"frames": nframes, "writes": st.writes, "reads": st.reads, "wrong_seq_reads": st.rejects,
		"calls": st.writes + st.reads + st.rejects, "bytes_read": st.bytesRead})
}
