package mysql

// Conformance harness for spec/Wire.tla part B + spec/Wire_lenenc.tla (property C12).
// Direction G: TLC enumerates byte buffers / offsets / 64-bit values together with the
// specification's result (DecLen, DecStr, ReadFix, ReadNul, EncLen); the real functions of
// mysql/encoding.go are called on exactly those inputs and compared.  A panic of a decoder is
// an out-of-bounds access (the buffers are handed over with cap == len so that any read past
// the input panics instead of returning neighbouring memory).

import (
	"bytes"
	"encoding/binary"
	"encoding/json"
	"fmt"
	"math"
	"math/rand"
	"testing"

	"github.com/XiaoMi/Gaea/internal/verifkit"
)

type leAt struct {
	I []int   `json:"i"` // ReadLenEncInt: ok, null, undef, next
	V []int   `json:"v"` // value (8 little-endian bytes)
	S []int   `json:"s"` // length-encoded string: ok, null, undef, from, next
	Z []int   `json:"z"` // NUL-terminated string: ok, from, next
	F [][]int `json:"f"` // fixed reads: size, ok, from, next
}

type leCase struct {
	Kind string  `json:"kind"`
	Buf  []int   `json:"buf"`
	Big  [][]int `json:"big"`
	H    []int   `json:"h"`
	At   []leAt  `json:"at"`
	// kind "enc"
	V    []int `json:"v"`
	Enc  []int `json:"enc"`
	Size int   `json:"size"`
	// self-test: the harness must report a deviation for this case
	Corrupt bool `json:"corrupt,omitempty"`
}

func leBytes(a []int) []byte {
	b := make([]byte, len(a))
	for i, x := range a {
		b[i] = byte(x)
	}
	return b
}

func leU64(a []int) uint64 { return binary.LittleEndian.Uint64(leBytes(a)) }

// tight returns a copy of b whose capacity equals its length, surrounded in memory by guard bytes.
func tight(b []byte) []byte {
	back := make([]byte, len(b)+32)
	for i := range back {
		back[i] = 0xEE
	}
	copy(back[16:], b)
	return back[16 : 16+len(b) : 16+len(b)]
}

func prefixClass(buf []byte, pos int) string {
	switch {
	case pos > len(buf):
		return "pos>len"
	case pos == len(buf):
		return "pos=len"
	}
	c := buf[pos]
	switch {
	case c < 251:
		return "prefix<0xfb"
	default:
		return fmt.Sprintf("prefix=0x%02x", c)
	}
}

// declClass classifies the declared length of a length-encoded string (the specification's decoded value).
func declClass(at *leAt, buf []byte) string {
	if at.I[0] == 0 {
		if at.I[2] == 1 {
			return "undefined-prefix"
		}
		return "truncated-length"
	}
	if at.I[1] == 1 {
		return "null"
	}
	v := leU64(at.V)
	rem := uint64(len(buf) - at.I[3])
	switch {
	case v >= 1<<63:
		return "decl>=2^63"
	case v > math.MaxInt64-64:
		return "decl-near-maxint64"
	case v > rem:
		return "decl>rem"
	default:
		return "decl<=rem"
	}
}

func sizeClass(size int, rem int) string {
	switch {
	case size < 0:
		return "size<0"
	case size > math.MaxInt64-64:
		return "size-near-maxint64"
	case size > rem:
		return "size>rem"
	default:
		return "size<=rem"
	}
}

type leStats struct{ calls, panics int }

// leCatch is verifkit.Catch without the stack capture (tens of thousands of expected panics per run).
func leCatch(fn func()) (panicked bool, msg string, stack string) {
	defer func() {
		if r := recover(); r != nil {
			panicked = true
			msg = fmt.Sprint(r)
		}
	}()
	fn()
	return
}

// checkStrLike compares one of the three length-encoded string readers with the specification.
func checkStrLike(res *verifkit.Result, st *leStats, name string, buf []byte, pos int, at *leAt,
	call func(d []byte, p int) (val []byte, next int, isNull bool, hasNull bool, hasVal bool, ok bool)) {
	st.calls++
	var val []byte
	var next int
	var isNull, hasNull, hasVal, ok bool
	pan, msg, _ := leCatch(func() { val, next, isNull, hasNull, hasVal, ok = call(tight(buf), pos) })
	cls := prefixClass(buf, pos) + " " + declClass(at, buf)
	if pan {
		st.panics++
		res.Dev(fmt.Sprintf("C12 panic %s %s", name, cls), "%s(buf=%v, pos=%d) panics: %s; the specification says ok=%v", name, buf, pos, msg, at.S[0] == 1)
		return
	}
	eok, enull, undef, from, enext := at.S[0] == 1, at.S[1] == 1, at.S[2] == 1, at.S[3], at.S[4]
	if undef {
		// first byte 0xff: failing or taking the byte literally are both tolerated, but the result must lie inside the input
		if ok && (next < pos+1 || next > len(buf) || len(val) > next || (hasVal && !bytes.Equal(val, buf[next-len(val):next]))) {
			res.Dev(fmt.Sprintf("C12 out-of-input %s %s", name, cls), "%s(buf=%v, pos=%d) = %v next=%d", name, buf, pos, val, next)
		}
		return
	}
	if ok != eok {
		res.Dev(fmt.Sprintf("C12 wrong-ok %s %s", name, cls), "%s(buf=%v, pos=%d): ok=%v, specification ok=%v", name, buf, pos, ok, eok)
		return
	}
	if !ok {
		return
	}
	if next != enext {
		res.Dev(fmt.Sprintf("C12 wrong-next %s %s", name, cls), "%s(buf=%v, pos=%d): next=%d, specification %d", name, buf, pos, next, enext)
	}
	if hasNull && isNull != enull {
		res.Dev(fmt.Sprintf("C12 wrong-null %s %s", name, cls), "%s(buf=%v, pos=%d): isNull=%v, specification %v", name, buf, pos, isNull, enull)
	}
	if hasVal {
		want := buf[from:enext]
		if !bytes.Equal(val, want) {
			res.Dev(fmt.Sprintf("C12 wrong-value %s %s", name, cls), "%s(buf=%v, pos=%d) = %v, specification %v", name, buf, pos, val, want)
		}
	}
}

func leDecCase(c *leCase, res *verifkit.Result, st *leStats) {
	buf := leBytes(c.Buf)
	if len(c.At) != len(buf)+2 {
		res.Dev("C12 harness bad-case", "case has %d offsets for a buffer of %d bytes", len(c.At), len(buf))
		return
	}
	for pos := range c.At {
		at := &c.At[pos]
		pc := prefixClass(buf, pos)

		// ---- ReadLenEncInt
		{
			st.calls++
			var v uint64
			var next int
			var isNull, ok bool
			pan, msg, _ := leCatch(func() { v, next, isNull, ok = ReadLenEncInt(tight(buf), pos) })
			eok, enull, undef, enext := at.I[0] == 1, at.I[1] == 1, at.I[2] == 1, at.I[3]
			switch {
			case pan:
				st.panics++
				res.Dev("C12 panic ReadLenEncInt "+pc, "ReadLenEncInt(buf=%v, pos=%d) panics: %s", buf, pos, msg)
			case undef:
				if ok && (next != pos+1 || isNull || v != uint64(buf[pos])) {
					res.Dev("C12 out-of-input ReadLenEncInt "+pc, "ReadLenEncInt(buf=%v, pos=%d) = %d next=%d null=%v", buf, pos, v, next, isNull)
				}
			case ok != eok:
				res.Dev("C12 wrong-ok ReadLenEncInt "+pc, "ReadLenEncInt(buf=%v, pos=%d): ok=%v, specification ok=%v", buf, pos, ok, eok)
			case ok:
				if next != enext {
					res.Dev("C12 wrong-next ReadLenEncInt "+pc, "ReadLenEncInt(buf=%v, pos=%d): next=%d, specification %d", buf, pos, next, enext)
				}
				if isNull != enull {
					res.Dev("C12 wrong-null ReadLenEncInt "+pc, "ReadLenEncInt(buf=%v, pos=%d): isNull=%v, specification %v", buf, pos, isNull, enull)
				}
				if !enull && v != leU64(at.V) {
					res.Dev("C12 wrong-value ReadLenEncInt "+pc, "ReadLenEncInt(buf=%v, pos=%d) = %d, specification %d", buf, pos, v, leU64(at.V))
				}
			}
		}

		// ---- length-encoded strings
		checkStrLike(res, st, "readLenEncString", buf, pos, at, func(d []byte, p int) ([]byte, int, bool, bool, bool, bool) {
			s, n, ok := readLenEncString(d, p)
			return []byte(s), n, false, false, true, ok
		})
		checkStrLike(res, st, "ReadLenEncStringAsBytes", buf, pos, at, func(d []byte, p int) ([]byte, int, bool, bool, bool, bool) {
			b, n, isNull, ok := ReadLenEncStringAsBytes(d, p)
			return b, n, isNull, true, true, ok
		})
		checkStrLike(res, st, "skipLenEncString", buf, pos, at, func(d []byte, p int) ([]byte, int, bool, bool, bool, bool) {
			n, ok := skipLenEncString(d, p)
			return nil, n, false, false, false, ok
		})

		// ---- NUL-terminated strings
		for _, fn := range []string{"ReadNullString", "ReadNullByte"} {
			st.calls++
			var val []byte
			var next int
			var ok bool
			pan, msg, _ := leCatch(func() {
				if fn == "ReadNullString" {
					var s string
					s, next, ok = ReadNullString(tight(buf), pos)
					val = []byte(s)
				} else {
					val, next, ok = ReadNullByte(tight(buf), pos)
				}
			})
			cls := "pos<=len"
			if pos > len(buf) {
				cls = "pos>len"
			}
			eok, from, enext := at.Z[0] == 1, at.Z[1], at.Z[2]
			switch {
			case pan:
				st.panics++
				res.Dev(fmt.Sprintf("C12 panic %s %s", fn, cls), "%s(buf=%v, pos=%d) panics: %s", fn, buf, pos, msg)
			case ok != eok:
				res.Dev(fmt.Sprintf("C12 wrong-ok %s %s", fn, cls), "%s(buf=%v, pos=%d): ok=%v, specification ok=%v", fn, buf, pos, ok, eok)
			case ok:
				if next != enext || !bytes.Equal(val, buf[from:enext-1]) {
					res.Dev(fmt.Sprintf("C12 wrong-value %s %s", fn, cls), "%s(buf=%v, pos=%d) = %v next=%d, specification %v next=%d", fn, buf, pos, val, next, buf[from:enext-1], enext)
				}
			}
		}

		// ---- fixed-size reads: small sizes with the specification's result, 64-bit extremes must be refused
		type fx struct {
			size       int
			ok         bool
			from, next int
		}
		var fxs []fx
		for _, f := range at.F {
			fxs = append(fxs, fx{f[0], f[1] == 1, f[2], f[3]})
		}
		for _, b := range c.Big {
			fxs = append(fxs, fx{int(int64(leU64(b))), false, 0, 0})
		}
		for _, f := range fxs {
			for _, fn := range []string{"ReadBytes", "ReadBytesCopy"} {
				st.calls++
				var val []byte
				var next int
				var ok bool
				pan, msg, _ := leCatch(func() {
					if fn == "ReadBytes" {
						val, next, ok = ReadBytes(tight(buf), pos, f.size)
					} else {
						val, next, ok = ReadBytesCopy(tight(buf), pos, f.size)
					}
				})
				cls := sizeClass(f.size, len(buf)-pos)
				if pos > len(buf) && f.size >= 0 && f.size <= math.MaxInt64-64 {
					cls += " pos>len"
				}
				switch {
				case pan:
					st.panics++
					res.Dev(fmt.Sprintf("C12 panic %s %s", fn, cls), "%s(buf=%v, pos=%d, size=%d) panics: %s", fn, buf, pos, f.size, msg)
				case ok != f.ok:
					res.Dev(fmt.Sprintf("C12 wrong-ok %s %s", fn, cls), "%s(buf=%v, pos=%d, size=%d): ok=%v, specification ok=%v", fn, buf, pos, f.size, ok, f.ok)
				case ok:
					if next != f.next || !bytes.Equal(val, buf[f.from:f.next]) {
						res.Dev(fmt.Sprintf("C12 wrong-value %s %s", fn, cls), "%s(buf=%v, pos=%d, size=%d) = %v next=%d, specification %v next=%d", fn, buf, pos, f.size, val, next, buf[f.from:f.next], f.next)
					}
				}
			}
		}
	}

	// ---- the buffer itself as a length-encoded string: encode, compare with the specification's header, decode
	want := append(leBytes(c.H), buf...)
	leStrRoundTrip(res, st, buf, want, "short")
}

// leStrRoundTrip encodes payload as a length-encoded string with the three real encoders, compares with the
// expected bytes (header from the specification + payload) and decodes it again.
func leStrRoundTrip(res *verifkit.Result, st *leStats, payload, want []byte, cls string) {
	st.calls++
	pan, msg, _ := leCatch(func() {
		if n := LenEncStringSize(string(payload)); n != len(want) {
			res.Dev("C12 wrong-size LenEncStringSize "+cls, "LenEncStringSize(len %d) = %d, specification %d", len(payload), n, len(want))
		}
		got := AppendLenEncStringBytes([]byte{0x55}, payload)
		if len(got) < 1 || got[0] != 0x55 || !bytes.Equal(got[1:], want) {
			res.Dev("C12 wrong-bytes AppendLenEncStringBytes "+cls, "AppendLenEncStringBytes(len %d): header %v, specification %v", len(payload), head(got[1:], 10), head(want, 10))
		}
		w := make([]byte, len(want)+4)
		w[0], w[1], w[len(w)-2], w[len(w)-1] = 0xA1, 0xA2, 0xA3, 0xA4
		np := WriteLenEncString(w, 2, string(payload))
		if np != 2+len(want) || !bytes.Equal(w[2:2+len(want)], want) || w[0] != 0xA1 || w[1] != 0xA2 || w[len(w)-2] != 0xA3 || w[len(w)-1] != 0xA4 {
			res.Dev("C12 wrong-bytes WriteLenEncString "+cls, "WriteLenEncString(len %d): next=%d header %v, specification next=%d %v", len(payload), np, head(w[2:], 10), 2+len(want), head(want, 10))
		}
		// decode what the specification says the encoding is
		s, n, ok := readLenEncString(tight(want), 0)
		if !ok || n != len(want) || s != string(payload) {
			res.Dev("C12 round-trip readLenEncString "+cls, "readLenEncString(encoding of len %d): ok=%v next=%d len=%d", len(payload), ok, n, len(s))
		}
		b, n2, isNull, ok2 := ReadLenEncStringAsBytes(tight(want), 0)
		if !ok2 || isNull || n2 != len(want) || !bytes.Equal(b, payload) {
			res.Dev("C12 round-trip ReadLenEncStringAsBytes "+cls, "ReadLenEncStringAsBytes(encoding of len %d): ok=%v null=%v next=%d len=%d", len(payload), ok2, isNull, n2, len(b))
		}
		n3, ok3 := skipLenEncString(tight(want), 0)
		if !ok3 || n3 != len(want) {
			res.Dev("C12 round-trip skipLenEncString "+cls, "skipLenEncString(encoding of len %d): ok=%v next=%d", len(payload), ok3, n3)
		}
	})
	if pan {
		st.panics++
		res.Dev("C12 panic string-round-trip "+cls, "encoding/decoding a string of %d bytes panics: %s", len(payload), msg)
	}
}

func head(b []byte, n int) []byte {
	if len(b) > n {
		return b[:n]
	}
	return b
}

func leEncCase(c *leCase, res *verifkit.Result, st *leStats, rng *rand.Rand) {
	v := leU64(c.V)
	want := leBytes(c.Enc)
	cls := fmt.Sprintf("spec-size=%d", c.Size)
	st.calls++
	pan, msg, _ := leCatch(func() {
		if n := LenEncIntSize(v); n != c.Size {
			res.Dev("C12 wrong-size LenEncIntSize "+cls, "LenEncIntSize(%d) = %d, specification %d", v, n, c.Size)
		}
		w := make([]byte, len(want)+6)
		for i := range w {
			w[i] = 0xAA
		}
		np := WriteLenEncInt(w, 3, v)
		if np != 3+len(want) || !bytes.Equal(w[3:3+len(want)], want) {
			res.Dev("C12 wrong-bytes WriteLenEncInt "+cls, "WriteLenEncInt(%d): next=%d bytes %v, specification next=%d %v", v, np, w[3:], 3+len(want), want)
		} else if !bytes.Equal(w[:3], []byte{0xAA, 0xAA, 0xAA}) || !bytes.Equal(w[3+len(want):], []byte{0xAA, 0xAA, 0xAA}) {
			res.Dev("C12 wrote-outside WriteLenEncInt "+cls, "WriteLenEncInt(%d) touched bytes outside its encoding: %v", v, w)
		}
		got := AppendLenEncInt([]byte{0x55, 0x66}, v)
		if len(got) < 2 || !bytes.Equal(got[:2], []byte{0x55, 0x66}) || !bytes.Equal(got[2:], want) {
			res.Dev("C12 wrong-bytes AppendLenEncInt "+cls, "AppendLenEncInt(%d) = %v, specification %v", v, got, want)
		}
		// decode the specification's encoding with the real decoder
		dv, next, isNull, ok := ReadLenEncInt(tight(want), 0)
		if !ok || isNull || dv != v || next != len(want) {
			res.Dev("C12 round-trip ReadLenEncInt "+cls, "ReadLenEncInt(%v) = %d next=%d null=%v ok=%v, specification %d next=%d", want, dv, next, isNull, ok, v, len(want))
		}
	})
	if pan {
		st.panics++
		res.Dev("C12 panic int-encode "+cls, "encoding %d panics: %s", v, msg)
	}
	// the value as the length of a string (up to a little above 2^24: a 16 MiB buffer)
	if v <= 1<<24+2 {
		payload := make([]byte, int(v))
		rng.Read(payload)
		leStrRoundTrip(res, st, payload, append(append([]byte{}, want...), payload...), "len-"+cls)
	}
}

func TestVerifLenEnc(t *testing.T) {
	out, err := verifkit.OpenOut()
	if err != nil {
		t.Fatal(err)
	}
	rng := verifkit.Rand()
	st := &leStats{}
	ndec, nenc, noff := 0, 0, 0
	devSigs := map[string]int{}
	n, err := verifkit.EachCase(func(i int, raw json.RawMessage) error {
		var c leCase
		if err := json.Unmarshal(raw, &c); err != nil {
			return err
		}
		res := &verifkit.Result{Case: i}
		if c.Kind == "enc" {
			nenc++
			leEncCase(&c, res, st, rng)
		} else {
			ndec++
			noff += len(c.At)
			leDecCase(&c, res, st)
		}
		if len(res.Devs) > 0 {
			// keep the output small: per signature at most 3 full reports, the rest only counted
			var keep []verifkit.Dev
			for _, d := range res.Devs {
				devSigs[d.Sig]++
				if devSigs[d.Sig] <= 3 {
					keep = append(keep, d)
				}
			}
			if len(keep) > 0 {
				res.Devs = keep
				res.Obs = raw
				out.Write(res)
			}
		}
		return nil
	})
	if err != nil {
		t.Fatal(err)
	}
	out.Close(n, map[string]interface{}{"decoder_buffers": ndec, "offsets": noff, "encoder_values": nenc,
		"calls": st.calls, "panics": st.panics, "dev_counts": devSigs})
}
