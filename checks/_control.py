"""Shared helpers of the control-plane family (C32 ControlPlane, C33 ConfigStore, C34 Sequence)."""
import json
import os
import random

import vlib


def report(ctx, results, wrap=None):
    """Turn harness result lines (verifkit.Result with devs) into ctx.deviation calls.

    Signatures starting with '<ID> harness ' are defects of the harness / driver itself, never a verdict."""
    n = 0
    for r in results:
        for d in r.get("devs", []):
            if " harness " in d["sig"]:
                raise vlib.Inconclusive("harness problem: %s -- %s" % (d["sig"], d["what"]))
            case = r.get("obs")
            if wrap:
                case = wrap(case)
            ctx.deviation(d["sig"], d["what"], case)
            n += 1
    return n


def sub_ctx(ctx, tag="selftest"):
    """A throw-away context for binding self-tests: nothing it records reaches the verdict or the evidence."""
    return vlib.Ctx(ctx.pid, ctx.tier, ctx.seed, replay=tag)


def require_counts(summary, n, what):
    if summary is None or summary.get("cases") != n:
        raise vlib.Inconclusive("%s: harness handled %s of %d cases" % (what, summary and summary.get("cases"), n))


def tla_set(items):
    return "{" + ", ".join('"%s"' % x for x in items) + "}"


def rng_for(ctx, salt):
    return random.Random("%s/%s/%s" % (ctx.pid, ctx.seed, salt))


def stored_finding_cases(pid, kind=None):
    out = []
    for c in vlib.known_replay_cases(pid):
        if kind is None or c.get("kind") == kind:
            out.append(c)
    return out


def drift_note(ctx, summary, label):
    """An exact-expectation mismatch that is not a property violation: the specification's I-level no longer
    describes the code (MODEL-DRIFT).  Recorded, never a verdict."""
    d = summary.get("drift", 0)
    ctx.cov.setdefault("model_drift", 0)
    ctx.cov["model_drift"] += d
    if d:
        ctx.notes.append("MODEL-DRIFT (%s): %d behaviours where the implementation's exact result differs from the "
                         "specification's without violating the property: %s" % (label, d, summary.get("drift_notes")))
        ctx.log("MODEL-DRIFT", label, d, summary.get("drift_notes"))
    u = summary.get("unexamined_after_known", 0)
    ctx.cov.setdefault("unexamined_after_known", 0)
    ctx.cov["unexamined_after_known"] += u


def capture_tlc(ctx):
    """Keep the TlcResult objects of every ctx.tlc call (validate_traces does not hand them out); returns the list."""
    if getattr(ctx, "_captured", None) is not None:
        return ctx._captured
    ctx._captured = []
    orig = ctx.tlc

    def tlc(*a, **k):
        r = orig(*a, **k)
        ctx._captured.append(r)
        return r
    ctx.tlc = tlc
    return ctx._captured


def reject_reasons(results):
    """<<"REJECT-REASON", tid, ..., why>> tuples printed by a trace specification -> {(tid, ...): why}"""
    import re
    out = {}
    for r in results:
        for p in r.prints:
            if p.startswith('<<"REJECT-REASON"'):
                items = [x.strip().strip('"') for x in p[2:-2].split(",")]
                out[tuple(items[1:-1])] = items[-1]
    return out
