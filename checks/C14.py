"""C14 - prepared-statement parameters are exactly the SQL grammar's placeholders.

Specification: spec/SqlLex.tla (lexical context automaton; Markers(text)), SqlLex_gen.tla (emission).
Binding: G - every text TLC enumerates (all strings over small alphabets up to a length bound, and fragments spliced
into a statement) with the specification's markers is given to the real CalcParams and COM_STMT_PREPARE; reported
count/offsets must be the markers.  The repository's own scanner is run on the same texts as a cross-check of the
automaton (a disagreement is a specification defect: INCONCLUSIVE, never a verdict).
"""
import _stmt
import vlib

MANIFEST = {
    "engine": "tla-sqllex",
    "level_claimed": {
        "category": "model_checking",
        "text": "The TLC state graph is the lexical automaton of MySQL text unrolled over every string of a small "
                "alphabet up to a length bound (full 12-symbol alphabet, a quotes/backslash alphabet, a comments/"
                "back-quote alphabet, and fragments spliced after 'select a from t where b = '); TLC checks the "
                "automaton's consistency properties and emits each text with every '?' classified by lexical context "
                "(Markers = those read in context normal). Every emitted text is given to the real CalcParams and, "
                "as a real packet through the proxy's packet reader and command dispatch, to COM_STMT_PREPARE; a reported count or offset list different from Markers is "
                "a deviation, classified by the context of the misjudged '?' and by which earlier construct the "
                "implementation is known to misread. The repository scanner is cross-checked on every well-formed text.",
        "design_ref": "DESIGN.md section 5 C14, section 4.1 SqlLex",
    },
    "level_note": "Bounded enumeration (full alphabet up to 4 / 5 symbols instead of 6: one TLC state per text, about 7k "
                  "texts/s here; focused alphabets up to 7-8). A text CalcParams refuses reports no parameters and is "
                  "counted, not judged; a text that ends inside a string / quoted identifier / block comment has no "
                  "grammatical reading and is not judged. /*! and /*+ comments, ANSI_QUOTES, NO_BACKSLASH_ESCAPES are "
                  "outside the enumerated alphabets.",
    "technique": "TLA+ lexical automaton enumerated by TLC; expected markers replayed on CalcParams / COM_STMT_PREPARE",
}

FULL = ["a", "?", "'", '"', "`", "\\", "-", " ", "#", "/", "*", "\n"]
STRINGS = ["a", "?", "'", '"', "\\"]
COMMENTS = ["?", "'", "`", "-", " ", "#", "/", "*", "\n"]
# literals in every escape form (escaped quote, escaped backslash directly before the closing quote, doubled quote, the
# other quote character inside), comment openers / closers, plain tokens
FRAGS = ["?", "'q'", '"q"', "`c`", "'\\''", "'\\\\'", '"\\\\"', "''''", "'\"'", "''", " -- ", "#", "/*", "*/", "\n",
         " and c = ", "a", "'", "\\"]
CORE = [w for w in FRAGS if w not in ('"q"', '"\\\\"', "''", "#", " and c = ", "a", "'", "\\")]
PREFIX = "select a from t where b = "

XCHECK = ["parser/sqllex_test.go"]
XCHECK_RUN = "^TestVerifSqlLexSplit$"
CALC = [_stmt.FIX, "proxy/server/stmt_lex_test.go"]
CALC_RUN = "^TestVerifCalcParams$"


def run(ctx):
    thorough = ctx.thorough
    ctx.assumptions += [
        "one symbol = one byte; default sql_mode (backslash escapes on, ANSI_QUOTES off)",
        "the reference for 'the SQL grammar's placeholders' is the lexical automaton, cross-checked against the repository's "
        "own scanner (parser/lexer.go) on every enumerated well-formed text",
    ]
    if ctx.replay:
        rec = ctx.read_ndjson(ctx.replay)[0]["case"]
        _stmt.run_harness(ctx, _stmt.SERVER_PKG, CALC, CALC_RUN, [rec["case"]])
        return

    cf = _stmt.CaseFile(ctx.path("c14.ndjson"))
    for k in _stmt.known_cases("C14"):
        cf.add(k["case"])
    nontriv = [0]

    def keep(c):
        if c["wf"] and any(q[1] != "N" for q in c["qs"]) or (c["wf"] and c["m"] and any(ch in c["s"] for ch in "'\"`#/-\\")):
            nontriv[0] += 1
        return True

    plans = [dict(words=FULL, maxlen=4, sanity=True, label="full alphabet"),
             dict(words=STRINGS, maxlen=7, label="quotes and backslashes"),
             dict(words=COMMENTS, maxlen=5, label="comments and back-quotes"),
             dict(words=FRAGS, maxlen=24, maxwords=3, prefix=PREFIX, label="fragments spliced into a statement"),
             dict(words=CORE, maxlen=28, maxwords=4, prefix=PREFIX, label="literal forms and comments spliced into a statement")]
    if thorough:
        plans = [dict(words=FULL, maxlen=5, label="full alphabet"),
                 dict(words=FULL, maxlen=3, sanity=True, label="full alphabet, automaton sanity invariants"),
                 dict(words=STRINGS, maxlen=8, label="quotes and backslashes"),
                 dict(words=COMMENTS, maxlen=6, label="comments and back-quotes"),
                 dict(words=FRAGS, maxlen=30, maxwords=4, prefix=PREFIX, label="fragments spliced into a statement"),
                 dict(words=FRAGS[:10], maxlen=34, maxwords=5, prefix=PREFIX, label="fragments spliced into a statement, 5 fragments")]
    for p in plans:
        r = _stmt.sqllex_generate(ctx, cf, p["words"], p["maxlen"], prefix=p.get("prefix", ""), sanity=p.get("sanity", False),
                                  maxwords=p.get("maxwords"), label=p["label"], keep=keep)
        ctx.sample({"alphabet": p["words"], "prefix": p.get("prefix", ""), "maxlen": p["maxlen"], "texts": r.distinct})

    # cross-check of the automaton against the repository's scanner (raises Inconclusive on disagreement)
    res, summ = _stmt.run_harness(ctx, _stmt.PARSER_PKG, XCHECK, XCHECK_RUN, cf, env={"VERIF_LEX_MODE": "xcheck"})
    ctx.cov["scanner_crosscheck"] = {k: v for k, v in summ.items() if isinstance(v, int)}
    ctx.cov["evaluations"] -= summ["cases"]
    ctx.cov["traces_validated_against_impl"] -= summ["cases"]
    # the implementation
    res, summ = _stmt.run_harness(ctx, _stmt.SERVER_PKG, CALC, CALC_RUN, cf)
    _stmt.merge_stats(ctx, "calcparams_counters", summ)
    ctx.log("CalcParams: examined", summ["cases"], {k: v for k, v in summ.items() if isinstance(v, int)})
    if not summ.get("judged_with_markers"):
        raise vlib.Inconclusive("no text with markers was judged")
    ctx.cov["distinct_nontrivial"] = nontriv[0]
    ctx.cov["rule"] = ("distinct texts enumerated by TLC; non-trivial = well-formed text with a '?' inside a string / quoted "
                       "identifier / comment, or with a marker and at least one quote / back-quote / comment / backslash character")

    # binding self-test: a corrupted expectation must be flagged
    bad = {"s": "a = ? and b = '?'", "wf": True, "m": [4, 15], "qs": [[4, "N", "none"], [15, "N", "none"]], "pc": [], "sp": []}
    r1, _, _ = ctx.harness(_stmt.SERVER_PKG, CALC, CALC_RUN, [bad])
    caught = any(d["sig"].startswith("C14 missed") for r in r1 for d in r.get("devs", []))
    ctx.cov["binding_selftest"] = {"corrupted_markers_detected": caught}
    if not caught and not ctx.violations:
        raise vlib.Inconclusive("binding self-test failed: corrupted markers were accepted")
