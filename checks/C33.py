"""C33 - stored configurations round-trip exactly and stay inside the storage area
(models/namespace.go, util/crypto/xaes_ecb.go, models/store.go, models/local_client.go).

Specification: spec/ConfigStore.tla - (1) Pad / Unpad exactly as written, on byte sequences; (2) the save / load pipeline
of the protected fields with the block cipher as an abstract bijection per key; (3) filepath.Join + safeJoinPath +
FullNamespacePath on sequences of path segments, with the property "not rejected => inside the storage root".
ConfigStore_gen.tla enumerates the cases with the specification's expected outcome.
spec/ConfigSync.tla - the proxy side: Sync (persist what the coordinator holds, return it decrypted), LoadLocal (the local copy
alone), LoadCoord, with the round-trip property per load; bound to the real SyncNamespaces / loadNamespacesFromClient /
LoadDecryptNamespaces of proxy/server.
Binding: G on the real Namespace.Verify/Encrypt/Encode -> Store.UpdateNamespace -> LoadNamespace over an in-memory
client, the LocalClient and the file client; path confinement observed by walking a scratch sandbox around the
LocalClient's storage root before and after every operation.
"""
import copy
import json
import os

import vlib
import _control as K

MANIFEST = {
    "engine": "tla-configstore",
    "level_claimed": {
        "category": "model_checking",
        "text": "TLC decides over all byte sequences up to a length bound (small block size) that Unpad(Pad(s)) = s, that "
                "Unpad never slices out of range, and that encrypt-then-decrypt with the same key is the identity on the "
                "block/padding structure; over all namespace names of up to 3 segments from 9-13 segment classes ('..', '.', "
                "empty, absolute, '..a', blanks, forbidden and unusual characters, over-long) and 4 coordinator-root classes "
                "that the path the local client resolves lies inside its storage root or is refused (before fix 894f0d4 TLC "
                "found the escape for names resolving to the root itself; the stored cases keep watching it).  Every enumerated case carries the specification's expected "
                "outcome and is replayed on the real Verify/Encrypt/Encode/Store/LocalClient/file-client code.  All sequences of "
                "save / sync / load-from-local-copy / load-from-coordinator (control-plane and proxy key classes) are model "
                "checked and replayed on the real SyncNamespaces and the manager's fall-back to the local copy.",
        "design_ref": "DESIGN.md section 5 C33, section 4.1 ConfigStore",
    },
    "level_note": "AES itself is an abstract function (a bijection on blocks per key) in the specification; the harness "
                  "instantiates it with the standard library's crypto/aes to build ciphertexts with a chosen last plaintext "
                  "byte - the standard library is the trusted base.  base64 and JSON are abstract injections in the "
                  "specification; their concrete behaviour (invalid UTF-8, quotes, backslashes) is what the replay observes.  "
                  "The padding model uses block size 3-4 instead of 16 for model checking; the replayed ciphertext classes use "
                  "16.  The file client cannot write (Update is a no-op): its round trip places the encoded namespace where it "
                  "reads.  Writes that would leave even the scratch sandbox are detected through 'success but no file appears "
                  "in the observed tree', not by walking the whole file system.  Symbolic links are not considered.",
    "technique": "TLA+ spec + TLC exhaustive check; TLC-enumerated cases with expected outcome replayed on the real "
                 "models / crypto code",
}

CFG = """SPECIFICATION %(spec)s
CONSTANTS
  BS = %(bs)d
  Bytes = {%(bytes)s}
  MaxLen = %(maxlen)d
  Segs = %(segs)s
  MaxSegs = %(maxsegs)d
  Prefixes = {"none", "abs", "rel", "deep"}
%(extra)s
INVARIANTS %(inv)s
CHECK_DEADLOCK FALSE
"""
SEGS_Q = ["a", "b", "..", ".", "", "..a", "a b", "<x", "LONG"]
SEGS_T = SEGS_Q + ["ü", "a\\\\b", "...", "q?"]
SYNC_CFG = """SPECIFICATION %(spec)s
CONSTANTS
  BS = 4
  Bytes = {0, 1}
  MaxLen = 1
  Segs = {"a"}
  MaxSegs = 1
  Prefixes = {"none"}
  SaveKeys = {"k16", "k32"}
  ProxyKeys = {"k16", "k32", "k24"}
  SyncClasses = %(classes)s
  MaxVer = %(maxver)d
%(extra)s
INVARIANTS %(inv)s
CHECK_DEADLOCK FALSE
"""
SYNC_HARNESS = ["proxy/server/configsync_test.go"]
HARNESS = ["models/configstore_test.go"]
PKG = "models"
RUN = "^TestVerifConfigStore$"


def cfg(spec="Spec", bs=4, byts=(0, 1, 4, 5, 9), maxlen=5, segs=SEGS_Q, maxsegs=3, inv="PaddingOK RoundTripOK PathsOK", extra=""):
    return CFG % dict(spec=spec, bs=bs, bytes=", ".join(str(b) for b in byts), maxlen=maxlen, segs=K.tla_set(segs), maxsegs=maxsegs,
                      inv=inv, extra=extra)


def gen(ctx, kind, segs, maxsegs):
    r = ctx.tlc("ConfigStore_gen", "cs_gen.cfg", workers=1, timeout=900,
                extra_files={"cs_gen.cfg": cfg(spec="GenSpec", byts=(0, 1), maxlen=1, segs=segs, maxsegs=maxsegs, inv="Emit",
                                               extra='  GenKind = "%s"' % kind)},
                label="cases: %s" % kind)
    if not r.cases:
        raise vlib.Inconclusive("no %s cases generated" % kind)
    def norm(x):
        # the backslash of the segment class a\b reaches here doubled (configuration-file escaping): one backslash is meant
        if isinstance(x, str):
            return x.replace("\\\\", "\\")
        if isinstance(x, list):
            return [norm(y) for y in x]
        if isinstance(x, dict):
            return {k: norm(v) for k, v in x.items()}
        return x
    return [norm(c) for c in r.cases] if kind == "path" else r.cases


def replay(ctx, cases, label, pkg=PKG, harness=None, run=RUN):
    scratch = ctx.path("sandbox")
    os.makedirs(scratch, exist_ok=True)
    for c in cases:
        c.setdefault("seed", ctx.seed)
    res, summ, out = ctx.harness(pkg, harness or HARNESS, run, cases, env={"VERIF_SCRATCH": scratch}, timeout=2400)
    K.require_counts(summ, len(cases), label)
    K.report(ctx, res, wrap=lambda obs: {"kind": "case", "case": obs})
    ctx.cov["evaluations"] += summ["cases"]
    ctx.cov["traces_validated_against_impl"] += summ["cases"]
    ctx.cov.setdefault("operations_on_real_code", 0)
    ctx.cov["operations_on_real_code"] += summ["operations"]
    if "syncs" in summ:
        ctx.cov.setdefault("cases_replayed_by_kind", {}).setdefault("sync-behaviours", 0)
        ctx.cov["cases_replayed_by_kind"]["sync-behaviours"] += summ["cases"]
    for k, v in summ.get("by_kind", {}).items():
        ctx.cov.setdefault("cases_replayed_by_kind", {}).setdefault(k, 0)
        ctx.cov["cases_replayed_by_kind"][k] += v
    K.drift_note(ctx, summ, label)
    return res, summ


def run(ctx):
    thorough = ctx.thorough
    rng = K.rng_for(ctx, "c33")
    ctx.assumptions += [
        "the block cipher is a bijection on blocks per key (crypto/aes is trusted)",
        "the storage root contains no symbolic links",
    ]
    if ctx.replay:
        rec = ctx.read_ndjson(ctx.replay)[0]
        if rec["case"].get("kind") == "sync":
            replay(ctx, [rec["case"]["case"]], "replay", pkg="proxy/server", harness=SYNC_HARNESS, run="^TestVerifConfigSync$")
        else:
            replay(ctx, [rec["case"]["case"]], "replay")
        return

    # 1. TLC decides the three properties on the specification
    mcs = [dict(bs=4, maxlen=5, segs=SEGS_Q)]
    if thorough:
        mcs = [dict(bs=4, maxlen=7, segs=SEGS_T), dict(bs=3, byts=(0, 1, 3, 4, 8), maxlen=7, segs=SEGS_Q), dict(bs=2, byts=(0, 1, 2, 3, 7), maxlen=6, segs=SEGS_Q)]
    for m in mcs:
        r = ctx.tlc("ConfigStore", "cs.cfg", extra_files={"cs.cfg": cfg(**m)}, timeout=1500, heap="8g",
                    label="padding, round trip, confinement %s" % {k: v for k, v in m.items() if k != "segs"})
        ctx.log("mc", {k: v for k, v in m.items() if k != "segs"}, r.stats(), "%.1fs" % r.wall)
    ctx.cov["design_level_results"] = {"PadRoundTrip, UnpadTotal, SeqRoundTrip, Confined": "hold"}

    # 2. G: the enumerated cases on the real code
    segs = SEGS_T if thorough else SEGS_Q
    paths = gen(ctx, "path", segs, 3)
    rts = gen(ctx, "roundtrip", SEGS_Q, 1)
    decs = gen(ctx, "decrypt", SEGS_Q, 1)
    ctx.cov["cases_generated"] = {"path": len(paths), "roundtrip": len(rts), "decrypt": len(decs)}
    outside = [c for c in paths if not c["expect"]["inside"]]
    inside = [c for c in paths if c["expect"]["inside"]]
    if not thorough:
        # the names the resolution refuses as traversal, and the ones that leave the root, are always replayed
        must = [c for c in inside if c["expect"]["loc"]["why"] == "traversal"]
        rest = [c for c in inside if c["expect"]["loc"]["why"] != "traversal"]
        inside = must + rng.sample(rest, min(len(rest), 450))
        # every field-class assignment at least once with a valid key, the rest sampled
        by_cfg = {}
        for c in rts:
            if c["case"]["key"] in ("k16", "k24", "k32"):
                by_cfg.setdefault(json.dumps(c["case"]["cfg"], sort_keys=True), []).append(c)
        picked = [rng.choice(v) for k, v in sorted(by_cfg.items())]
        ids = {id(c) for c in picked}
        rest = [c for c in rts if id(c) not in ids]
        rts = picked + rng.sample(rest, min(len(rest), 200))
    nontriv = set()
    for c in outside + inside:
        n = c["case"]["name"]
        if any(s in ("..", ".", "", "LONG", "<x", "q?") for s in n):
            nontriv.add(json.dumps(c["case"], sort_keys=True))
    for c in rts:
        if any(v != "plain" for v in c["case"]["cfg"].values()) or c["case"]["other"] != "plain":
            nontriv.add(json.dumps(c["case"], sort_keys=True))
    for c in decs:
        nontriv.add(json.dumps(c["case"], sort_keys=True))
    cases = [copy.deepcopy(c["case"]) for c in K.stored_finding_cases("C33", "case")] + outside + inside + rts + decs
    ctx.sample(outside[0] if outside else inside[0])
    ctx.sample(rts[0])
    ctx.sample(decs[0])
    ctx.cov["distinct_nontrivial"] = len(nontriv)
    ctx.cov["rule"] = ("cases = (coordinator root class, namespace name as segment sequence) / (key class, field class assignment, "
                       "unprotected field class) / ciphertext class, enumerated by TLC; non-trivial = a name with a special segment "
                       "('..', '.', empty, over-long, forbidden character), a configuration with a non-plain field, or any ciphertext class; counted over the replayed cases")
    replay(ctx, cases, "enumerated cases")

    # 3. the proxy side: coordinator -> SyncNamespaces -> local copy -> load from the local copy alone (ConfigSync)
    classes = ["plain", "len16", "nonutf8", "quote"] if not thorough else ["plain", "len15", "len16", "len17", "nonutf8", "quote", "long", "empty"]
    r = ctx.tlc("ConfigSync", "sync.cfg", timeout=900, coverage=True,
                extra_files={"sync.cfg": SYNC_CFG % dict(spec="SSpec", classes=K.tla_set(classes), maxver=3 if not thorough else 4, extra="",
                                                         inv="LoadRoundTrip LocalIsCopy LocalNotNewer")},
                label="save / sync / load-local / load-coordinator, all sequences")
    ctx.log("mc ConfigSync", r.stats())
    if r.zero_actions:
        ctx.notes.append("vacuous actions in ConfigSync: %s" % r.zero_actions)
    r = ctx.tlc("ConfigSync_gen", "syncgen.cfg", workers=1, timeout=900,
                extra_files={"syncgen.cfg": SYNC_CFG % dict(spec="GSpec", classes=K.tla_set(["plain", "len16", "nonutf8", "quote"]), maxver=3,
                                                            extra="  GenLen = %d" % (3 if not thorough else 4), inv="Emit LoadRoundTrip")},
                label="sync behaviours")
    behs = r.cases
    if not behs:
        raise vlib.Inconclusive("no sync behaviours generated")

    def local_after_sync(c):
        seen = False
        for e in c["events"]:
            if e["act"] == "sync":
                seen = True
            elif e["act"] == "loadlocal" and seen and e["st"] == "data":
                return True
        return False
    must = [c for c in behs if local_after_sync(c)]
    rest = [c for c in behs if not local_after_sync(c)]
    if thorough:
        must = rng.sample(must, min(len(must), 2500))
    sel = must + rng.sample(rest, min(len(rest), 150 if not thorough else 1500))
    sel = [copy.deepcopy(c["case"]) for c in K.stored_finding_cases("C33", "sync")] + sel
    ctx.cov["sync_behaviours"] = {"generated": len(behs), "replayed": len(sel), "with_load_from_the_local_copy_after_a_sync": len(must)}
    ctx.cov["distinct_nontrivial"] += len(must)
    ctx.cov["rule"] += "; sync behaviours: non-trivial = a load from the local copy alone, with the saving key, after a sync"
    ctx.sample(must[0])
    res, summ, out = ctx.harness("proxy/server", SYNC_HARNESS, "^TestVerifConfigSync$", [dict(c, seed=ctx.seed) for c in sel],
                                 env={"VERIF_SCRATCH": ctx.path("sandbox")}, timeout=2400)
    K.require_counts(summ, len(sel), "sync behaviours")
    K.report(ctx, res, wrap=lambda obs: {"kind": "sync", "case": obs})
    ctx.cov["evaluations"] += summ["cases"]
    ctx.cov["traces_validated_against_impl"] += summ["cases"]
    ctx.cov["operations_on_real_code"] += summ["operations"]
    ctx.cov.setdefault("cases_replayed_by_kind", {})["sync-behaviours"] = summ["cases"]
    K.drift_note(ctx, summ, "sync behaviours")

    # 4. binding self-test: a corrupted expected location must be noticed
    bad = copy.deepcopy(next(c for c in inside if c["expect"]["loc"]["ok"]))
    bad["expect"]["loc"]["base"] = "somewhere_else"
    sub = K.sub_ctx(ctx)
    try:
        scratch = sub.path("sandbox")
        os.makedirs(scratch, exist_ok=True)
        res, summ, _ = sub.harness(PKG, HARNESS, RUN, [bad], env={"VERIF_SCRATCH": scratch})
        caught = summ.get("drift", 0) > 0 or any(r.get("devs") for r in res)
    finally:
        sub.cleanup()
    ctx.cov["binding_selftest"] = {"corrupted_expectation_detected": caught}
    if not caught:
        raise vlib.Inconclusive("binding self-test failed: a corrupted expected location was accepted")
