"""C20 - session settings never leak between clients sharing pooled connections.

Specification: spec/SessionVars.tla (requested / believed / actual settings; the synchronisation algorithm of
InitializeSessionVariables, SyncSessionVariables, SetEqualsWith, WriteSetStatement, Reset as written),
SessionVars_gen.tla (behaviours with expectations), SessionVars_trace.tla (property-level trace validation).
Binding: G - TLC behaviours replayed through the real SessionExecutor -> Slice -> connection pool -> DirectConnection
against an in-process fake MySQL endpoint; V - what the fake saw, validated by TLC.
"""
import copy
import json
import random

import _vars as V

MANIFEST = {
    "engine": "tla-sessionvars",
    "level_claimed": {
        "category": "model_checking",
        "text": "TLC exhaustively checks, within small constants (2-3 clients, pool of 1-2 connections, character set/collation, "
                "2 session variables, a user variable, values {default,a,b}), that the proxy's synchronisation algorithm as "
                "written (SetCharset, three-case SetEqualsWith, full SET text with unused -> DEFAULT, Reset) makes every "
                "statement run with exactly its client's requested settings on every backend session that never refused a "
                "SET, and produces the design-level counterexample for sessions that did; behaviours enumerated and sampled "
                "by TLC (SET NAMES / SET var / SET var = DEFAULT / user variables, overlapping statements, BEGIN..COMMIT, "
                "refused SETs) are replayed through the real SessionExecutor, Slice, connection pool and DirectConnection "
                "against a fake MySQL endpoint that applies or atomically refuses the SET text, comparing at every statement "
                "the settings the backend session carried with the specification's expectation; the recorded backend/client "
                "event traces are validated by TLC with the property as invariant.",
        "design_ref": "DESIGN.md section 5 C20, section 4.1 SessionVars, section 6",
    },
    "level_note": "Full proxy-side path: SessionExecutor.ExecuteCommand(COM_QUERY) -> handleSet*/doQuery -> unshard plan -> "
                  "backend.Slice -> real connectionPoolImpl/util.ResourcePool (capacity 1-3) -> real DirectConnection over "
                  "loopback TCP to an in-process fake MySQL 5.7 endpoint (handshake, COM_QUERY OK/ERR, COM_INIT_DB, COM_PING). "
                  "The fake applies a SET atomically or refuses it atomically (MySQL 8 semantics); partial application, result "
                  "sets, prepared statements, sharded multi-slice statements, keep-session mode, autocommit=0 and the "
                  "tx_read_only rename for MySQL >= 8.0.3 are not exercised.  After a refused SET the proxy deliberately forgets "
                  "the client's user variables and variables unknown to mysql.variableVerifyFuncMap (SessionVariables.Reset); "
                  "the check takes the settings the session still tracks as the client's current settings (kept or forgotten "
                  "are both accepted for those names, built-in variables and the character set must survive).",
    "technique": "TLA+ spec + TLC exhaustive check; TLC-generated behaviours replayed on the real session/pool/connection "
                 "stack against a fake MySQL endpoint; recorded traces validated by TLC",
}

TZ, SSL, GCM, LWT, SQM = "time_zone", "sql_select_limit", "group_concat_max_len", "lock_wait_timeout", "sql_mode"
WEAK = ["TypeOK", "NoLeakOnCleanConn", "BelievedIsActual", "UnusedDrained", "PoolSound"]
STRONG = WEAK + ["NoLeak"]


def inconclusive(msg):
    import vlib
    return vlib.Inconclusive(msg)


def add_names(cases, p):
    names = V.names_of(p)
    for c in cases:
        c["names"] = names
        c["fam"] = {"sys": p["sys"], "ext": p.get("ext", []), "user": p["user"], "sqlmode": p.get("sqlmode", []),
                    "cs": p["cs"], "vals": p.get("vals", ["a", "b"])}
    return cases


def replay(ctx, cases, label, validate_every=1, selftest_from=None):
    """G: replay on the real stack.  V: validate the recorded traces.  Returns (results by case index, summary, trace lines)."""
    tp = ctx.path("trace-%s.ndjson" % label)
    res, summ, out = ctx.harness(V.PKG, V.HARNESS, V.RUN, cases, timeout=2400,
                                 env={"VERIF_TRACE_OUT": tp, "VERIF_C20_LOGDIR": ctx.path("logs")})
    if summ["cases"] != len(cases):
        raise inconclusive("harness replayed %d of %d cases" % (summ["cases"], len(cases)))
    lines = [e for e in ctx.read_ndjson(tp) if not e.get("summary")]
    return res, summ, lines


def judge(ctx, res, cases, upto):
    """turn harness results of cases[0:upto] into deviations / drift counts"""
    drift = {}
    for r in res:
        if r["case"] >= upto:
            continue
        for t in r.get("tags", []):
            if t.startswith("drift:"):
                k = t.split(":")[1].strip()
                drift[k] = drift.get(k, 0) + 1
        for d in r.get("devs", []):
            if d["sig"].startswith("C20 harness"):
                raise inconclusive("harness problem: %s: %s" % (d["sig"], d["what"][:600]))
            c = copy.deepcopy(cases[r["case"]])
            ctx.deviation(d["sig"], d["what"], c)
    return drift


def validate(ctx, lines, cases, upto, jobs):
    """V: let TLC validate the recorded traces (one configuration knows every name the generators use)"""
    ls = [e for e in lines if e["t"] < upto]
    ok, rej = V.validate_parallel(ctx, "SessionVars_trace", "sv_trace.cfg", V.trace_cfg(), ls, jobs=jobs)
    for rj in rej:
        ev = rj["event"]
        sig = "C20 trace: statement ran with settings other than requested on a session without refused SET" \
            if ev.get("ev") == "exec" else "C20 trace rejected at %s" % ev.get("ev")
        ctx.deviation(sig, "TLC rejects the recorded trace at event %d: %s" % (rj["index"], json.dumps(ev)[:400]),
                      {"trace": rj["events"], "case": cases[rj["trace"]] if rj["trace"] < len(cases) else None})
    return ok


def run(ctx):
    import vlib
    thorough = ctx.thorough
    rng = random.Random(ctx.seed)
    jobs = 4
    ctx.assumptions += [
        "the backend applies or refuses a whole SET statement atomically; refusals are injected by the case, not derived from values",
        "idle pooled connections are reused in FIFO order (util.ResourcePool channel); a mismatch is counted as model drift, not as a violation",
        "one default database, one slice, master only; the statement itself always succeeds",
        "after a refused SET the settings the session still tracks are the client's current settings; forgetting user variables / "
        "variables unknown to the verify map (SessionVariables.Reset) is accepted, built-in variables and the character set must survive",
    ]

    if ctx.replay:
        rec = ctx.read_ndjson(ctx.replay)[0]
        c = rec["case"]
        if "events" in c:
            res, summ, lines = replay(ctx, [c], "replay")
            judge(ctx, res, [c], 1)
            validate(ctx, lines, [c], 1, 1)
        elif "trace" in c:
            ok, rej = ctx.validate_traces("SessionVars_trace", "sv_trace.cfg", c["trace"], cfg_text=V.trace_cfg())
            for rj in rej:
                ctx.deviation(rec["signature"], "replayed trace rejected at event %d" % rj["index"], c)
        return

    base = dict(clients=2, nconns=1, sys=[TZ], user=["@u"], cs=["d", "a", "b"])

    # ---- 1. design level: exhaustive model checking -------------------------------------------------
    mcs = [
        ("no refusal: every statement runs with the requested settings", dict(base, sets=3, stmts=3), STRONG),
        ("refusals: property on sessions without refused SET + bookkeeping invariants",
         dict(base, sets=3, stmts=3, fails=["reject"], maxfails=1), WEAK),
    ]
    if thorough:
        mcs = [
            ("no refusal, 2 connections, transactions", dict(base, nconns=2, sets=3, stmts=3, tx=True), STRONG),
            ("no refusal, two session variables, SET @u = NULL", dict(base, sys=[TZ, SSL], usernull=True, sets=4, stmts=3), STRONG),
            ("no refusal, 3 clients", dict(base, clients=3, sys=[TZ], user=[], sets=4, stmts=3), STRONG),
            ("refusals, 2 connections", dict(base, nconns=2, sets=3, stmts=3, fails=["reject"], maxfails=1), WEAK),
            ("refusals, transactions", dict(base, nconns=2, sets=3, stmts=3, fails=["reject"], maxfails=1, tx=True), WEAK),
            ("refusals incl. sql_mode error, extra variable", dict(base, sys=[SQM], ext=[LWT], sqlmode=[SQM], sets=3, stmts=3,
                                                                 fails=["reject", "sqlmode"], maxfails=2), WEAK),
            ("proposed repair (C20-1.diff), refusals, 2 connections, transactions: unrestricted property",
             dict(base, nconns=2, sets=3, stmts=3, fails=["reject"], maxfails=2, tx=True, repaired=True), STRONG),
        ]
    # every TLC job of steps 1 and 2 is an independent JVM: they run side by side (quick: 2 workers each), and the
    # Go test binary is built meanwhile
    from concurrent.futures import ThreadPoolExecutor
    pool = ThreadPoolExecutor(max_workers=8 if not thorough else 4)
    warm = pool.submit(lambda: ctx.go_test(V.PKG, V.HARNESS, "^TestVerifC20NoSuchTest$", timeout=1800))

    def mc_job(label, p, inv):
        r = ctx.tlc("SessionVars", "sv_mc.cfg", extra_files={"sv_mc.cfg": V.mc_cfg(p, inv)}, coverage=True, workers=2 if not thorough else 4,
                    heap="4g", timeout=1500, label="exhaustive: " + label)
        ctx.log("mc", label, r.stats(), "%.1fs" % r.wall)
        zero = [a for a in r.zero_actions if not (a in ("Begin", "TxFirst", "TxStmt", "TxStmtEnd", "Commit") and not p.get("tx"))]
        if zero:
            ctx.notes.append("vacuous actions in '%s': %s" % (label, zero))
        return r

    def cand_job():
        # the unrestricted property has a design-level counterexample when the backend refuses a SET: a candidate,
        # decided only by the replay below
        return ctx.tlc("SessionVars", "sv_mc.cfg", extra_files={"sv_mc.cfg": V.mc_cfg(dict(base, sets=2, stmts=3, fails=["reject"], maxfails=1), STRONG)},
                       workers=1, heap="2g", timeout=600, allow_violation=True, label="candidate search: NoLeak with refusals")

    mc_futs = [pool.submit(mc_job, label, p, inv) for label, p, inv in mcs]
    cand_fut = pool.submit(cand_job)

    # ---- 2. G: generate behaviours ------------------------------------------------------------------
    # second entry: every sequence of up to two SET statements of one client (all SET NAMES forms, SET var, SET var = DEFAULT)
    # followed by its statements - the settings a session requests as a function of the SET statements it was sent
    bfs = [dict(clients=2, nconns=1, sys=[TZ], user=[], cs=["d", "a"], vals=["a"], fails=["reject"], maxfails=1, len=4, need=2),
           dict(clients=1, nconns=1, sys=[TZ], user=[], cs=["d", "a", "b"], vals=["a"], fails=[], sets=2, len=4, need=1)]
    sims = [
        (dict(clients=2, nconns=2, sys=[TZ, SSL], user=["@u"], cs=["d", "a", "b"], usernull=True, fails=["reject"], maxfails=2, tx=True,
              sets=6, len=14, need=2), 200),
        (dict(clients=3, nconns=1, sys=[TZ], ext=[LWT], user=["@u"], cs=["d", "a", "b"], fails=["reject"], maxfails=2,
              sets=5, len=12, need=2), 120),
    ]
    if thorough:
        bfs = [dict(clients=2, nconns=1, sys=[TZ], user=["@u"], cs=["d", "a"], vals=["a"], fails=["reject"], maxfails=1, len=5, need=2),
               dict(clients=2, nconns=2, sys=[TZ], user=[], cs=["d", "a"], vals=["a"], fails=["reject"], maxfails=1, tx=True, len=5, need=2),
               dict(clients=1, nconns=1, sys=[TZ], user=["@u"], cs=["d", "a", "b", "c"], usernull=True, fails=[], sets=3, len=5, need=1)]
        sims = [
            (dict(clients=2, nconns=2, sys=[TZ, SSL], user=["@u"], cs=["d", "a", "b"], usernull=True, fails=["reject"], maxfails=2, tx=True,
                  sets=6, len=14, need=2), 1000),
            (dict(clients=3, nconns=1, sys=[TZ], ext=[LWT], user=["@u"], cs=["d", "a", "b"], fails=["reject"], maxfails=2,
                  sets=5, len=12, need=2), 700),
            (dict(clients=3, nconns=2, sys=[SQM, GCM], user=["@u", "@w"], sqlmode=[SQM], cs=["d", "a", "b", "c"], fails=["reject", "sqlmode"],
                  maxfails=2, tx=True, sets=7, len=16, need=3), 800),
            (dict(clients=2, nconns=3, sys=[TZ, SSL], ext=[LWT], user=[], cs=["d", "b"], fails=["reject"], maxfails=2, tx=True,
                  sets=5, len=18, need=3), 700),
        ]
    cases = []
    for k in vlib.known_replay_cases("C20"):
        cases.append(copy.deepcopy(k))
    nknown = len(cases)
    def bfs_job(p):
        r = ctx.tlc("SessionVars_gen", "sv_gen.cfg", extra_files={"sv_gen.cfg": V.gen_cfg(p)}, workers=1, heap="4g", timeout=1500,
                    label="generate all behaviours of length %d" % p["len"])
        ctx.log("generated", len(r.cases), "behaviours of length", p["len"], "pool", p["nconns"])
        return add_names(r.cases, p)

    def sim_job(p, num, seed):
        r = ctx.tlc("SessionVars_gen", "sv_gen.cfg", extra_files={"sv_gen.cfg": V.gen_cfg(p)}, workers=1, heap="4g", mode="sim",
                    sim="num=%d" % num, depth=p["len"] + 1, timeout=900, seed=seed, label="simulate length %d" % p["len"])
        if not r.cases:
            raise inconclusive("simulation produced no behaviours")
        ctx.log("simulated", len(r.cases), "behaviours of length", p["len"], "clients", p["clients"], "pool", p["nconns"])
        return add_names(r.cases, p)

    gen_futs = [pool.submit(bfs_job, p) for p in bfs]
    gen_futs += [pool.submit(sim_job, p, num, rng.randrange(1, 2 ** 31)) for p, num in sims]
    for f in mc_futs:
        f.result()
    r = cand_fut.result()
    ctx.cov["design_level_candidate"] = {"invariant": r.violated, "trace_states": r.trace_states}
    if r.violated not in (None, "NoLeak"):
        raise inconclusive("unexpected specification-level failure %s" % r.violated)
    ctx.log("candidate search:", r.violated, "after", r.trace_states, "states")
    for f in gen_futs:
        cs = f.result()
        if len(cs) > 40000:
            rng.shuffle(cs)
            cs = cs[:40000]
        cases += cs
    warm.result()
    pool.shutdown()
    ngen = len(cases)

    # binding self-test cases (appended, judged separately): one expectation corrupted each
    st_cases = []
    for c in cases[nknown:]:
        idx = [i for i, e in enumerate(c["events"]) if e["ev"] in V.START_EVS and e.get("outcome") == "ran" and not e.get("tainted")]
        if idx and not V.has_refusal(c):
            b = copy.deepcopy(c)
            e = b["events"][idx[-1]]
            e["want"]["cs"] = "b" if e["want"]["cs"] != "b" else "a"
            st_cases.append(b)
            if len(st_cases) >= 3:
                break
    allcases = cases + st_cases

    # ---- 3. replay on the real stack, validate the traces ----------------------------------------------
    res, summ, lines = replay(ctx, allcases, "main")
    drift = judge(ctx, res, allcases, ngen)
    ctx.log("replayed", ngen, "behaviours:", {k: summ[k] for k in ("starts", "ran", "rejected", "compared", "known_like")}, "drift", drift)
    expect_ran = sum(1 for c in cases for e in c["events"] if e["ev"] in V.START_EVS and e.get("outcome") == "ran")
    blind = sum(drift.get(k, 0) for k in ("statement-failed-unexpectedly", "client-set-refused-by-proxy", "begin-failed"))
    if blind > 0.1 * ngen:
        raise inconclusive("%d of %d behaviours could not be driven (%s): harness and code no longer fit" % (blind, ngen, drift))
    if expect_ran and summ["ran"] < 0.5 * expect_ran:
        raise inconclusive("only %d of %d expected statements reached the backend: harness and code no longer fit" % (summ["ran"], expect_ran))
    ctx.cov["evaluations"] += summ["compared"]
    ctx.cov["behaviours_replayed"] = ngen
    ctx.cov["statements_compared"] = summ["compared"]
    ctx.cov["refusals_injected"] = summ["rejected"]
    ctx.cov["model_drift"] = drift
    ctx.cov["statements_unexamined_after_drift"] = summ.get("unexamined_after_drift", 0)
    if drift:
        ctx.notes.append("MODEL-DRIFT (no verdict): the code differs from the as-written model in %s" % drift)
    nontriv = set()
    for c in cases:
        if V.nontrivial(c):
            nontriv.add(json.dumps(c["events"], sort_keys=True))
    ctx.cov["distinct_nontrivial"] = len(nontriv)
    ctx.cov["rule"] = ("behaviours = event sequences (SET NAMES / SET var / SET var=DEFAULT / user variable / statement start,end / BEGIN / "
                       "COMMIT / refused SET) emitted by TLC (all of a bounded length for the small alphabet, plus seeded simulation); "
                       "non-trivial = some statement runs on a pooled backend session that last served another client with different "
                       "requested settings, or that refused a SET earlier")
    for c in cases[nknown:]:
        if V.nontrivial(c) and V.has_refusal(c):
            ctx.sample({"nconns": c["nconns"], "events": [{k: v for k, v in e.items() if k in ("ev", "c", "name", "val", "form", "fail", "txfail", "conn", "outcome", "want")}
                                                            for e in c["events"]]}, limit=4)
            if len(ctx.cov["samples"]) >= 4:
                break

    # V: quick validates a sample of the traces, thorough all of them
    limit_lines = 3000 if not thorough else 50000
    keep, n = set(), 0
    order = list(range(ngen))
    rng.shuffle(order)
    by_t = {}
    for e in lines:
        by_t.setdefault(e["t"], []).append(e)
    for t in order:
        ls = by_t.get(t, [])
        if n + len(ls) > limit_lines:
            break
        keep.add(t)
        n += len(ls)
    vlines = [e for e in lines if e["t"] in keep]
    ok = validate(ctx, vlines, allcases, ngen, jobs if thorough else 2)
    ctx.cov["traces_validated_against_impl"] += ok
    ctx.cov["trace_lines_validated"] = len(vlines)
    ctx.log("TLC validated", ok, "recorded traces (", len(vlines), "events )")

    # ---- 4. binding self-test ---------------------------------------------------------------------------
    caught_g = sum(1 for r in res if r["case"] >= ngen and r.get("devs"))
    caught_v = False
    # corrupt one backend event of a trace TLC accepted: drop the first applied SET of a clean trace
    clean = [t for t in sorted(keep) if not V.has_refusal(allcases[t]) and any(e["ev"] == "apply" for e in by_t.get(t, []))]
    if clean:
        t2 = copy.deepcopy(by_t[clean[0]])
        for i, e in enumerate(t2):
            if e["ev"] == "apply":
                del t2[i]
                break
        sub = vlib.Ctx(ctx.pid, ctx.tier, ctx.seed, replay="selftest")
        try:
            okv, rej = sub.validate_traces("SessionVars_trace", "sv_trace.cfg", t2, cfg_text=V.trace_cfg(), max_rejects=1)
            caught_v = len(rej) > 0
        finally:
            sub.cleanup()
    ctx.cov["binding_selftest"] = {"corrupted_expectations": len(st_cases), "corrupted_expectations_detected": caught_g,
                                   "corrupted_trace_rejected": caught_v}
    if not st_cases or caught_g != len(st_cases) or not caught_v:
        raise inconclusive("binding self-test failed: corrupted expectations detected %d/%d, corrupted trace rejected: %s"
                           % (caught_g, len(st_cases), caught_v))
