"""C35 - only allow-listed client addresses can connect (util/ip.go, proxy/server/namespace.go, session.go).

Specification: spec/Auth.tla part 2 (addresses as bit sequences, Canon, PrefixMatch, Allowed) and spec/Auth_allow.tla
(lists built entry by entry; properties over all client addresses).
Binding: G - full-width lists and boundary client addresses emitted by TLC with the specification's verdict, replayed
on parseAllowIps + Namespace.IsClientIPAllowed and Session.IsAllowConnect.
"""
import random

import _wire
import vlib

MANIFEST = {
    "engine": "tla-auth",
    "level_claimed": {
        "category": "model_checking",
        "text": "TLC checks on short symbolic addresses (IPv4 width 2, IPv6 width 4 quick / 5 thorough, mapped prefix = "
                "zeros then ones) for every list of up to 2 entries over all addresses x all prefix lengths x single-address "
                "form x blank entries, and all client addresses of both widths: presentation independence (IPv4 vs "
                "IPv4-mapped), empty list admits all, IPv4 entries never admit genuine IPv6 clients, single address admits "
                "exactly itself, host bits are irrelevant, shorter prefixes admit more, adding an entry never locks out. "
                "The same operators at widths 32/128 emit lists: every entry alone for the prefix lengths at both ends, "
                "around the byte boundaries, at the other family's width (IPv6 /31../33, mapped /95../97) and seeded random ones "
                "(thorough: every prefix length 0..32 and 0..128), pairs over {0,8,31,32} / {0,64,96,104,128} (thorough "
                "{0,1,7,8,9,31,32} / {0,1,63,64,96,104,127,128}), spaces, mapped-form entries, with clients at each prefix "
                "boundary +-1 bit in IPv4, mapped and IPv6 form, replayed on parseAllowIps, Namespace.IsClientIPAllowed and "
                "Session.IsAllowConnect.",
        "design_ref": "DESIGN.md section 5 C35, section 4.1 Auth",
    },
    "level_note": "Whether an IPv4 client lies in an IPv6 block shorter than /96 that covers the mapped range (e.g. ::/0) is "
                  "not settled by the property text: the specification tolerates both answers (counted as 'either'). "
                  "Entry text is produced by the harness from the bits (dotted quad, eight hex groups, ::ffff:a.b.c.d); "
                  "compressed '::' forms other than the mapped one, zones and malformed entries are not enumerated. Lists "
                  "have at most 2 entries (thorough: 3 over a reduced entry set). models.Namespace.Verify is not exercised.",
    "technique": "TLA+ spec + TLC exhaustive check on short bit strings; TLC-emitted full-width cases replayed on the real allow-list",
}

CFG = """SPECIFICATION Spec
CONSTANTS
  W4 = %(w4)d
  W6 = %(w6)d
  MapZeros = %(mz)d
  Bases4 <- %(b4)s
  Bases6 <- %(b6)s
  PLens4 = {%(p4)s}
  PLens6 = {%(p6)s}
  PairLens4 = {%(q4)s}
  PairLens6 = {%(q6)s}
  MaxEntries = %(maxe)d
  CheckAll = %(all)s
  EmitCases = %(emit)s
INVARIANTS %(invs)s
%(props)s
CHECK_DEADLOCK FALSE
"""

XMOD = """---- MODULE Auth_allow_x ----
EXTENDS Auth_allow
XB4 == %s
XB6 == %s
====
"""

HARNESS = ["proxy/server/allow_test.go", "proxy/server/authcommon_test.go"]
RUN = "^TestVerifAllowList$"
PKG = "proxy/server"


def bits(n, w):
    return _wire.tla_seq([(n >> (w - 1 - i)) & 1 for i in range(w)])


def ints(xs):
    return ", ".join(str(x) for x in xs)


def small_cfg(w6, mz, maxe):
    return CFG % {"w4": 2, "w6": w6, "mz": mz, "b4": "All4", "b6": "All6", "p4": ints(range(0, 3)),
                  "p6": ints(range(0, w6 + 1)), "q4": ints(range(0, 3)), "q6": ints(range(0, w6 + 1)), "maxe": maxe, "all": "TRUE", "emit": "FALSE",
                  "invs": "TypeOK PresentationIndependent EmptyAllowsAll FamilySeparation EntryLaws Emit",
                  "props": "PROPERTY Monotone"}


def full_cfg(p4, p6, maxe, q4=None, q6=None):
    return CFG % {"w4": 32, "w6": 128, "mz": 80, "b4": "XB4", "b6": "XB6", "p4": ints(sorted(set(p4))), "p6": ints(sorted(set(p6))),
                  "q4": ints(sorted(set(q4 if q4 is not None else p4))), "q6": ints(sorted(set(q6 if q6 is not None else p6))),
                  "maxe": maxe, "all": "FALSE", "emit": "TRUE",
                  "invs": "TypeOK PresentationIndependent Emit", "props": ""}


def corrupt(c):
    for cl in c["clients"]:
        if cl["verdict"] == "allow":
            cl["verdict"] = "deny"
            return c
    raise vlib.Inconclusive("self-test case has no allowed client")


def run(ctx):
    ctx.assumptions += [
        "an address is its bit string; IPv4-mapped = 80 zero bits, 16 one bits, the IPv4 bits",
        "entries consisting of spaces only are ignored (a list of such entries is an empty list)",
    ]
    if ctx.replay:
        rec = ctx.read_ndjson(ctx.replay)[0]
        _wire.replay(ctx, PKG, HARNESS, RUN, [rec["case"]])
        return
    rng = random.Random(ctx.seed)

    # 1. exhaustive on short symbolic bit strings
    mcs = [("W4=2 W6=4 mapped=0,1 lists<=2", small_cfg(4, 1, 2))]
    if ctx.thorough:
        mcs = [("W4=2 W6=5 mapped=0,0,1 lists<=2", small_cfg(5, 2, 2)), ("W4=2 W6=4 mapped=1,1 (no zero bits) lists<=2", small_cfg(4, 0, 2))]
    for label, text in mcs:
        r = ctx.tlc("Auth_allow", "al_mc.cfg", coverage=True, timeout=1500, workers=4 if not ctx.thorough else "auto",
                    extra_files={"al_mc.cfg": text}, label=label)
        ctx.log("mc", label, r.stats(), "%.1fs" % r.wall)
        if r.zero_actions:
            ctx.notes.append("vacuous actions (%s): %s" % (label, r.zero_actions))

    # 2. full-width cases
    a4 = [rng.getrandbits(32) | (1 << 31), rng.getrandbits(31)]
    a6 = [rng.getrandbits(128) | (1 << 125), (0xffff << 32) | a4[0]]
    # prefix lengths: both ends, byte boundaries +-1, the other family's width (an IPv6 /32, an IPv4-mapped /96 ..), and
    # seeded random ones; every entry is a list of its own, lists of two entries are built from the pair lengths
    pair4 = [0, 1, 7, 8, 9, 31, 32]
    pair6 = [0, 1, 63, 64, 96, 104, 127, 128]
    if ctx.thorough:
        plans = [(a4, a6, range(0, 33), range(0, 129), pair4, pair6, 2)]
        b4 = [rng.getrandbits(32) for _ in range(2)]
        plans.append((b4, [rng.getrandbits(128), (0xffff << 32) | b4[1], rng.getrandbits(64)], pair4, pair6, pair4, pair6, 2))
        plans.append(([a4[1]], [a6[0], a6[1]], [0, 8, 31], [0, 64, 96, 104, 128], None, None, 3))
        plans.append(([a4[0]], [a6[1]], [1, 9, 32], [1, 32, 127], None, None, 4))
    else:
        p4 = [0, 1, 7, 8, 9, 15, 16, 17, 24, 31, 32] + [rng.randrange(2, 31) for _ in range(2)]
        p6 = [0, 1, 8, 31, 32, 33, 48, 63, 64, 65, 95, 96, 97, 104, 120, 127, 128] + [rng.randrange(2, 127) for _ in range(3)]
        plans = [(a4, a6, p4, p6, [0, 8, 31, 32], [0, 64, 96, 104, 128], 2)]
    cases = []
    for (x4, x6, l4, l6, pl4, pl6, maxe) in plans:
        xmod = XMOD % (_wire.tla_set([bits(a, 32) for a in x4]), _wire.tla_set([bits(a, 128) for a in x6]))
        r = ctx.tlc("Auth_allow_x", "al_gen.cfg", workers=1, timeout=1500,
                    extra_files={"Auth_allow_x.tla": xmod, "al_gen.cfg": full_cfg(l4, l6, maxe, pl4, pl6)},
                    label="emit full-width lists (<= %d entries) with boundary clients" % maxe)
        if not r.cases:
            raise vlib.Inconclusive("TLC emitted no allow-list cases")
        ctx.log("emitted", len(r.cases), "lists", "%.1fs" % r.wall)
        cases += r.cases
    known = vlib.known_replay_cases(ctx.pid)
    good = next(c for c in cases if len(c["list"]) == 1 and c["list"][0]["fam"] == 4 and c["list"][0]["plen"] == 8
                and c["list"][0]["cidr"])
    res, summ = _wire.replay(ctx, PKG, HARNESS, RUN, cases + known,
                             selftests=[("corrupted_verdict_detected", good, corrupt)])
    ctx.log("replayed", summ)
    ctx.cov["traces_validated_against_impl"] += summ["cases"]
    ctx.cov["client_decisions_compared"] = summ["allow"] + summ["deny"]
    ctx.cov["client_decisions_unconstrained"] = summ["either"]
    nontriv = set()
    for c in cases:
        vs = {cl["verdict"] for cl in c["clients"]}
        if "allow" in vs and "deny" in vs:
            nontriv.add(str(c["list"]))
    ctx.cov["distinct_nontrivial"] = len(nontriv)
    ctx.cov["rule"] = ("case = allow-list with its boundary clients; non-trivial = the list admits at least one of its clients "
                       "and denies at least one")
    two = [c for c in cases if len(c["list"]) == 2 and str(c["list"]) in nontriv]
    for c in two[:2]:
        ctx.sample(c)
