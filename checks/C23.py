"""C23 - Keep-session clients stay pinned to their backend connections.

Specification: spec/SessionConn.tla, SessionConn_gen.tla, SessionConn_trace.tla (shared with the other two properties of
the family; see checks/_sessionconn.py).  Binding: G (TLC behaviours replayed on the real Session / SessionExecutor over
fake pools, projection compared after every command, ledger monitors) and V (ledgers validated by TLC).
Only deviations whose signature starts with "C23" are verdicts of this check.
"""
import _sessionconn as sc

MANIFEST = sc.manifest("C23", "C23: with keep-session every statement runs on the pinned connection of its slice; pinned connections are released at disconnect, dropped after a namespace change outside a transaction, and a client inside a transaction is refused and disconnected.")


def run(ctx):
    sc.Family(ctx).run()
