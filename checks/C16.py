"""C16 - prepared statements are isolated and never reuse stale parameters.

Specification: spec/StmtLifecycle.tla (statement table of one session, properties on the command history),
StmtLifecycle_gen.tla (behaviour emission).
Binding: G - every behaviour TLC enumerates (all command sequences up to a length bound, plus seeded simulation of
longer ones) is replayed on a real SessionExecutor through ExecuteCommand with real binary COM_STMT_* payloads; the
values an execution used are read off the statement text arriving at a fake backend.
"""
import json
import random

import _stmt
import vlib

MANIFEST = {
    "engine": "tla-stmtlifecycle",
    "level_claimed": {
        "category": "model_checking",
        "text": "TLC exhaustively checks, for all command sequences up to a length bound over 2 statement handles x 2 "
                "parameters (prepare, send-long-data, execute well-formed / truncated in the value of parameter k / "
                "truncated in the type array / unknown handle / with the types re-used from the previous execution / "
                "failing at the backend / with cursor flags or an iteration count the server may refuse, reset, close), that the statement-table algorithm uses "
                "for every execution exactly the values of that packet plus the long data sent for that statement "
                "since its previous execute/reset, isolates statements, refuses unknown/closed handles and leaves "
                "nothing behind after a failed execute (properties stated on the history of client commands); a "
                "variant of the algorithm that does not clear on failure is refuted by TLC. Every enumerated behaviour, "
                "and seeded TLC simulations of longer behaviours with 1-3 parameters and 3 handles, is replayed on the "
                "real session: real binary packets are read by the proxy's own packet reader (pooled read buffers, recycled "
                "and overwritten after every command as in Session.Run) and dispatched by Session.execCommand; the statement "
                "text reaching a "
                "fake backend is compared with the specification's expected values after every command.",
        "design_ref": "DESIGN.md section 5 C16, section 4.1 StmtLifecycle",
    },
    "level_note": "Values are tags instantiated with benign strings/integers/blobs of four wire types (hostile bytes "
                  "are C15); COM_STMT_CLOSE of an unknown handle has no reply in the protocol and is not "
                  "generated; a conforming client is assumed to omit the inline value of a parameter it sent long data "
                  "for; the exhaustive length bound is 4 commands with every feature and 5 (thorough) "
                  "without backend faults and re-used types, not 6: the history is part of the state, one state per "
                  "behaviour prefix. The read loop of Session.Run is reproduced by the harness (read, execCommand, recycle); "
                  "responses are not written to the client.",
    "technique": "TLA+ spec + TLC exhaustive check; TLC-generated behaviours with expected used values replayed on "
                 "the real SessionExecutor with a fake backend",
}

MC_CFG = """SPECIFICATION Spec
CONSTANTS
  MaxPrep = %(prep)d
  NP = %(np)d
  MaxLen = %(len)d
  MaxBad = %(bad)d
  MaxFault = %(fault)d
  AllowReuse = %(reuse)s
  KeepOnFailure = %(keep)s
INVARIANTS %(invs)s
CHECK_DEADLOCK FALSE
"""

GEN_CFG = """SPECIFICATION Spec
CONSTANTS
  MaxPrep = %(prep)d
  NP = %(np)d
  MaxLen = %(len)d
  MaxBad = %(bad)d
  MaxFault = %(fault)d
  AllowReuse = %(reuse)s
  KeepOnFailure = FALSE
  GenLen = %(len)d
INVARIANTS Emit TypeOK UsedMatchesHistory Isolated UnknownFails MalformedFails FailedLeavesUnset NoBoundBetweenCommands
CHECK_DEADLOCK FALSE
"""

# simulation only generates (the invariants are checked exhaustively by the mc runs; evaluating the history operators
# on every candidate successor makes simulation several times slower)
SIM_CFG = GEN_CFG.replace("INVARIANTS Emit TypeOK UsedMatchesHistory Isolated UnknownFails MalformedFails FailedLeavesUnset "
                          "NoBoundBetweenCommands", "INVARIANTS Emit TypeOK UsedMatchesHistory")
ALL_INVS = "TypeOK UsedMatchesHistory Isolated UnknownFails MalformedFails FailedLeavesUnset NoBoundBetweenCommands"
HARNESS = [_stmt.FIX, "proxy/server/stmt_c16_test.go"]
RUN = "^TestVerifStmtLifecycle$"


def nontrivial(c):
    """a successful execute on a statement that, since its prepare, saw long data, a failed execute or a reset;
    or a command addressed to a closed / never prepared handle"""
    touched = set()
    for e in c["cmds"]:
        if e["res"] == "unknown":
            return True
        if e["c"] == "prepare":
            touched.discard(e["h"])
        elif e["c"] in ("long", "reset") or (e["c"] == "exec" and e["res"] in ("malformed", "backend-error", "may-refuse")):
            touched.add(e["h"])
        elif e["c"] == "exec" and e["res"] == "ok" and (e["h"] in touched or e.get("ty") == "reused"):
            return True
    return False


def replay(ctx, cf, label):
    res, summ = _stmt.run_harness(ctx, _stmt.SERVER_PKG, HARNESS, RUN, cf)
    _stmt.merge_stats(ctx, "harness_counters", summ)
    ctx.log("replayed", summ["cases"], "behaviours (%s):" % label, summ.get("commands"), "commands,",
            summ.get("behaviours_deviating", 0), "deviating")
    return res, summ


def run(ctx):
    thorough = ctx.thorough
    rng = random.Random(ctx.seed)
    ctx.assumptions += [
        "one session, commands issued sequentially (the proxy serves a connection from one goroutine)",
        "the client follows the protocol for long data: no inline value for a parameter it sent long data for",
        "the executed statement is observed as the text passed to PooledConnect.Execute of the namespace's only slice",
    ]
    if ctx.replay:
        rec = ctx.read_ndjson(ctx.replay)[0]
        replay(ctx, [rec["case"]["case"]], "replay file")
        return

    # 1. exhaustive model check: the table algorithm satisfies the history properties.  The first configuration also
    #    emits every behaviour of its length bound (same run: the invariants hold on exactly what is replayed).
    nontriv = set()
    first_ok = [None]
    cf = _stmt.CaseFile(ctx.path("c16-cases.ndjson"))
    for k in _stmt.known_cases("C16"):
        cf.add(k["case"])

    def sink(v):
        v["iseed"] = rng.randrange(1, 1 << 31)
        cf.add(v)
        if nontrivial(v):
            nontriv.add(hash(json.dumps(v["cmds"], sort_keys=True)))
        if first_ok[0] is None and any(e["c"] == "exec" and e["res"] == "ok" and e["used"][0]["k"] == "val" for e in v["cmds"]):
            first_ok[0] = v

    gens = [dict(prep=2, np=2, len=4, bad=1, fault=1, reuse="TRUE")]
    if thorough:
        # length 5 with every feature is 6.1e5 behaviours; the longer bound is enumerated without backend faults and
        # without the types-reused packet form, which length 4 and the simulations cover
        gens.append(dict(prep=2, np=2, len=5, bad=1, fault=0, reuse="FALSE"))
    for g in gens:
        n0 = len(cf)
        r = ctx.tlc("StmtLifecycle_gen", "sl_gen.cfg", extra_files={"sl_gen.cfg": GEN_CFG % g}, workers=4, coverage=True,
                    timeout=2400, case_sink=sink, keep_cases=False,
                    label="exhaustive check + all behaviours of %d commands %s" % (g["len"], g))
        ctx.log("mc+gen", g, r.stats(), "behaviours:", len(cf) - n0, "%.1fs" % r.wall)
        if r.zero_actions:
            ctx.notes.append("vacuous actions in %s: %s" % (g, r.zero_actions))
        ctx.sample({"np": g["np"], "cmds": cf.get(n0 + (len(cf) - n0) // 2)["cmds"]})
    mcs = []
    if thorough:
        mcs = [dict(prep=3, np=1, len=5, bad=2, fault=1, reuse="TRUE"), dict(prep=1, np=3, len=4, bad=1, fault=1, reuse="TRUE")]
    for m in mcs:
        m = dict(m, keep="FALSE", invs=ALL_INVS)
        r = ctx.tlc("StmtLifecycle", "sl_mc.cfg", extra_files={"sl_mc.cfg": MC_CFG % m}, coverage=True, timeout=1500,
                    workers=4, label="exhaustive %s" % m)
        ctx.log("mc", {k: m[k] for k in ("prep", "np", "len", "bad")}, r.stats(), "%.1fs" % r.wall)
        if r.zero_actions:
            ctx.notes.append("vacuous actions in %s: %s" % (m, r.zero_actions))
    # the variant that keeps bound values after a failed execute (what executor_stmt.go does) must be refuted:
    # shows that UsedMatchesHistory is not vacuous and yields the candidate shape that the replay then looks for
    m = dict(prep=1, np=2, len=4, bad=0, fault=1, reuse="TRUE", keep="TRUE", invs="UsedMatchesHistory")
    r = ctx.tlc("StmtLifecycle", "sl_def.cfg", extra_files={"sl_def.cfg": MC_CFG % m}, timeout=600, workers=1,
                allow_violation=True, label="defective variant KeepOnFailure")
    ctx.cov["defective_variant_refuted_by_tlc"] = {"violated": r.violated, "counterexample_states": r.trace_states}
    if r.violated != "UsedMatchesHistory":
        raise vlib.Inconclusive("TLC does not refute the keep-on-failure variant: the property would be vacuous")

    # 2. seeded simulation of longer behaviours (more handles, 1-3 parameters)
    sims = [dict(prep=3, np=3, len=9, bad=2, fault=2, reuse="TRUE", num=80)]
    if thorough:
        sims = [dict(prep=3, np=2, len=12, bad=2, fault=3, reuse="TRUE", num=700),
                dict(prep=2, np=3, len=10, bad=1, fault=2, reuse="TRUE", num=300),
                dict(prep=2, np=1, len=10, bad=2, fault=2, reuse="TRUE", num=400),
                dict(prep=3, np=2, len=16, bad=3, fault=3, reuse="TRUE", num=300)]
    for s in sims:
        n0 = len(cf)
        r = ctx.tlc("StmtLifecycle_gen", "sl_gen.cfg", extra_files={"sl_gen.cfg": SIM_CFG % s}, workers=1, mode="sim",
                    sim="num=%d" % s["num"], depth=s["len"] + 1, timeout=240, seed=rng.randrange(1, 2 ** 31),
                    case_sink=sink, keep_cases=False, label="simulate length %d %s" % (s["len"], s))
        if len(cf) == n0:
            raise vlib.Inconclusive("simulation produced no behaviours")
        ctx.log("simulated", len(cf) - n0, "behaviours", s, "%.1fs" % r.wall)
        ctx.sample({"np": s["np"], "cmds": cf.get(n0)["cmds"]})
    ctx.cov["distinct_nontrivial"] = len(nontriv)
    ctx.cov["rule"] = ("behaviours = command sequences of one session enumerated by TLC (all of a bounded length, plus seeded "
                       "simulation); non-trivial = a successful execute on a statement that since its prepare saw long data, a "
                       "failed execute or a reset, or a command addressed to a closed / never prepared handle")
    ctx.notes.append("transition cover: the state graph of the generation run is a tree (the history is part of the state); "
                     "replaying every enumerated behaviour covers every edge")

    # 3. binding self-test case: a corrupted expectation must be flagged by the harness (same harness run)
    bad = {"np": 2, "iseed": 7, "selftest": True, "cmds": [
        {"c": "prepare", "h": 1, "res": "ok"},
        {"c": "exec", "h": 1, "pk": ["val", "val"], "mal": 0, "ty": "sent", "fault": False, "hdr": "plain", "res": "ok",
         "used": [{"k": "null"}, {"k": "val", "tag": [2, 2]}]}]}   # the specification says used[1] = <<2,1>>
    cf.add(bad)

    # 4. G: replay everything on the real SessionExecutor
    res, summ = replay(ctx, cf, "all")
    caught = any("wrong values" in d["sig"] for d in summ.get("selftest_devs", []))
    ctx.cov["binding_selftest"] = {"corrupted_expectation_detected": caught}
    if not caught and not ctx.violations:
        raise vlib.Inconclusive("binding self-test failed: a corrupted expected value was accepted")
