"""C16 - prepared statements are isolated and never reuse stale parameters.

Specification: spec/StmtLifecycle.tla (statement table of one session, properties on the command history),
StmtLifecycle_gen.tla (behaviour emission).
Binding: G - every behaviour TLC enumerates (all command sequences up to a length bound, plus seeded simulation of
longer ones) is replayed on a real SessionExecutor through ExecuteCommand with real binary COM_STMT_* payloads; the
values an execution used are read off the statement text arriving at a fake backend.
"""
import copy
import json
import random

import _stmt
import vlib

MANIFEST = {
    "engine": "tla-stmtlifecycle",
    "level_claimed": {
        "category": "model_checking",
        "text": "TLC exhaustively checks, for all command sequences up to a length bound over 2 statement handles x 2 "
                "parameters (prepare, send-long-data, execute well-formed / truncated in the value of parameter k / "
                "truncated in the type array / unknown handle, reset, close), that the statement-table algorithm uses "
                "for every execution exactly the values of that packet plus the long data sent for that statement "
                "since its previous execute/reset, isolates statements, refuses unknown/closed handles and leaves "
                "nothing behind after a failed execute (properties stated on the history of client commands); a "
                "variant of the algorithm that does not clear on failure is refuted by TLC. Every enumerated behaviour, "
                "and seeded TLC simulations of longer behaviours with 1-3 parameters and 3 handles, is replayed on the "
                "real SessionExecutor (real binary packets through ExecuteCommand) and the statement text reaching a "
                "fake backend is compared with the specification's expected values after every command.",
        "design_ref": "DESIGN.md section 5 C16, section 4.1 StmtLifecycle",
    },
    "level_note": "Values are tags instantiated with benign strings/integers/blobs of four wire types (hostile bytes "
                  "are C15); every execute packet carries the new-params-bound flag with types (the flag=0 re-execute "
                  "form is not generated); COM_STMT_CLOSE of an unknown handle has no reply in the protocol and is not "
                  "generated; a conforming client is assumed to omit the inline value of a parameter it sent long data "
                  "for; the exhaustive length bound is 4 (quick) / 5 (thorough) commands, not 6: the history is part "
                  "of the state, one state per behaviour prefix.",
    "technique": "TLA+ spec + TLC exhaustive check; TLC-generated behaviours with expected used values replayed on "
                 "the real SessionExecutor with a fake backend",
}

MC_CFG = """SPECIFICATION Spec
CONSTANTS
  MaxPrep = %(prep)d
  NP = %(np)d
  MaxLen = %(len)d
  MaxBad = %(bad)d
  KeepOnFailure = %(keep)s
INVARIANTS %(invs)s
CHECK_DEADLOCK FALSE
"""

GEN_CFG = """SPECIFICATION Spec
CONSTANTS
  MaxPrep = %(prep)d
  NP = %(np)d
  MaxLen = %(len)d
  MaxBad = %(bad)d
  KeepOnFailure = FALSE
  GenLen = %(len)d
INVARIANTS Emit
CHECK_DEADLOCK FALSE
"""

ALL_INVS = "TypeOK UsedMatchesHistory Isolated UnknownFails MalformedFails FailedLeavesUnset NoBoundBetweenCommands"
HARNESS = [_stmt.FIX, "proxy/server/stmt_c16_test.go"]
RUN = "^TestVerifStmtLifecycle$"


def nontrivial(c):
    """a successful execute on a statement that, since its prepare, saw long data, a failed execute or a reset;
    or a command addressed to a closed / never prepared handle"""
    touched = set()
    for e in c["cmds"]:
        if e["res"] == "unknown":
            return True
        if e["c"] == "prepare":
            touched.discard(e["h"])
        elif e["c"] in ("long", "reset") or (e["c"] == "exec" and e["res"] == "malformed"):
            touched.add(e["h"])
        elif e["c"] == "exec" and e["res"] == "ok" and e["h"] in touched:
            return True
    return False


def replay(ctx, cf, label):
    res, summ = _stmt.run_harness(ctx, _stmt.SERVER_PKG, HARNESS, RUN, cf)
    _stmt.merge_stats(ctx, "harness_counters", summ)
    ctx.log("replayed", summ["cases"], "behaviours (%s):" % label, summ.get("commands"), "commands,",
            summ.get("behaviours_deviating", 0), "deviating")
    return res, summ


def run(ctx):
    thorough = ctx.thorough
    rng = random.Random(ctx.seed)
    ctx.assumptions += [
        "one session, commands issued sequentially (the proxy serves a connection from one goroutine)",
        "the client follows the protocol for long data: no inline value for a parameter it sent long data for",
        "the executed statement is observed as the text passed to PooledConnect.Execute of the namespace's only slice",
    ]
    if ctx.replay:
        rec = ctx.read_ndjson(ctx.replay)[0]
        replay(ctx, [rec["case"]["case"]], "replay file")
        return

    # 1. exhaustive model check: the table algorithm satisfies the history properties
    mcs = [dict(prep=2, np=2, len=4, bad=1)]
    if thorough:
        mcs = [dict(prep=2, np=2, len=5, bad=1), dict(prep=3, np=1, len=5, bad=2), dict(prep=1, np=3, len=4, bad=1)]
    for m in mcs:
        m = dict(m, keep="FALSE", invs=ALL_INVS)
        r = ctx.tlc("StmtLifecycle", "sl_mc.cfg", extra_files={"sl_mc.cfg": MC_CFG % m}, coverage=True, timeout=1500,
                    workers=4, label="exhaustive %s" % m)
        ctx.log("mc", {k: m[k] for k in ("prep", "np", "len", "bad")}, r.stats(), "%.1fs" % r.wall)
        if r.zero_actions:
            ctx.notes.append("vacuous actions in %s: %s" % (m, r.zero_actions))
    # the variant that keeps bound values after a failed execute (what executor_stmt.go does) must be refuted:
    # shows that UsedMatchesHistory is not vacuous and yields the candidate shape that the replay then looks for
    m = dict(prep=1, np=2, len=4, bad=0, keep="TRUE", invs="UsedMatchesHistory")
    r = ctx.tlc("StmtLifecycle", "sl_def.cfg", extra_files={"sl_def.cfg": MC_CFG % m}, timeout=600, workers=1,
                allow_violation=True, label="defective variant KeepOnFailure")
    ctx.cov["defective_variant_refuted_by_tlc"] = {"violated": r.violated, "counterexample_states": r.trace_states}
    if r.violated != "UsedMatchesHistory":
        raise vlib.Inconclusive("TLC does not refute the keep-on-failure variant: the property would be vacuous")

    # 2. G: bounded-exhaustive behaviours, then simulation of longer ones
    gens = [dict(prep=2, np=2, len=4, bad=1)]
    sims = [dict(prep=3, np=2, len=10, bad=2, num=400), dict(prep=2, np=3, len=8, bad=1, num=200),
            dict(prep=2, np=1, len=9, bad=2, num=200)]
    if thorough:
        gens = [dict(prep=2, np=2, len=5, bad=1)]
        sims = [dict(prep=3, np=2, len=12, bad=2, num=6000), dict(prep=2, np=3, len=10, bad=1, num=3000),
                dict(prep=2, np=1, len=10, bad=2, num=3000), dict(prep=3, np=2, len=16, bad=3, num=3000)]
    nontriv = set()
    first_ok = [None]

    def collect(cf):
        def sink(v):
            v["iseed"] = rng.randrange(1, 1 << 31)
            cf.add(v)
            if nontrivial(v):
                nontriv.add(hash(json.dumps(v["cmds"], sort_keys=True)))
            if first_ok[0] is None and any(e["c"] == "exec" and e["res"] == "ok" and e["used"][0]["k"] == "val" for e in v["cmds"]):
                first_ok[0] = v
        return sink

    cf = _stmt.CaseFile(ctx.path("c16-known.ndjson"))
    for k in _stmt.known_cases("C16"):
        cf.add(k["case"])
    if len(cf):
        replay(ctx, cf, "cases stored with known findings")
    for g in gens:
        cf = _stmt.CaseFile(ctx.path("c16-bfs.ndjson"))
        r = ctx.tlc("StmtLifecycle_gen", "sl_gen.cfg", extra_files={"sl_gen.cfg": GEN_CFG % g}, workers=4,
                    timeout=1500, case_sink=collect(cf), keep_cases=False,
                    label="all behaviours of %d commands" % g["len"])
        ctx.log("generated", len(cf), "behaviours of length", g["len"], "%.1fs" % r.wall)
        ctx.sample({"np": g["np"], "cmds": cf.get(len(cf) // 2)["cmds"]})
        replay(ctx, cf, "all of length %d" % g["len"])
    for s in sims:
        cf = _stmt.CaseFile(ctx.path("c16-sim.ndjson"))
        r = ctx.tlc("StmtLifecycle_gen", "sl_gen.cfg", extra_files={"sl_gen.cfg": GEN_CFG % s}, workers=1, mode="sim",
                    sim="num=%d" % s["num"], depth=s["len"] + 1, timeout=240, seed=rng.randrange(1, 2 ** 31),
                    case_sink=collect(cf), keep_cases=False, label="simulate length %d" % s["len"])
        if not len(cf):
            raise vlib.Inconclusive("simulation produced no behaviours")
        ctx.sample({"np": s["np"], "cmds": cf.get(0)["cmds"]})
        replay(ctx, cf, "simulated length %d np %d" % (s["len"], s["np"]))
    ctx.cov["distinct_nontrivial"] = len(nontriv)
    ctx.cov["rule"] = ("behaviours = command sequences of one session enumerated by TLC (all of a bounded length, plus seeded "
                       "simulation); non-trivial = a successful execute on a statement that since its prepare saw long data, a "
                       "failed execute or a reset, or a command addressed to a closed / never prepared handle")
    ctx.notes.append("transition cover: the state graph of the generation run is a tree (the history is part of the state); "
                     "replaying every enumerated behaviour covers every edge")

    # 3. binding self-test: a corrupted expectation must be flagged by the harness
    good = first_ok[0]
    if good is None:
        raise vlib.Inconclusive("no behaviour with a successful execute was generated")
    bad = copy.deepcopy(good)
    for e in bad["cmds"]:
        if e["c"] == "exec" and e["res"] == "ok" and e["used"][0]["k"] == "val":
            e["used"][0] = {"k": "null"}
            break
    res, summ, _ = ctx.harness(_stmt.SERVER_PKG, HARNESS, RUN, [bad])
    caught = any("wrong values" in d["sig"] for r in res for d in r.get("devs", []))
    ctx.cov["binding_selftest"] = {"corrupted_expectation_detected": caught}
    if not caught:
        raise vlib.Inconclusive("binding self-test failed: a corrupted expected value was accepted")
