"""C21 - read-only users cannot change data or schema.

Specification: spec/StmtPolicy.tla part 1 (MustReject), spec/StmtPolicy_gen.tla (Family = "C21").
Binding: G.  TLC enumerates statement descriptors (kind x leading decoration x separator after the first keyword x
keyword case x trailing decoration x channel x transaction state x user flags) with the required decision; the Go
harness renders each to SQL, sends it through SessionExecutor.ExecuteCommand (COM_QUERY, multi-statement COM_QUERY,
COM_STMT_PREPARE/EXECUTE) on a real Namespace with recording fake pools; a read-only user's modifying statement
must not cause any pool Get.
"""
import _policy as P

MANIFEST = {
    "engine": "tla-stmtpolicy",
    "level_claimed": {
        "category": "model_checking",
        "text": "TLC enumerates the full product of statement descriptors of read-only users (10 modifying kinds x 8 leading "
                "decorations x 5 separators after the first keyword x 3 keyword casings x 4 trailing decorations x 6 channels "
                "x 2 transaction states x 2 split flags, and undecorated statements under every session history (keep-session, "
                "earlier read, user made read-only by a namespace reload after the session connected); quick: every descriptor with at most one decoration plus a seeded "
                "sample), checks on each that reject / master / replica-allowed partition the space and that decorations, "
                "channel, split flag and transaction state do not change MustReject, and emits each descriptor with the "
                "required decision; every emitted descriptor is rendered to SQL and replayed on the real SessionExecutor "
                "(real Namespace, fake recording pools): a statement that must be rejected must not take a backend connection.",
        "design_ref": "DESIGN.md section 5 C21/C22, section 4.1 StmtPolicy",
    },
    "level_note": "Rendering descriptor -> SQL text is done in Go and is not an oracle; one fixed statement body per kind "
                  "(single unsharded table). 'Rejected' is observed as: no Get on any pool of any slice (an error is not "
                  "required when nothing reaches a backend). Controls (same statements from users that may write) show the "
                  "statements are otherwise executable.",
    "technique": "TLA+ decision table + TLC enumeration; TLC-emitted descriptors with expected decision replayed on the real "
                 "SessionExecutor with fake backend pools",
}

FAMILY = "C21"


def run(ctx):
    import vlib
    ctx.assumptions += [
        "a statement 'reaches a backend' iff a connection is requested from a node pool of a slice (fake ConnectionPool.Get)",
        "one representative statement body per kind on an unsharded table of the session database",
        "session history is part of the descriptor: keep-session namespace, a plain read earlier in the session, a plain read "
        "preceding the statement in the same multi-statement text, a real namespace reload (Manager.ReloadNamespacePrepare/"
        "Commit) that gave the user its current rw flag after the session connected; admin/monitor/statistic users are not exercised",
    ]
    if ctx.replay:
        rec = ctx.read_ndjson(ctx.replay)[0]
        P.pol_check(ctx, FAMILY, [P.pol_clean(rec["case"])])
        return
    if ctx.thorough:
        r = P.pol_generate(ctx, FAMILY, "thorough", 0, 0)
    else:
        r = P.pol_generate(ctx, FAMILY, "quick", 300, 1)
    cases = [P.pol_clean(c) for c in r.cases]
    seen = set(vlib.json.dumps(c, sort_keys=True) for c in cases)
    for c in vlib.known_replay_cases(FAMILY):
        k = vlib.json.dumps(P.pol_clean(c), sort_keys=True)
        if k not in seen:
            seen.add(k)
            cases.append(P.pol_clean(c))
    ctx.log("TLC emitted", len(r.cases), "descriptors;", sum(1 for c in cases if c["expect"] == "reject"), "must be rejected")
    good = dict(p=FAMILY, kind="select", lead="none", kwsep="space", cs="lower", trail="none", lock="none", lockopt="none",
                hint="none", probe="none", chan="query", intx="no", ro=True, split=False, csl=True, expect="any")
    devs, summ = P.pol_check(ctx, FAMILY, cases, selftest=(good, "reject"))
    subject = [c for c in cases if c["expect"] == "reject"]
    nontriv = set((c["kind"], c["lead"], c["kwsep"], c["cs"], c["trail"], c["chan"]) for c in subject
                  if (c["lead"], c["kwsep"], c["cs"], c["trail"], c["chan"]) != ("none", "space", "lower", "none", "query"))
    ctx.cov["distinct_nontrivial"] = len(nontriv)
    ctx.cov["rule"] = ("distinct (kind, lead, kwsep, case, trail, channel) of must-reject descriptors with at least one "
                       "non-default decoration or a non-plain channel")
    ctx.cov["must_reject_cases"] = len(subject)
    for c in subject[:: max(1, len(subject) // 5)][:5]:
        ctx.sample(c)
    # vacuity: the same statements from a user that may write must be executable (reach the master)
    ctl = {}
    for k, v in summ.items():
        if k.startswith("n:ctl/"):
            _, kind, outcome = k[2:].split("/")
            ctl.setdefault(kind, {})[outcome] = v
    never = sorted(k for k, o in ctl.items() if k in ("insert", "replace", "update", "delete", "create", "alter", "drop",
                                                     "truncate", "rename", "load") and not o.get("master"))
    ctx.cov["controls"] = ctl
    if never:
        ctx.notes.append("control statements of a read-write user never reached a backend for kinds %s: rejection of these "
                         "kinds is not attributable to the read-only check" % never)
