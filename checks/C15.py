"""C15 - binding parameters preserves their values and cannot change the statement.

Specification: spec/SqlLex.tla (lexical automaton, sql_mode NO_BACKSLASH_ESCAPES as a constant) and
spec/SqlLex_trace.tla (reading side: Judge).
Binding: V - templates x parameter values x sql_mode are executed on a real session (set sql_mode, COM_STMT_PREPARE,
COM_STMT_SEND_LONG_DATA, COM_STMT_EXECUTE through ExecuteCommand); the statement text that reaches the fake backend is
recorded and TLC re-reads it under the session's sql_mode: the template's text with each placeholder replaced by exactly
one literal token that denotes the bound value, no marker left, no separator introduced, text well formed.
"""
import random
import struct

import _stmt
import vlib

MANIFEST = {
    "engine": "tla-sqllex",
    "level_claimed": {
        "category": "model_checking",
        "text": "For statement templates with 1-4 placeholders, parameter values of every binary-protocol type family "
                "(all byte strings up to a length bound over quote, double quote, backslash, NUL, ?, ;, -, 0x80, 0xff, "
                "newline and a letter, inline and as long data; integer extremes per width and signedness; floats; "
                "date / datetime / time forms; NULL) and sql_mode with and without NO_BACKSLASH_ESCAPES, the real proxy "
                "executes the prepared statement and TLC validates the recorded statement text against the lexical "
                "specification on the reading side: decoding the text under that sql_mode must give the template with "
                "each placeholder replaced by one literal token denoting exactly the bound value (bytes after unescaping, "
                "number, NULL), with no parameter marker left, no separator introduced and no open string/comment.",
        "design_ref": "DESIGN.md section 5 C15, section 4.1 SqlLex",
    },
    "level_note": "The set of templates x values is enumerated by the driver (inputs only); every expectation is decided by "
                  "TLC from the specification. Acceptable renderings of floats and temporal values (several spellings of "
                  "the same value) are tabulated, IEEE-754 is not computed in TLA+. Hex / _binary / introducer renderings "
                  "of strings would be read as 'no string literal'. Connection character sets in which 0x5c can be a "
                  "trail byte (gbk, sjis, big5) are not modelled: bytes are read as in utf8/latin1/binary. A refused "
                  "execute is counted, not judged, except in the re-execute form (an earlier execution carried the parameter "
                  "types, another packet passed, the judged execution sends new-params-bound = 0): there a refusal is a "
                  "deviation when the same values are executed with the types sent. A panic of the session is always a "
                  "deviation. Command-sequence properties of the statement table as such (stale values, isolation) are C16.",
    "technique": "executions recorded from the real SessionExecutor validated by TLC against the lexical specification "
                 "(trace validation, one verdict per execution)",
}

HARNESS = [_stmt.FIX, "proxy/server/stmt_c15_test.go"]
RUN = "^TestVerifStmtBind$"
NBS = "NO_BACKSLASH_ESCAPES"

T_DECIMAL, T_TINY, T_SHORT, T_LONG, T_FLOAT, T_DOUBLE, T_NULL, T_TIMESTAMP, T_LONGLONG, T_INT24, T_DATE, T_TIME, \
    T_DATETIME, T_YEAR = range(14)
T_VARCHAR, T_BLOB, T_VARSTRING, T_STRING, T_NEWDECIMAL = 15, 252, 253, 254, 246

TRACE_CFG = """SPECIFICATION TraceSpec
CONSTANTS
  Words <- TrWords
  Prefix <- TrPrefix
  MaxLen = 0
  MaxWords = 0
  NoBackslash = %s
INVARIANTS Verdict
CHECK_DEADLOCK FALSE
"""

NAMED = dict((ord(v), k) for k, v in _stmt.SYM2CH.items() if k not in ("LB", "COMMA", "EQ", "NUL", "CR", "SUB"))


def bsyms(b):
    """bytes -> SqlLex symbols (one per byte)"""
    out = []
    for x in b:
        if x in NAMED:
            out.append(NAMED[x])
        elif 0x21 <= x <= 0x7e:
            out.append(chr(x))
        else:
            out.append("X%02X" % x)
    return out


def lenenc(b):
    n = len(b)
    if n < 251:
        return bytes([n]) + b
    return b"\xfc" + struct.pack("<H", n) + b


def v_bytes(b, tp=T_VARSTRING, long=False):
    feats = []
    for name, ch in (("quote", b"'"), ("backslash", b"\\"), ("dquote", b'"'), ("nul", b"\x00"), ("newline", b"\n"),
                     ("qmark", b"?"), ("semi", b";"), ("dash", b"-")):
        if ch in b:
            feats.append(name)
    if any(x >= 0x80 for x in b):
        feats.append("high")
    cls = "bytes[%s]%s" % (",".join(feats) or "plain", " as long data" if long else "")
    return {"wire": {"t": tp, "u": False, "null": False, "wire": lenenc(b).hex(), "long": b.hex(), "is_long": long,
                     "twin": lenenc(b"pre").hex()},
            "judge": {"k": "str", "alts": [bsyms(b)]}, "cls": cls, "show": repr(b)}


def v_int(tp, name, val, unsigned):
    size = {T_TINY: 1, T_SHORT: 2, T_YEAR: 2, T_LONG: 4, T_INT24: 4, T_LONGLONG: 8}[tp]
    raw = (val & ((1 << (8 * size)) - 1)).to_bytes(size, "little")
    return {"wire": {"t": tp, "u": unsigned, "null": False, "wire": raw.hex(), "long": "", "is_long": False,
                     "twin": (1).to_bytes(size, "little").hex()},
            "judge": {"k": "num", "alts": [bsyms(str(val).encode())]}, "cls": "%s%s" % (name, " unsigned" if unsigned else ""),
            "show": str(val)}


def v_float(tp, name, raw, alts, cls=None):
    return {"wire": {"t": tp, "u": False, "null": False, "wire": raw.hex(), "long": "", "is_long": False,
                     "twin": (struct.pack("<f", 2.5) if len(raw) == 4 else struct.pack("<d", 2.5)).hex()},
            "judge": {"k": "num", "alts": [bsyms(a.encode()) for a in alts]}, "cls": cls or name, "show": alts[0] if alts else name}


def fl_alts(mant, exp):
    """spellings of mant x 10^exp (mant a decimal string)"""
    out = set()
    for e in ("e", "E"):
        for sign in ("+", "") if exp >= 0 else ("-",):
            for pad in ("%d", "%02d"):
                out.add(mant + e + sign + (pad % abs(exp)))
    return sorted(out)


def v_temporal(tp, name, payload, alts):
    raw = bytes([len(payload)]) + payload
    twin = bytes([8, 0, 0, 0, 0, 0, 9, 8, 7]) if tp == T_TIME else bytes([4]) + struct.pack("<HBB", 1999, 12, 31)
    return {"wire": {"t": tp, "u": False, "null": False, "wire": raw.hex(), "long": "", "is_long": False, "twin": twin.hex()},
            "judge": {"k": "str", "alts": [bsyms(a.encode()) for a in alts]}, "cls": "%s[len%d]" % (name, len(payload)),
            "show": alts[0]}


def v_null(tp):
    return {"wire": {"t": tp, "u": False, "null": True, "wire": "", "long": "", "is_long": False, "twin": ""},
            "judge": {"k": "null", "alts": []}, "cls": "null", "show": "NULL"}


def fill():
    return v_int(T_LONG, "long", 7, False)


def all_values(thorough, rng):
    vals = []
    alpha = [b"'", b'"', b"\\", b"\x00", b"?", b";", b"-", b"\x80", b"\xff", b"\n", b"a"]
    strings = [b""] + alpha + [x + y for x in alpha for y in alpha]
    if thorough:
        strings += [x + y + z for x in alpha for y in alpha for z in alpha]
    for i, s in enumerate(strings):
        vals.append(v_bytes(s, T_VARSTRING))
        if len(s) <= 1 or i % 3 == 0:
            vals.append(v_bytes(s, T_BLOB))
        if len(s) >= 1 and (len(s) == 1 or i % 4 == 1):
            vals.append(v_bytes(s, T_BLOB, long=True))
    vals += [v_bytes(b"it's", T_STRING), v_bytes(b"a\\'; drop table t; -- ", T_VARCHAR), v_bytes(b"12.50", T_NEWDECIMAL),
             v_bytes(b"\\", T_VARSTRING, long=True), v_bytes(b"x" * 260, T_BLOB)]
    for tp, name, bits in ((T_TINY, "tiny", 8), (T_SHORT, "short", 16), (T_LONG, "long", 32), (T_INT24, "int24", 32),
                           (T_LONGLONG, "longlong", 64)):
        for v in (-(1 << (bits - 1)), -1, 0, (1 << (bits - 1)) - 1):
            vals.append(v_int(tp, name, v, False))
        vals.append(v_int(tp, name, (1 << bits) - 1, True))
    vals.append(v_int(T_YEAR, "year", 2024, True))
    f32 = lambda x: struct.pack("<f", x)
    f64 = lambda x: struct.pack("<d", x)
    vals += [v_float(T_FLOAT, "float", f32(1.5), ["1.5"]), v_float(T_FLOAT, "float", f32(-0.25), ["-0.25"]),
             v_float(T_FLOAT, "float", f32(16777216.0), ["16777216"] + fl_alts("1.6777216", 7)),
             v_float(T_FLOAT, "float", bytes.fromhex("ffff7f7f"), fl_alts("3.4028235", 38) + fl_alts("3.4028234663852886", 38)),
             v_float(T_DOUBLE, "double", f64(1.5), ["1.5"]), v_float(T_DOUBLE, "double", f64(-2.5e-10), fl_alts("-2.5", -10)),
             v_float(T_DOUBLE, "double", f64(1e20), ["100000000000000000000"] + fl_alts("1", 20)),
             v_float(T_DOUBLE, "double", f64(1.7976931348623157e308), fl_alts("1.7976931348623157", 308)),
             v_float(T_DOUBLE, "double", f64(5e-324), fl_alts("5", -324) + fl_alts("4.9406564584124654", -324)),
             v_float(T_DOUBLE, "double", f64(float("inf")), [], cls="double[non-finite]"),
             v_float(T_DOUBLE, "double", f64(float("nan")), [], cls="double[non-finite]"),
             v_float(T_FLOAT, "float", f32(float("-inf")), [], cls="float[non-finite]")]
    d4 = struct.pack("<HBB", 2024, 2, 29)
    vals += [v_temporal(T_DATE, "date", b"", ["0000-00-00"]), v_temporal(T_DATE, "date", d4, ["2024-02-29"]),
             v_temporal(T_DATETIME, "datetime", b"", ["0000-00-00 00:00:00", "0000-00-00"]),
             v_temporal(T_DATETIME, "datetime", d4, ["2024-02-29 00:00:00", "2024-02-29"]),
             v_temporal(T_DATETIME, "datetime", d4 + bytes([23, 59, 58]), ["2024-02-29 23:59:58"]),
             v_temporal(T_TIMESTAMP, "timestamp", d4 + bytes([23, 59, 58]) + struct.pack("<I", 42),
                        ["2024-02-29 23:59:58.000042"]),
             v_temporal(T_TIME, "time", b"", ["00:00:00", "0:0:0", "00:00:00.000000"]),
             v_temporal(T_TIME, "time", bytes([0]) + struct.pack("<I", 0) + bytes([1, 2, 3]), ["01:02:03", "1:02:03"]),
             v_temporal(T_TIME, "time", bytes([1]) + struct.pack("<I", 1) + bytes([2, 3, 4]), ["-26:03:04", "-1 02:03:04"]),
             v_temporal(T_TIME, "time", bytes([0]) + struct.pack("<I", 34) + bytes([22, 59, 59]) + struct.pack("<I", 5),
                        ["838:59:59.000005", "34 22:59:59.000005"])]
    vals += [v_null(T_VARSTRING), v_null(T_NULL), v_null(T_LONGLONG)]
    return vals


TEMPLATES = ["select a from t where b = ?",
             "insert into t (a, b) values (?, ?)",
             "select a from t where b = ? and c = '?' and d = ? limit 3",
             "select a from t where b in (?, ?, ?) or c = ?"]


def build_cases(thorough, rng):
    vals = all_values(thorough, rng)
    cases = []
    for mode in ("", NBS):
        for ti, tpl in enumerate(TEMPLATES):
            np = tpl.count("?") - (1 if "'?'" in tpl else 0)
            for vi, v in enumerate(vals):
                if ti > 0 and not thorough and (vi + ti) % 4 != rng.randrange(4):
                    continue
                if ti > 0 and thorough and len(v["show"]) > 12 and (vi + ti) % 3 != 0:
                    continue
                k = rng.randrange(np)
                vs = [fill() for _ in range(np)]
                vs[k] = v
                if np > 1 and rng.randrange(3) == 0:
                    k2 = (k + 1) % np
                    vs[k2] = vals[rng.randrange(len(vals))]
                # an earlier execution of the same statement with other values: none / successful / failed at the backend
                pres = ("", "ok", "failed") if (thorough and ti == 0) else (("", "ok", "failed")[(vi + ti) % 3],)
                for pre in pres:
                    cases.append({"id": len(cases) + 1, "tpl": tpl, "mode": mode, "pre": pre, "vals": [x["wire"] for x in vs],
                                  "_vs": vs, "_probe": k})
                # the re-execute form: an earlier execution carried these parameter types (other values), another packet
                # passed, and the judged execution does not re-send the types.  Paired with the plain form of the same
                # values (base) so that a refusal of the re-execute form alone is visible.
                if (thorough or (vi + ti) % 3 == 0) and not any(x["wire"]["is_long"] for x in vs):
                    base = next((c for c in cases[-len(pres):] if c["pre"] == ""), None)
                    if base is None:
                        base = {"id": len(cases) + 1, "tpl": tpl, "mode": mode, "pre": "", "vals": [x["wire"] for x in vs],
                                "_vs": vs, "_probe": k}
                        cases.append(base)
                    cases.append({"id": len(cases) + 1, "tpl": tpl, "mode": mode, "pre": "ok-reuse", "vals": [x["wire"] for x in vs],
                                  "_vs": vs, "_probe": k, "_base": base["id"]})
    return cases


def judge(ctx, cases, obs_by_id, selftest=None):
    """TLC reads every recorded statement text; returns {id: verdict}"""
    verdicts = {}
    for mode in ("", NBS):
        lines = []
        for c in cases:
            if c["mode"] != mode:
                continue
            o = obs_by_id.get(c["id"])
            if not o or o["status"] != "executed" or len(o["out"]) != 1:
                continue
            out = bsyms(bytes.fromhex(o["out"][0]))
            if selftest and selftest == c["id"]:
                out = out[:-1] + ["SQ"] if out[-1] != "SQ" else out[:-1]
            lines.append({"id": c["id"], "tpl": bsyms(c["tpl"].encode()), "out": out, "vals": [x["judge"] for x in c["_vs"]]})
        if not lines:
            continue
        tp = ctx.write_ndjson("c15-trace-%s.ndjson" % (mode or "default"), lines)
        r = ctx.tlc("SqlLex_trace", "c15_tr.cfg", mode="tv", extra_files={"trace.ndjson": tp, "c15_tr.cfg": TRACE_CFG % ("TRUE" if mode else "FALSE")},
                    timeout=1200, xss="512m", label="reading-side validation, sql_mode=%s (%d executions)" % (mode or "default", len(lines)))
        if len(r.cases) != len(lines):
            raise vlib.Inconclusive("TLC judged %d of %d recorded executions (see %s)" % (len(r.cases), len(lines), r.out_path))
        for v in r.cases:
            verdicts[v["id"]] = v["r"]
    return verdicts


def run(ctx):
    thorough = ctx.thorough
    rng = random.Random(ctx.seed)
    ctx.assumptions += [
        "the backend reads statement bytes as a single-byte-safe character set (utf8 / latin1 / binary)",
        "sql_mode is what the client set through the proxy (SET SESSION sql_mode=...), ANSI_QUOTES off",
    ]
    if ctx.replay:
        rec = ctx.read_ndjson(ctx.replay)[0]["case"]
        cases = [dict(rec["case"], id=1)]
        if cases[0].get("pre") == "ok-reuse":     # the plain form of the same values, for the refusal comparison
            cases.append(dict(rec["case"], id=2, pre=""))
            cases[0]["_base"] = 2
    else:
        cases = build_cases(thorough, rng)
        for k in _stmt.known_cases("C15"):
            c = dict(k["case"])
            c["id"] = len(cases) + 1
            cases.append(c)
    wire = [{k: v for k, v in c.items() if not k.startswith("_")} for c in cases]
    res, summ, _ = ctx.harness(_stmt.SERVER_PKG, HARNESS, RUN, wire)
    if summ["cases"] != len(cases):
        raise vlib.Inconclusive("harness executed %d of %d cases" % (summ["cases"], len(cases)))
    obs = {r["obs"]["id"]: r["obs"] for r in res}
    ctx.cov["execution_status"] = {k: v for k, v in summ.items() if isinstance(v, int) and k != "cases"}
    ctx.log("executed", summ)
    if not summ.get("executed"):
        raise vlib.Inconclusive("nothing was executed: %s" % summ)
    verdicts = judge(ctx, cases, obs)
    ctx.cov["traces_validated_against_impl"] += len(verdicts)
    ctx.cov["evaluations"] += len(verdicts)
    nontriv = 0
    for c in cases:
        o = obs[c["id"]]
        probe = c["_vs"][c["_probe"]]
        stored = {k: v for k, v in c.items() if k != "id"}
        mode = c["mode"] or "default"
        hist = {"": "", "ok": " (after an execution with other values)",
                "failed": " (after a failed execution with other values)",
                "ok-reuse": " (types re-used from an earlier execution with other values)"}[c.get("pre", "")]
        if o["status"] in ("set-refused", "prepare-refused", "count", "pre-unexpected"):
            raise vlib.Inconclusive("case %d could not be driven: %s %s" % (c["id"], o["status"], o.get("err")))
        if o["status"] == "pre-refused":
            continue   # the earlier execution with the twin values was itself refused: this form cannot be driven
        if o["status"] == "panicked":
            ctx.deviation("C15 mode=%s %s%s: the session panicked" % (mode, probe["cls"], hist),
                          "template %r value %s: panic %s" % (c["tpl"], probe["show"], o.get("err")), {"case": stored})
            continue
        if o["status"] == "refused":
            b = obs.get(c.get("_base"))
            if c.get("pre") == "ok-reuse" and b and b["status"] == "executed":
                ctx.deviation("C15 mode=%s %s%s: refused although the same values are executed when the types are sent"
                              % (mode, probe["cls"], hist),
                              "template %r value %s: %s" % (c["tpl"], probe["show"], o.get("err")), {"case": stored})
            continue
        if len(o["out"]) != 1:
            ctx.deviation("C15 mode=%s %s%s: %d statements reached the backend" % (mode, probe["cls"], hist, len(o["out"])),
                          "template %r value %s: backend received %r" % (c["tpl"], probe["show"], o["out"]), {"case": stored})
            continue
        v = verdicts[c["id"]]
        if probe["cls"] not in ("long", "bytes[plain]") and probe["judge"]["k"] != "num" or probe["cls"].endswith("]"):
            nontriv += 1
        if v["ok"]:
            continue
        culprit = c["_vs"][v["k"] - 1] if v.get("k") else probe
        text = bytes.fromhex(o["out"][0])
        ctx.deviation("C15 mode=%s %s%s: %s" % (mode, culprit["cls"], hist, v["why"]),
                      "template %r, value %s (%s), sql_mode %s: the backend received %r; read under that sql_mode: %s"
                      % (c["tpl"], culprit["show"], culprit["cls"], mode, text, v["why"]), {"case": stored})
    ctx.cov["distinct_nontrivial"] = nontriv
    ctx.cov["rule"] = ("executions = template x position x parameter value x sql_mode; non-trivial = the probed value is not a plain "
                       "letter string or a small integer (special bytes, extremes, floats, temporal, NULL, long data)")
    ctx.sample({"template": cases[0]["tpl"], "mode": cases[0]["mode"], "value": cases[0]["_vs"][0]["show"],
                "backend_received": bytes.fromhex(obs[cases[0]["id"]]["out"][0]).decode("latin1") if obs[cases[0]["id"]]["out"] else None})
    if ctx.replay:
        return
    # binding self-test: one recorded text corrupted (last byte toggled to/from a quote) must be rejected by TLC
    good = next((c for c in cases if c["mode"] == "" and verdicts.get(c["id"], {}).get("ok") and c["_vs"][-1]["judge"]["k"] == "num"
                 and c["tpl"].endswith("?")), None)
    if good is None:
        raise vlib.Inconclusive("no accepted execution available for the self-test")
    v2 = judge(ctx, [good], obs, selftest=good["id"])
    caught = not v2[good["id"]]["ok"]
    ctx.cov["binding_selftest"] = {"corrupted_trace_rejected": caught}
    if not caught and not ctx.violations:
        raise vlib.Inconclusive("binding self-test failed: TLC accepted a corrupted statement text")
