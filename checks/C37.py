"""C37 - idle sessions are closed on time and active ones are not (util.TimeWheel).

Specification: spec/TimeWheel.tla (I-level wheel + P-level deadlines), TimeWheel_gen.tla, TimeWheel_trace.tla.
Binding: G (TLC behaviours replayed on the real wheel, directly and through the real goroutine loop with
the tick-gate hook) and V (events recorded from the real wheel validated by TLC).
"""
import json
import random

MANIFEST = {
    "engine": "tla-timewheel",
    "level_claimed": {
        "category": "model_checking",
        "text": "TLC exhaustively checks that the wheel algorithm (buckets, rounds, current index, ordered pipeline) "
                "fires exactly the keys whose deadline (most recent registration + delay) is the current tick, for all "
                "operation sequences within small constants; every behaviour TLC enumerates up to a length bound, plus "
                "seeded random longer ones, is replayed on the real util.TimeWheel (add/remove/handleTick and the real "
                "start() loop via the tick gate) comparing the fired set at every tick, and the recorded implementation "
                "trace is validated by TLC against the specification with all invariants on.",
        "design_ref": "DESIGN.md section 5 C37, section 4.1 TimeWheel",
    },
    "level_note": "Time is virtual (one tick = one step); delays are whole ticks except the loop replay which adds a "
                  "sub-tick remainder; the pipeline's 4096-slot capacity (Add drops when full) is not reached; the "
                  "session layer's use of the wheel (Add at connect and on every command, Remove at session end, Session.Close as "
                  "callback) is covered by a seeded driver with up to three client connections against a real Server on loopback "
                  "(its wheel driven through the tick gate, unexported wheel state read by reflection while the wheel is parked), "
                  "not exhaustively.",
    "technique": "TLA+ spec + TLC exhaustive check; TLC-generated behaviours replayed on the real TimeWheel; "
                 "recorded traces validated by TLC",
}

MC_CFG = """SPECIFICATION Spec
CONSTANTS
  Keys = {k1, k2%(k3)s}
  N = %(n)d
  MaxDelay = %(maxd)d
  MaxOps = %(ops)d
  MaxTicks = %(ticks)d
INVARIANTS TypeOK FiresExactlyDue Registered PositionEncodesDue
PROPERTY DeadlineStable
CHECK_DEADLOCK FALSE
"""

GEN_CFG = """SPECIFICATION GenSpec
CONSTANTS
  Keys = {"k1", "k2"}
  N = %(n)d
  MaxDelay = %(maxd)d
  MaxOps = 1000
  MaxTicks = 1000
  GenLen = %(len)d
  TickWeight = %(tw)d
INVARIANTS Emit FiresExactlyDue
CHECK_DEADLOCK FALSE
"""

TRACE_CFG = """SPECIFICATION TraceSpec
CONSTANTS
  Keys = {"k1", "k2"}
  N = %(n)d
  MaxDelay = 1000
  MaxOps = 1000000
  MaxTicks = 1000000
INVARIANTS TypeOK Registered PositionEncodesDue
POSTCONDITION TraceAccepted
CHECK_DEADLOCK FALSE
"""

HARNESS = ["util/timewheel_test.go"]
RUN = "^TestVerifTimeWheelReplay$"


def nontrivial(c):
    """a behaviour is non-trivial when some key fires and some registration is refreshed or removed"""
    fires = any(e["ev"] == "tick" and e.get("fires") for e in c["events"])
    seen = set()
    touched = False
    for e in c["events"]:
        if e["ev"] == "add":
            if e["key"] in seen:
                touched = True
            seen.add(e["key"])
        elif e["ev"] == "del" and e["key"] in seen:
            touched = True
    return fires and touched


def replay(ctx, cases, n, label, loop_every, validate=True):
    """G: replay on the real wheel; V: validate the recorded trace with TLC."""
    tp = ctx.path("trace-%s.ndjson" % label)
    res, summ, out = ctx.harness("util", HARNESS, RUN, cases,
                                 env={"VERIF_TRACE_OUT": tp if validate else "", "VERIF_TW_LOOP_EVERY": loop_every})
    if summ["cases"] != len(cases):
        raise ctx_inconclusive("harness replayed %d of %d cases" % (summ["cases"], len(cases)))
    for r in res:
        for d in r.get("devs", []):
            ctx.deviation(d["sig"], d["what"], {"n": n, "case": r.get("obs")})
    ctx.cov["traces_validated_against_impl"] += summ["cases"]
    ctx.cov["evaluations"] += summ["cases"]
    ctx.cov.setdefault("replayed_direct", 0)
    ctx.cov.setdefault("replayed_through_goroutine_loop", 0)
    ctx.cov.setdefault("ticks_compared", 0)
    ctx.cov["replayed_direct"] += summ["cases"]
    ctx.cov["replayed_through_goroutine_loop"] += summ["loop_replays"]
    ctx.cov["ticks_compared"] += summ["ticks"]
    if validate:
        lines = [e for e in ctx.read_ndjson(tp) if not e.get("summary")]
        ok, rejected = ctx.validate_traces("TimeWheel_trace", "tw_trace.cfg", lines, cfg_text=TRACE_CFG % {"n": n})
        ctx.cov.setdefault("impl_traces_validated_by_tlc", 0)
        ctx.cov["impl_traces_validated_by_tlc"] += ok
        for rj in rejected:
            ctx.deviation("C37 trace rejected at %s" % rj["event"]["ev"],
                          "TLC rejects the recorded implementation trace at event %d: %s" % (rj["index"], json.dumps(rj["event"])),
                          {"n": n, "trace": rj["events"]})
        return lines
    return None


def ctx_inconclusive(msg):
    import vlib
    return vlib.Inconclusive(msg)


SESSION_HARNESS = ["proxy/server/proto_common_test.go", "proxy/server/c37_session_test.go"]
SESSION_RUN = "^TestVerifSessionIdleTimer$"
SESSION_TRACE_CFG = """SPECIFICATION TraceSpec
CONSTANTS
  Keys = {"k1", "k2", "k3", "k4", "k5", "k6", "k7", "k8", "k9", "k10", "k11", "k12", "k13", "k14", "k15", "k16", "k17", "k18", "k19", "k20", "k21", "k22", "k23", "k24"}
  N = 3600
  MaxDelay = 1000
  MaxOps = 1000000
  MaxTicks = 1000000
INVARIANTS TypeOK Registered PositionEncodesDue
POSTCONDITION TraceAccepted
CHECK_DEADLOCK FALSE
"""


def session_phase(ctx, rng, thorough):
    """The session layer's use of the idle timer (proxy/server: Add at connect and on every command, Remove when the
    session ends, Session.Close as callback): a real Server on loopback runs its own wheel (N = 3600, tick = 5 s,
    sessionTimeout = d ticks) behind the verif tick gate; a seeded driver lets up to three client connections connect,
    send commands, quit and lets ticks happen; the recorded add/del/tick events are validated by TLC with TimeWheel_trace.
    The harness asserts the session-level effects itself: a fired session's connection is closed, others still answer."""
    import vlib
    scen = [dict(timeout_ticks=2, steps=80), dict(timeout_ticks=1, steps=60)]
    if thorough:
        scen = [dict(timeout_ticks=d, steps=220) for d in (1, 2, 3, 5, 2, 4)]
    lines = []
    tot = {"connects": 0, "commands": 0, "quits": 0, "ticks": 0, "fires": 0}
    for i, sc in enumerate(scen):
        case = dict(sc, id=1000 + i, seed=rng.randrange(1, 2 ** 31))
        tp = ctx.path("c37-session-trace-%d.ndjson" % i)
        res, summ, out = ctx.harness("proxy/server", SESSION_HARNESS, SESSION_RUN, [case], env={"VERIF_TRACE_OUT": tp})
        for r in res:
            for d in r.get("devs", []):
                if d["sig"].startswith("C37 harness"):
                    raise vlib.Inconclusive("session-level harness problem: %s: %s" % (d["sig"], d["what"]))
                ctx.deviation(d["sig"], d["what"], {"session_scenario": case})
        for k in tot:
            tot[k] += summ.get(k, 0)
        lines += [e for e in ctx.read_ndjson(tp) if not e.get("summary")]
    if not lines:
        raise vlib.Inconclusive("the session-level harness recorded nothing")
    ok, rejected = ctx.validate_traces("TimeWheel_trace", "tw_session_trace.cfg", lines, cfg_text=SESSION_TRACE_CFG)
    for rj in rejected:
        ctx.deviation("C37 session trace rejected at %s" % rj["event"]["ev"],
                      "TLC rejects the trace recorded from the server's own wheel at event %d: %s" % (rj["index"], json.dumps(rj["event"])),
                      {"n": 3600, "trace": rj["events"]})
    ctx.cov["traces_validated_against_impl"] += ok
    ctx.cov["session_level"] = dict(tot, scenarios=len(scen), events_validated_by_tlc=len(lines), traces_accepted=ok)
    ctx.log("session level:", tot, "events", len(lines), "traces accepted", ok, "of", len(scen))
    if tot["fires"] == 0:
        ctx.notes.append("session-level phase: no session was fired by a tick in this run")


def run(ctx):
    import vlib
    thorough = ctx.thorough
    ctx.assumptions += [
        "one specification step per wheel tick; real tick duration and goroutine scheduling of callbacks are not modelled",
        "replay drives util.TimeWheel in-package (add/remove/handleTick) and through start() with the verif tick gate",
    ]
    if ctx.replay:
        rec = ctx.read_ndjson(ctx.replay)[0]
        c = rec["case"]
        if "case" in c and c["case"]:
            replay(ctx, [c["case"]], c["n"], "replay", 1)
        elif "trace" in c:
            ok, rej = ctx.validate_traces("TimeWheel_trace", "tw_trace.cfg", c["trace"], cfg_text=TRACE_CFG % {"n": c["n"]})
            for rj in rej:
                ctx.deviation("C37 trace rejected at %s" % rj["event"]["ev"], "replayed trace rejected", c)
        return

    # 1. exhaustive model check of the design: wheel algorithm == deadline reference
    mcs = [dict(k3="", n=3, maxd=7, ops=3, ticks=8)]
    if thorough:
        mcs = [dict(k3="", n=3, maxd=7, ops=4, ticks=9), dict(k3=", k3", n=2, maxd=5, ops=4, ticks=7),
               dict(k3="", n=1, maxd=3, ops=4, ticks=6), dict(k3="", n=4, maxd=9, ops=3, ticks=11)]
    for m in mcs:
        r = ctx.tlc("TimeWheel", "tw_mc.cfg", extra_files={"tw_mc.cfg": MC_CFG % m}, coverage=True,
                    timeout=1500, label="exhaustive %s" % m)
        ctx.log("mc", m, r.stats(), "%.1fs" % r.wall)
        if r.zero_actions:
            ctx.notes.append("vacuous actions in %s: %s" % (m, r.zero_actions))

    # 2. G: bounded-exhaustive behaviours + seeded random long behaviours, replayed on the real wheel
    rng = random.Random(ctx.seed)
    plans = [dict(n=3, maxd=4, len=4, tw=1, mode="mc")]
    sims = [dict(n=3, maxd=7, len=16, tw=4, num=150), dict(n=1, maxd=3, len=12, tw=3, num=60),
            dict(n=4, maxd=9, len=18, tw=5, num=100)]
    if thorough:
        plans = [dict(n=3, maxd=4, len=5, tw=1, mode="mc"), dict(n=2, maxd=5, len=4, tw=1, mode="mc")]
        sims = [dict(n=3, maxd=7, len=20, tw=4, num=1200), dict(n=1, maxd=3, len=14, tw=3, num=500),
                dict(n=4, maxd=9, len=24, tw=5, num=1200), dict(n=2, maxd=9, len=20, tw=4, num=800)]
    nontriv = set()
    first_trace = None
    for p in plans:
        r = ctx.tlc("TimeWheel_gen", "tw_gen.cfg", extra_files={"tw_gen.cfg": GEN_CFG % p}, workers=1,
                    timeout=1200, label="generate all behaviours of length %d" % p["len"])
        cases = r.cases
        ctx.log("generated", len(cases), "behaviours of length", p["len"], "N =", p["n"])
        for c in cases:
            if nontrivial(c):
                nontriv.add(json.dumps(c["events"], sort_keys=True))
        ctx.sample({"n": p["n"], "events": cases[len(cases) // 2]["events"]})
        tr = replay(ctx, cases, p["n"], "bfs%d" % p["len"], 7 if not thorough else 11, validate=(len(cases) < 60000))
        if tr and not first_trace:
            first_trace = (tr, p["n"])
    for s in sims:
        if ctx.violations:
            ctx.notes.append("violations found in the bounded-exhaustive replay; simulation phases skipped")
            break
        r = ctx.tlc("TimeWheel_gen", "tw_gen.cfg", extra_files={"tw_gen.cfg": GEN_CFG % s}, workers=1, mode="sim",
                    sim="num=%d" % s["num"], depth=s["len"] + 1, timeout=600, seed=rng.randrange(1, 2 ** 31),
                    label="simulate length %d" % s["len"])
        cases = r.cases
        if not cases:
            raise vlib.Inconclusive("simulation produced no behaviours")
        ctx.log("simulated", len(cases), "behaviours of length", s["len"], "N =", s["n"])
        for c in cases:
            if nontrivial(c):
                nontriv.add(json.dumps(c["events"], sort_keys=True))
        ctx.sample({"n": s["n"], "events": cases[0]["events"]})
        replay(ctx, cases, s["n"], "sim%d" % s["n"], 1)
    ctx.cov["distinct_nontrivial"] = len(nontriv)
    ctx.cov["rule"] = ("behaviours = event sequences over add(key,delay)/del(key)/tick enumerated by TLC (all of a bounded length, "
                       "plus seeded simulation); non-trivial = at least one key fires and at least one registration is refreshed or removed")

    # 2b. V at the session level: a real Server on loopback, its own wheel driven through the tick gate
    session_phase(ctx, rng, thorough)

    # 3. binding self-test: a corrupted expectation and a corrupted trace must both be rejected
    if ctx.violations:
        return  # the binding has just demonstrated itself on a real deviation
    tr, n = first_trace or (None, 3)
    bad_case = {"n": 3, "events": [{"ev": "add", "key": "k1", "d": 1}, {"ev": "tick", "fires": [], "now": 0},
                                   {"ev": "tick", "fires": [], "now": 1}]}  # the specification fires k1 at tick 1
    res, summ, _ = ctx.harness("util", HARNESS, RUN, [bad_case], env={"VERIF_TW_LOOP_EVERY": 1})
    caught_g = any(r.get("devs") for r in res)
    caught_v = False
    if tr:
        import copy
        t2 = copy.deepcopy(tr[:4000])
        for e in t2:
            if e["ev"] == "tick" and e["fires"]:
                e["fires"] = []
                break
        import vlib as _v
        sub = _v.Ctx(ctx.pid, ctx.tier, ctx.seed, replay="selftest")
        try:
            ok, rej = sub.validate_traces("TimeWheel_trace", "tw_trace.cfg", t2, cfg_text=TRACE_CFG % {"n": n}, max_rejects=1)
            caught_v = len(rej) > 0
        finally:
            sub.cleanup()
    ctx.cov["binding_selftest"] = {"corrupted_expectation_detected": caught_g, "corrupted_trace_rejected": caught_v}
    if not (caught_g and caught_v):
        raise vlib.Inconclusive("binding self-test failed: a corrupted case/trace was accepted (%s, %s)" % (caught_g, caught_v))
