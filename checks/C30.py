"""C30 - password checks accept exactly the proofs MySQL would accept (mysql/util.go, proxy/server/manager.go, session.go).

Specification: spec/Auth.tla part 1 (abstract one-way functions Native / Sha2, stored forms clear / '*'-hash, Accept by
MySQL's protocol rules) and spec/Auth_hs.tla (configure credentials, client hello, decision).
Binding: G - every decided handshake TLC enumerates is instantiated with crypto/sha1 / crypto/sha256 and seeded
salts/passwords and replayed on Session.handleHandshakeResponse, UserManager.Check*, mysql.CalcPassword /
CalcCachingSha2Password / CheckHashPassword.
"""
import _wire
import vlib

MANIFEST = {
    "engine": "tla-auth",
    "level_claimed": {
        "category": "model_checking",
        "text": "TLC enumerates every handshake of the abstract model: 1..2 (thorough 3) ordered credentials per user name out "
                "of {empty, clear p1, clear p2, '*'-hash p1, '*'-hash p2, clear texts that look like a hash: '*'+<40 / '*'+>40 / '*'+40 "
                "non-hex characters (alone or next to p1 in either form)}, plugin field in {none, mysql_native_password, "
                "caching_sha2_password}, response in {empty} + {native, sha2} x {this salt, another salt} x {p1, p2, another "
                "user's password, the text of a stored hash} x {unmodified, one bit flipped, truncated, one byte longer, "
                "one NUL byte longer, padded}; it checks soundness, completeness, the empty-password rule, order independence of Accept, and "
                "emits each decided state with Accept's verdict and the expected answer of each single check function. "
                "Every case is replayed with seeded concrete salts/passwords on the real selection logic and check functions.",
        "design_ref": "DESIGN.md section 5 C30, section 4.1 Auth",
    },
    "level_note": "SHA-1 / SHA-256 are not modelled: Native and Sha2 are abstract injective functions in the specification; the "
                  "harness instantiates them with an independent implementation on crypto/sha1 / crypto/sha256 (trusted base) "
                  "and assumes no collisions. A correct sha2 proof for a password stored only as '*'-hash is undecidable for any "
                  "server and left unconstrained. '*' + 40 hexadecimal digits is always the hash form (a clear-text password of exactly "
                  "that shape is outside the model); every other '*'-prefixed text is clear text. The wire parsing of the handshake packet (readHandshakeResponse, auth switch) "
                  "is not covered: the check starts at HandshakeResponseInfo.",
    "technique": "TLA+ spec + TLC exhaustive enumeration; TLC-emitted cases instantiated with the standard library and replayed on the real checks",
}

CFG = """SPECIFICATION Spec
CONSTANTS
  W4 = 2
  W6 = 4
  MapZeros = 1
  Passwords = {"p1", "p2"}
  FirstPw = "p1"
  StarPasswords = {"s:short", "s:long", "s:nonhex"}
  OtherPw = "p3"
  Salts = {"s1", "s2"}
  ServerSalt = "s1"
  Plugins = {"", "mysql_native_password", "caching_sha2_password"}
  MaxStored = %(maxstored)d
  EmitCases = TRUE
INVARIANTS TypeOK Sound NeverAccepted Complete EmptyRule OrderFree Emit
CHECK_DEADLOCK FALSE
"""

HARNESS = ["proxy/server/authcheck_test.go", "proxy/server/authcommon_test.go"]
RUN = "^TestVerifAuthCheck$"
PKG = "proxy/server"


def corrupt_accept(c):
    c["verdict"] = "reject"
    c["native_clear"] = False
    return c


def corrupt_reject(c):
    c["verdict"] = "accept"
    return c


def run(ctx):
    ctx.assumptions += [
        "Native / Sha2 are injective and one-way; modified bytes never form another valid proof",
        "the check sees HandshakeResponseInfo (user, salt, response, plugin field) as readHandshakeResponse leaves it",
    ]
    if ctx.replay:
        rec = ctx.read_ndjson(ctx.replay)[0]
        _wire.replay(ctx, PKG, HARNESS, RUN, [rec["case"]], env={"VERIF_C30_WORLDS": 4})
        return
    maxstored = 3 if ctx.thorough else 2
    r = ctx.tlc("Auth_hs", "hs.cfg", coverage=True, workers=1, timeout=1500,
                extra_files={"hs.cfg": CFG % {"maxstored": maxstored}},
                label="all handshakes with <= %d credentials per user name" % maxstored)
    cases = r.cases
    if not cases:
        raise vlib.Inconclusive("TLC emitted no handshake cases")
    if r.zero_actions:
        ctx.notes.append("vacuous actions: %s" % r.zero_actions)
    nacc = sum(1 for c in cases if c["verdict"] == "accept")
    ctx.log("emitted", len(cases), "handshakes;", nacc, "accepted by the specification;",
            sum(1 for c in cases if c["verdict"] == "either"), "unconstrained", "%.1fs" % r.wall)
    known = vlib.known_replay_cases(ctx.pid)
    worlds = 2 if not ctx.thorough else 3
    # binding self-test (rides on the same harness run): flip the verdict of an accepted and of a rejected case
    good_acc = next(c for c in cases if c["verdict"] == "accept" and c["plugin"] == "" and len(c["stored"]) == 1
                    and c["stored"][0]["form"] == "clear" and c["resp"]["m"] == "native")
    good_rej = next(c for c in cases if c["verdict"] == "reject" and c["plugin"] == "" and len(c["stored"]) == 1
                    and c["stored"][0]["form"] == "clear" and c["resp"]["mod"] == "bitflip")
    res, summ = _wire.replay(ctx, PKG, HARNESS, RUN, cases + known, env={"VERIF_C30_WORLDS": worlds},
                             selftests=[("accept_turned_into_reject_detected", good_acc, corrupt_accept),
                                        ("reject_turned_into_accept_detected", good_rej, corrupt_reject)])
    ctx.log("replayed", {k: v for k, v in summ.items() if k != "dev_counts"})
    ctx.cov["traces_validated_against_impl"] += summ["cases"]
    ctx.cov["instantiations_per_case"] = worlds
    ctx.cov["deviation_counts"] = summ.get("dev_counts", {})
    ctx.cov["unconstrained_decisions"] = summ["either"]
    ctx.cov["distinct_nontrivial"] = sum(1 for c in cases if c["verdict"] == "accept" or c["resp"]["mod"] != "none"
                                         or c["resp"]["pw"].startswith("*") or len(c["stored"]) > 1)
    ctx.cov["rule"] = ("case = (ordered credentials, plugin field, abstract response) from TLC; non-trivial = the specification "
                       "accepts, or the response is a modified proof / the text of a stored hash, or the user has several credentials")
    ctx.sample(next(c for c in cases if c["verdict"] == "accept" and len(c["stored"]) == 2))
    ctx.sample(next(c for c in cases if c["resp"]["mod"] == "ext21"))
