"""C22 - read/write splitting sends only plain reads to replicas.

Specification: spec/StmtPolicy.tla part 1 (MustUseMaster, ReplicaAllowed), spec/StmtPolicy_gen.tla (Family = "C22").
Binding: G.  TLC enumerates read descriptors (SELECT / SHOW x lock clause x lock option x master hint position x
read_only probe x leading decoration x keyword case x trailing decoration x channel x user flags x check_select_lock
x transaction state) and a few writes, each with the required decision; the Go harness renders each to SQL, sends it
through SessionExecutor.ExecuteCommand on a real Namespace whose master / replica node pools are recording fakes;
a statement that must use the master must not take a connection from a replica pool.
"""
import _policy as P

MANIFEST = {
    "engine": "tla-stmtpolicy",
    "level_claimed": {
        "category": "model_checking",
        "text": "TLC enumerates every well-formed combination of lock clause (FOR UPDATE / FOR SHARE / LOCK IN SHARE MODE x "
                "NOWAIT / SKIP LOCKED / OF tbl), master hint position and read_only probe for SELECT and SHOW under the full "
                "product of 6 leading decorations x 3 keyword casings x 8 trailing decorations x 5 channels for the rw-split "
                "user, with at most one lexical decoration under every user-flag / check_select_lock / transaction-state "
                "combination, and undecorated under every session history (keep-session namespace, earlier plain read, read "
                "preceding in the same multi-statement text, rw flag changed by a namespace reload after connect) (quick: at most one non-default decoration or context field plus a seeded sample); on each "
                "descriptor TLC checks that reject / must-use-master / replica-allowed partition the space, that a "
                "transaction pins the master and that decorations and channel do not change the decision, and emits the "
                "required decision; every descriptor is rendered to SQL and replayed on the real SessionExecutor with fake "
                "master and replica pools: the role of the pool each connection is taken from is compared with the decision.",
        "design_ref": "DESIGN.md section 5 C21/C22, section 4.1 StmtPolicy",
    },
    "level_note": "Rendering descriptor -> SQL is done in Go and is not an oracle. Read-only users' reads are replica-allowed "
                  "by design of the read-only flag (the repository's own tests expect it); with check_select_lock forced off "
                  "(not reachable through configuration, the loader always turns it on) a lock clause alone creates no master "
                  "obligation. Which replica is chosen (balancer) belongs to C25.",
    "technique": "TLA+ decision table + TLC enumeration; TLC-emitted descriptors with expected decision replayed on the real "
                 "SessionExecutor with fake master/replica pools",
}

FAMILY = "C22"


def run(ctx):
    import vlib
    ctx.assumptions += [
        "role observed = role (master/replica) of the fake pool whose Get served the statement; no Get = nothing to compare",
        "read-only users (rw_flag=1): all reads may go to replicas (design of the flag, TestCanExecuteFromSlave expects it)",
        "check_select_lock=off is set on the Namespace object directly; with it off a lock clause alone does not force the master",
        "session history is part of the descriptor: keep-session namespace (the role of a kept connection is observed at "
        "Execute), a plain read earlier in the session or earlier in the same multi-statement text, a real namespace reload "
        "that changed the user's rw flag after the session connected; monitor/statistic users and replica-failure fallback "
        "are not exercised",
    ]
    if ctx.replay:
        rec = ctx.read_ndjson(ctx.replay)[0]
        P.pol_check(ctx, FAMILY, [P.pol_clean(rec["case"])])
        return
    if ctx.thorough:
        r = P.pol_generate(ctx, FAMILY, "thorough", 0, 0)
    else:
        r = P.pol_generate(ctx, FAMILY, "quick", 250, 1)
    cases = [P.pol_clean(c) for c in r.cases]
    seen = set(vlib.json.dumps(c, sort_keys=True) for c in cases)
    for c in vlib.known_replay_cases(FAMILY):
        k = vlib.json.dumps(P.pol_clean(c), sort_keys=True)
        if k not in seen:
            seen.add(k)
            cases.append(P.pol_clean(c))
    must = [c for c in cases if c["expect"] == "master" and c["kind"] in ("select", "show") and c["intx"] == "no"]
    ctx.log("TLC emitted", len(r.cases), "descriptors;", len(must), "reads outside a transaction must use the master")
    good = dict(p=FAMILY, kind="select", lead="none", kwsep="space", cs="lower", trail="none", lock="none", lockopt="none",
                hint="none", probe="none", chan="query", intx="no", ro=False, split=True, csl=True, expect="any")
    devs, summ = P.pol_check(ctx, FAMILY, cases, selftest=(good, "master"))
    nontriv = set((c["kind"], c["lock"], c["lockopt"], c["hint"], c["probe"], c["lead"], c["cs"], c["trail"], c["chan"])
                  for c in must if not c["ro"] and c["split"])
    ctx.cov["distinct_nontrivial"] = len(nontriv)
    ctx.cov["rule"] = ("distinct (kind, lock, lockopt, hint, probe, lead, case, trail, channel) of reads of the rw-split user "
                       "outside a transaction that must use the master")
    ctx.cov["must_use_master_reads"] = len(must)
    for c in must[:: max(1, len(must) // 5)][:5]:
        ctx.sample(c)
    oc = ctx.cov.get("outcomes", {})
    if not oc.get("any/replica"):
        raise vlib.Inconclusive("no plain read was served by a replica pool: the fake replica pools are not in use (vacuous run)")
