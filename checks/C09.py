"""C09 - range and calendar rules place each key in its configured interval.

Specification: spec/RoutingPlace.tla (RangePlace: half-open intervals; DatePlace: Gregorian calendar written in TLA+
as days-from-civil; accepted spellings; FieldClass = why a string is not a date), spec/RoutingPlace_gen.tla
(universe + the properties TLC checks on the specification: PlaceTotal, SpellingsAgree, RangePartition, LayoutSane),
spec/RoutingPlace_cal.tla (the calendar arithmetic against the calendar successor, day by day).
Binding: G - TLC emits (rule, time zone, key, expected table or Reject, expected slice) and the layout of every rule;
harness/proxy/router/place_test.go builds the rule with models.Namespace -> router.NewRouter and calls
Rule.FindTableIndex / GetSliceIndexFromTableIndex / GetSubTableIndexes.
"""
import random

import _place
import vlib

MANIFEST = {
    "engine": "tla-routing-place",
    "level_claimed": {
        "category": "model_checking",
        "text": "TLC enumerates every (rule layout, time zone, key) of a boundary universe (interval edges +-1, numeric "
                "strings, 64-bit edges; period boundaries +-1 s in three spellings, leap days, year ends, every prefix "
                "length 0-19 of a date-time, malformed and lenient spellings), checks on each state that placement is "
                "total-or-reject, that the spellings of one instant are placed alike, that range intervals partition the "
                "key line and that layouts list every table once, and checks the TLA+ calendar (days-from-civil) against "
                "the calendar successor for every day of 1899-2101 and around years 1 and 9999; every enumerated case is "
                "replayed on the real router (NewRouter, FindTableIndex, slice lookup, sub-table list) with the expected "
                "value computed by TLC.",
        "design_ref": "DESIGN.md section 5 C09, section 4.1 Routing",
    },
    "level_note": "The proxy's time zone is a fixed offset set through time.Local (no DST rules); timestamps are limited to "
                  "years 1000-9999; range layouts keep tables*limit below 10^9 so that interval bounds are TLC integers "
                  "(keys themselves are digit sequences up to +-2^63). A panic carrying the package's own router.KeyError "
                  "(NumValue on a non-numeric string) is counted as a rejection; any other panic is a crash. Strings that "
                  "are no accepted spelling but whose year/month/day fields are readable and inside the calendar are "
                  "'lenient': the implementation may place them in that period or reject them.",
    "technique": "TLA+ spec + TLC exhaustive enumeration of a boundary universe with spec-level invariants; TLC-generated "
                 "cases with TLC-computed expectations replayed on the real router",
}

CAL_CFG = """SPECIFICATION Spec
CONSTANTS
  Neg = %(neg)s
  Center = %(center)d
  Back = %(back)d
  Fwd = %(fwd)d
INVARIANTS CalOK Anchors
CHECK_DEADLOCK FALSE
"""


def nontrivial(c):
    """a case is non-trivial when the key sits on an interval / period boundary (+-1) or is not an accepted spelling"""
    if c.get("item") == "layout":
        return False
    k = c["key"]
    if c["rule"]["type"] == "range":
        if k["kind"] == "str":
            return True
        if len(k["digits"]) > 9:
            return True
        v = int("".join(str(d) for d in k["digits"])) * (-1 if k["neg"] else 1)
        lim = c["rule"]["limit"]
        return min(v % lim, (-v) % lim) <= 1
    if k["kind"] == "ts":
        return k["sec"] in (0, 1, 86399, 86398) or (k["sec"] + c["tz"]) % 86400 in (0, 1, 86399, 86398)
    return c["cls"] != "accepted" or c["item"] == "instant"


def run(ctx):
    thorough = ctx.thorough
    ctx.assumptions += [
        "time zone of the proxy = fixed offset (time.Local is set to time.FixedZone by the harness)",
        "keys reach FindTableIndex as int64 / uint64 / int / string (the types util.GetValueExprResult produces)",
        "a panic with a router.KeyError value is the package's typed rejection and counts as 'rejected'",
    ]
    if ctx.replay:
        if not _place.run_replay_file(ctx):
            raise vlib.Inconclusive("unknown replay record")
        return

    rng = random.Random(ctx.seed)
    # 1. the calendar of the specification, day by day (windows in days since 1970-01-01: 1997..2040 quick;
    #    1899..2101, around year 1, year 9999 and the 15th century thorough)
    wins = [(18000, 8000, 7700)] if not thorough else [(0, 26000, 48000), (-719000, 300, 1000), (2932000, 1000, 896), (-180000, 2000, 2000)]

    def cal():
        for center, back, fwd in wins:
            cfg = CAL_CFG % {"neg": "TRUE" if center < 0 else "FALSE", "center": abs(center), "back": back, "fwd": fwd}
            r = ctx.tlc("RoutingPlace_cal", "cal.cfg", extra_files={"cal.cfg": cfg}, workers=2, timeout=900, heap="2g",
                        label="calendar arithmetic, days %d..%d" % (center - back, center + fwd))
            ctx.log("calendar", (center - back, center + fwd), r.stats(), "%.1fs" % r.wall)
        return []

    # 2. G: enumerate, check the specification's own properties, replay on the real router
    zones = sorted({0, rng.choice(_place.ZONES[1:])})
    if thorough:
        zones = sorted(set([0, 28800, -18000, 19800] + [rng.choice(_place.ZONES[4:])]))
    xr = _place.extra_for("range", rng, 12 if not thorough else 60)
    xd = _place.extra_for("date", rng, 6 if not thorough else 20)
    if thorough:
        jobs = [cal, lambda: _place.generate(ctx, "range", "C09", True, [0], xr)] + [
            (lambda t=t: _place.generate(ctx, t, "C09", True, zones, xd, timeout=1500)) for t in ("date_year", "date_month", "date_day")]
    else:
        xboth = _place.merge_extra(xr, xd)
        jobs = [cal, lambda: _place.generate(ctx, "range+date_year+date_month+date_day", "C09", False, zones, xboth)]
    cases = [c for part in _place.parallel(jobs, 3 if not thorough else 4) for c in part]
    for k in vlib.known_replay_cases("C09"):
        if k.get("kind") == "place":
            cases.append(dict(k["case"]))
    summ = _place.replay(ctx, cases, selftest=True)
    ctx.log("replayed", summ)
    nt = set()
    for c in cases:
        if nontrivial(c):
            nt.add(_place.json.dumps([c["rule"], c["tz"], c["key"]], sort_keys=True))
    ctx.cov["distinct_nontrivial"] = len(nt)
    ctx.cov["rule"] = ("case = (rule layout, time zone, key); non-trivial = the key is within 1 of an interval bound / within 1 s of a "
                       "period boundary (in local or UTC time), is a numeric or malformed string, or is one of the three spellings of an instant")
    ctx.cov["zones"] = zones
    for c in (cases[1], cases[len(cases) // 3], cases[len(cases) // 2], cases[-5]):
        _place.sample(ctx, c)
