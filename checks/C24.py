"""C24 - the connection pool never over-allocates, double-issues or fails a return (util.ResourcePool).

Specification: spec/ResourcePool.tla (I-level: one action per atomic step = one verifStep hook in
util/resource_pool.go; P-level ghost state + invariants), ResourcePool_gen.tla (schedules), ResourcePoolP.tla +
ResourcePoolP_trace.tla (P-level judgement of recorded resource events), ResourcePool_trace.tla (step traces
against the I-level; MODEL-DRIFT only).
Binding: G = TLC-generated schedules (every I-level counterexample as a *candidate*, plus ordinary complete
schedules) imposed on real goroutines by the gate scheduler of harness/util/resourcepool_test.go, P-level monitors
after every step; V = seeded random gate schedules and really concurrent runs of the real pool, resource events
judged by TLC against the P-level, step traces validated against the I-level.
Backend layer: spec/ConnPool.tla (connectionPoolImpl.Get/Put/Close + pooledConnectImpl.Recycle over an abstract
pool) with ConnPool_gen.tla; harness/backend/connpool_test.go imposes its behaviours on the real wrapper + real
util.ResourcePool (in-memory connections), same P-level monitors and TLC judgement.
A verdict only ever comes from the real pool showing a P-level bad state.
"""
import copy
import json
import os
import random
from concurrent.futures import ThreadPoolExecutor

MANIFEST = {
    "engine": "tla-resourcepool",
    "level_claimed": {
        "category": "model_checking",
        "text": "TLC explores every interleaving of the pool algorithm at the granularity of its atomic steps (channel "
                "operation, counter update, CAS, lock) for 2-3 clients doing get/Put together with idle sweeps, scale-in "
                "ticks and their worker goroutine, SetCapacity and Close (capacity <= 2, max 2), checking hand-outs <= max, "
                "one holder per resource, Put never panics, quiescent idle + in-use = capacity and deadlock freedom; every "
                "bad state TLC reaches is a candidate whose schedule is imposed step by step on real goroutines using the real "
                "util.ResourcePool through build-tagged step hooks (gate scheduler), and counts only when the real pool shows "
                "the bad state; ordinary TLC schedules are imposed the same way comparing the real counters with the "
                "specification after every step; seeded random gate schedules and really concurrent runs record resource events "
                "that TLC judges against the P-level specification and step traces that TLC validates against the I-level. "
                "The backend wrapper (connectionPoolImpl Get/Put/Close, pooledConnectImpl.Recycle) has its own small model, checked "
                "exhaustively; all its behaviours for 2 clients and sampled ones for 3 are imposed on the real wrapper over the real pool.",
        "design_ref": "DESIGN.md section 5 C24, section 2.3, section 3.4, Appendix A.1",
    },
    "level_note": "Wall-clock is abstracted: idle expiry and the 60 s scale-in cool-down are choices of the schedule (the "
                  "harness sets idleTimeout / scaleOutTime accordingly); timer.Timer.Stop is modelled as 'waits for the running "
                  "callback' (read from util/timer/timer.go); statistics counters active/waitCount/idleClosed are not modelled; "
                  "SetCapacity arguments are 1..max; the backend wrapper is bound at the granularity the inner pool's hooks allow "
                  "(pointer read + inner call are one step each; ping-on-get, GetCheck and SetCapacity of the wrapper are not exercised; "
                  "pooledConnectImpl.Recycle's returnTime write after Put is not judged); "
                  "the exhaustive configurations that include capacity changes or Close are cut behind the recorded root-cause "
                  "states (known findings), i.e. they are exhaustive for the interleavings in which no such root cause occurs.",
    "technique": "TLA+ I-level/P-level specification + TLC exhaustive check; TLC counterexamples and schedules imposed on the "
                 "real pool by a gate scheduler; recorded resource events and step traces validated by TLC",
}

HARNESS = ["util/resourcepool_test.go"]
RUN = "^TestVerifResourcePool$"

CONSTS = """CONSTANTS
  Clients = {%(clients)s}
  MaxCap = %(max)d
  InitCap = %(init)d
  Rounds = %(rounds)d
  Sweeps = %(sweeps)d
  Ticks = %(ticks)d
  SetCapTo = %(setcap)d
  WithClose = %(close)s
  FactoryFails = %(ff)s
  PutNil = %(pn)s
  Timeouts = %(to)s
"""
P_INV = "NoOverAllocation OneHolder PutNeverFails NoOtherPanic QuiescentAccounting"
MC_CLEAN = "SPECIFICATION Spec\n" + CONSTS + "INVARIANTS TypeOK " + P_INV + \
           " CountersAgree SlotsConserved CapacityInRange NoRootCause\nCHECK_DEADLOCK TRUE\n"
MC_CUT = "SPECIFICATION Spec\n" + CONSTS + "INVARIANTS TypeOK " + P_INV + \
         " CountersAgree SlotsConserved RepairHolds\nCONSTRAINT NoRootCause\nCHECK_DEADLOCK TRUE\n"
GEN = "SPECIFICATION GenSpec\n" + CONSTS + "VIEW GenView\nINVARIANTS EmitBad EmitEnd\nCHECK_DEADLOCK FALSE\n"
TRACE_I = "SPECIFICATION TraceSpec\n" + CONSTS + "POSTCONDITION TraceAccepted\nCHECK_DEADLOCK FALSE\n"
TRACE_P = "SPECIFICATION TraceSpec\nPOSTCONDITION TraceAccepted\nCHECK_DEADLOCK FALSE\n"


BHARNESS = ["backend/connpool_test.go"]
BRUN = "^TestVerifConnPool$"
BCONSTS = "CONSTANTS\n  Clients = {%(clients)s}\n  Cap = %(cap)d\n  Rounds = %(rounds)d\n"
B_MC = "SPECIFICATION CSpec\n" + BCONSTS + "INVARIANTS C_TypeOK C_PutNeverFails C_NoOverAllocation C_Quiescent C_CloseWaits\nCHECK_DEADLOCK TRUE\n"
B_GEN = "SPECIFICATION GSpec\n" + BCONSTS + "INVARIANTS CEmit C_PutNeverFails\nCHECK_DEADLOCK FALSE\n"


def bconsts(clients, cap, rounds):
    return dict(clients=",".join('"c%d"' % (i + 1) for i in range(clients)), cap=cap, rounds=rounds)


def consts(clients=2, max=2, init=1, rounds=2, sweeps=0, ticks=0, setcap=0, close=False, ff=False, pn=False, to=False):
    return dict(clients=",".join('"c%d"' % (i + 1) for i in range(clients)), max=max, init=init, rounds=rounds,
                sweeps=sweeps, ticks=ticks, setcap=setcap, close=str(bool(close)).upper(), ff=str(bool(ff)).upper(),
                pn=str(bool(pn)).upper(), to=str(bool(to)).upper())


def hcfg(clients=2, max=2, init=1, rounds=2, sweeps=0, ticks=0, setcap=0, close=False, ff=False, pn=False, to=False):
    """the same configuration in the harness's vocabulary"""
    return {"clients": ["c%d" % (i + 1) for i in range(clients)], "max": max, "init": init, "rounds": rounds,
            "sweeps": sweeps, "ticks": ticks, "setcap": setcap, "close": bool(close), "ff": bool(ff), "putnil": bool(pn),
            "timeouts": bool(to)}


def from_hcfg(h):
    return dict(clients=len(h["clients"]), max=h["max"], init=h["init"], rounds=h["rounds"], sweeps=h["sweeps"],
                ticks=h["ticks"], setcap=h["setcap"], close=h["close"], ff=h.get("ff", False), pn=h.get("putnil", False),
                to=h.get("timeouts", False))


def interleaved(sched):
    """non-trivial: another process takes a pool step strictly inside one get or Put of a client"""
    pending = {}
    for st in sched:
        p, l = st["p"], st["l"]
        if p.startswith("c"):
            if l in ("g1", "p2"):
                pending[p] = 0
            elif pending.get(p, 0) > 0:
                return True
        if l not in ("i0", "t0"):
            for q in pending:
                if q != p:
                    pending[q] += 1
        if p.startswith("c") and l in ("g12", "g10", "p3"):
            pending.pop(p, None)
    return False


SYMPTOM_OF = {"P_NoOverAllocation": "over-allocation", "P_OneHolder": "double-issue",
              "P_QuiescentAccounting": "quiescent-accounting"}


def panic_class(msg):
    if "send on closed channel" in msg:
        return "send-on-closed-channel"
    if "close of closed channel" in msg:
        return "close-of-closed-channel"
    if "Put into a full" in msg:
        return "full-pool"
    if "connection pool is closed" in msg:
        return "pool-closed"
    return "other"


def strip_sched(sched):
    return [{"p": s["p"], "l": s["l"], "a": s["a"], "r": s.get("r", -1)} for s in sched]


def run(ctx):
    import vlib
    thorough = ctx.thorough
    rng = random.Random(ctx.seed)
    ctx.assumptions += [
        "atomic steps are the verifStep hook points of util/resource_pool.go (one hook immediately before each channel "
        "operation / counter update / CAS / lock acquisition); code between two hooks of one goroutine is one step",
        "idle expiry and the scale-in cool-down are schedule choices, not wall-clock",
        "timer.Timer.Stop waits for a running callback and prevents later ones (Close's k1/k2 steps)",
        "clients return every resource they obtained exactly once (Put(resource) or Put(nil))",
        "a factory call whose get gave up (context expired) completes later as an environment step; its result belongs to nobody",
    ]

    # ------------------------------------------------------------------ replay of a stored violation
    if ctx.replay:
        rec = ctx.read_ndjson(ctx.replay)[0]
        c = rec["case"]
        if c.get("mode") == "trace":
            verdicts = judge_events(ctx, c["events"])
            for t, v in verdicts.items():
                for cl in v["viol"]:
                    ctx.deviation(rec["signature"], "replayed trace violates %s" % cl, c)
        elif c.get("mode") == "bsched":
            res, summ, out = ctx.harness("backend", BHARNESS, BRUN, [{"kind": "replay", "clients": c["clients"], "cap": c["cap"],
                                                                      "rounds": c["rounds"], "sched": c["sched"]}])
            for r in res:
                for d in r.get("devs", []):
                    ctx.deviation(d["sig"], d["what"], c)
        else:
            res, summ, out = ctx.harness("util", HARNESS, RUN, [{"kind": "replay", "cfg": c["cfg"], "sched": c["sched"]}])
            for r in res:
                for d in r.get("devs", []):
                    ctx.deviation(d["sig"], d["what"], c)
                if r["obs"].get("drift"):
                    ctx.log("replay diverged:", r["obs"]["drift"])
        return

    # ------------------------------------------------------------------ 1. exhaustive model checking
    W = "auto" if thorough else 4
    mcs = [("steady 2x2", MC_CLEAN, consts(sweeps=1, ff=True, pn=True)),
           ("setcap+close 2x2 (no cut needed since fix 98e158f)", MC_CLEAN, consts(setcap=2, close=True)),
           ("scale-in 2x1 cut, context expiry during factory calls", MC_CUT, consts(rounds=1, sweeps=1, ticks=1, to=True))]
    if thorough:
        mcs += [("scale-in 2x1 two ticks cut", MC_CUT, consts(rounds=1, sweeps=1, ticks=2)),
                ("setcap+close+sweep 2x2 factory failures", MC_CLEAN, consts(setcap=2, close=True, sweeps=1, ff=True, pn=True)),
                ("steady 2x2 timeouts", MC_CLEAN, consts(sweeps=2, ff=True, pn=True, to=True)),
                ("steady 3x1 max3", MC_CLEAN, consts(clients=3, rounds=1, max=3, sweeps=1, ff=True, pn=True)),
                ("scale-in 2x2 cut", MC_CUT, consts(sweeps=1, ticks=1, ff=True, pn=True)),
                ("all 2x1 two ticks cut", MC_CUT, consts(rounds=1, sweeps=1, ticks=2, setcap=2, close=True)),
                ("grow 2x2 max3 two ticks cut", MC_CUT, consts(max=3, ticks=2, setcap=3)),
                ("all 3x1 cut", MC_CUT, consts(clients=3, rounds=1, sweeps=0, ticks=1, setcap=2, close=True))]

    def do_mc(m):
        label, tmpl, k = m
        name = "mc_%s.cfg" % "".join(ch if ch.isalnum() else "_" for ch in label)
        r = ctx.tlc("ResourcePool", name, extra_files={name: tmpl % k}, coverage=True, workers=W, heap="6g" if thorough else "4g",
                    timeout=1500 if thorough else 900, label="exhaustive: " + label)
        ctx.log("mc", label, r.stats(), "%.1fs" % r.wall)
        return label, r

    # ------------------------------------------------------------------ 2. schedule generation
    gens = [("scalein3", consts(clients=3, rounds=1, ticks=1), "mc", None),
            ("late-factory", consts(clients=2, rounds=1, to=True), "mc", None)]
    sims = [("all3", consts(clients=3, rounds=1, sweeps=1, ticks=1, setcap=2, close=True, ff=True, pn=True, to=True), 120),
            ("scalein", consts(sweeps=1, ticks=1, ff=True, pn=True, to=True), 120),
            ("steady", consts(clients=3, rounds=2, max=3, init=1, sweeps=2, ff=True, pn=True, to=True), 120)]
    if not thorough:
        sims = [("all3", sims[0][1], 200)]
    if thorough:
        gens += [("scalein", consts(sweeps=1, ticks=1), "mc", None),
                 ("closetick", consts(ticks=1, close=True), "mc", None),
                 ("settick", consts(ticks=1, setcap=2), "mc", None),
                 ("twoticks", consts(ticks=2), "mc", None)]
        sims = [(n, k, 2500) for (n, k, _) in sims[:3]] + [("all2", consts(sweeps=1, ticks=2, setcap=2, close=True, ff=True, pn=True, to=True), 2500)]

    def do_gen(g):
        name, k, mode, _ = g
        cfgn = "gen_%s.cfg" % name
        r = ctx.tlc("ResourcePool_gen", cfgn, extra_files={cfgn: GEN % k}, workers=W if thorough else 2, heap="4g",
                    timeout=1500 if thorough else 900, label="generate: every bad state and terminal state of %s (BFS, one schedule each)" % name)
        ctx.log("gen", name, r.stats(), len(r.cases), "schedules", "%.1fs" % r.wall)
        return name, r

    def do_sim(sm):
        name, k, num = sm
        cfgn = "sim_%s.cfg" % name
        r = ctx.tlc("ResourcePool_gen", cfgn, extra_files={cfgn: GEN % k}, workers=1, mode="sim", sim="num=%d" % num, depth=200,
                    seed=rng.randrange(1, 2 ** 31), timeout=600 if thorough else 120, heap="2g",
                    label="simulate complete schedules of %s" % name)
        ctx.log("sim", name, len(r.cases), "schedules", "%.1fs" % r.wall)
        return name, r

    if os.environ.get("VERIF_C24_DEV_SKIP_TLC_EXPLORATION"):
        # development aid only (never set by the registered commands): skip the exhaustive runs and BFS generation,
        # keep the stored finding cases, one simulation, and the whole V side
        mcs, gens, sims = [], [], sims[:1]
        ctx.notes.append("DEV MODE: exhaustive TLC runs skipped")
    def do_backend_tlc():
        """backend layer: exhaustive check of the wrapper model, all behaviours of a small configuration, sampled larger ones"""
        k = bconsts(3, 2, 2)
        r = ctx.tlc("ConnPool", "cp_mc.cfg", extra_files={"cp_mc.cfg": B_MC % k}, coverage=True, workers=2, heap="2g", timeout=600,
                    label="exhaustive: backend wrapper, 3 clients x 2 rounds, capacity 2, one Close")
        ctx.log("mc backend", r.stats(), "%.1fs" % r.wall)
        if r.zero_actions:
            ctx.notes.append("backend model: actions never taken: %s" % r.zero_actions)
        bc = []
        for (ncl, cap, rounds) in ([(2, 1, 1)] + ([(2, 2, 1)] if thorough else [])):
            g = ctx.tlc("ConnPool_gen", "cp_gen.cfg", extra_files={"cp_gen.cfg": B_GEN % bconsts(ncl, cap, rounds)}, workers=1, heap="2g",
                        timeout=600, label="generate: every behaviour of the backend wrapper, %d clients x %d rounds, capacity %d" % (ncl, rounds, cap))
            ctx.log("gen backend", (ncl, cap, rounds), g.stats(), len(g.cases), "behaviours")
            bc += g.cases
        g = ctx.tlc("ConnPool_gen", "cp_sim.cfg", extra_files={"cp_sim.cfg": B_GEN % bconsts(3, 2, 2)}, workers=1, mode="sim",
                    sim="num=%d" % (1500 if thorough else 150), depth=80, seed=rng.randrange(1, 2 ** 31), timeout=300, heap="2g",
                    label="simulate backend wrapper behaviours, 3 clients x 2 rounds")
        bc += g.cases
        return bc

    with ThreadPoolExecutor(max_workers=4 if not thorough else 3) as ex:
        f_b = ex.submit(do_backend_tlc)
        f_mc = [ex.submit(do_mc, m) for m in mcs]
        f_gen = [ex.submit(do_gen, g) for g in gens]
        f_sim = [ex.submit(do_sim, s) for s in sims]
        mc_res = [f.result() for f in f_mc]
        gen_res = [f.result() for f in f_gen]
        sim_res = [f.result() for f in f_sim]
        bcases = f_b.result()
    # vacuity: every action of the specification must be taken in at least one exhaustive configuration
    never = None
    for label, r in mc_res:
        z = set(r.zero_actions) - {"Terminated"}
        never = z if never is None else (never & z)
    ctx.cov["actions_never_taken_in_any_exhaustive_run"] = sorted(never or [])
    if never:
        ctx.notes.append("vacuous: actions never taken in any exhaustive configuration of this tier: %s" % sorted(never))

    cases = []
    seen = set()

    def add_case(c, origin):
        key = json.dumps([c["cfg"], [(s["p"], s["l"], s["a"]) for s in c["sched"]]], sort_keys=True)
        if key in seen:
            return
        seen.add(key)
        c = dict(c)
        c["origin"] = origin
        cases.append(c)

    # cases stored with the known findings are always replayed (finding re-observed, or seen fixed)
    # (a repaired finding's case is replayed as far as the repaired code follows it and then run to completion:
    #  if the defect comes back the old signature is no longer listed as known and is reported)
    for k in vlib.load_known("C24"):
        kc = k.get("case")
        if not kc:
            continue
        kind = "candidate" if k.get("status", "known") == "known" else "regression"
        add_case({"kind": kind, "cfg": kc["cfg"], "sched": kc["sched"], "bad": kc.get("bad", []), "stale": kc.get("stale", "")},
                 "known" if kind == "candidate" else "fixed")
    ncand = 0
    for name, r in gen_res + sim_res:
        lim = 3000 if thorough else 400
        cs = r.cases
        cand = [c for c in cs if c["kind"] == "candidate"]
        ordi = [c for c in cs if c["kind"] == "ordinary"]
        if lim and len(cand) > lim:
            rng.shuffle(cand)
            cand = cand[:lim]
        if lim and len(ordi) > lim:
            rng.shuffle(ordi)
            ordi = ordi[:lim]
        for c in cand + ordi:
            c["cfg"]["ff"] = any(s["l"] == "g9" and s["a"] == 1 for s in c["sched"])
            add_case(c, name)
        ncand += len(cand)
    if not cases:
        raise vlib.Inconclusive("TLC generated no schedules")

    # binding self-test, G side: an ordinary schedule whose expected counters are corrupted must be reported as diverging
    st_case = None
    for c in cases:
        if c["kind"] == "ordinary" and len(c["sched"]) > 6:
            st_case = copy.deepcopy(c)
            st_case["sched"][5]["o"][1] += 1
            st_case["origin"] = "selftest"
            break

    # ------------------------------------------------------------------ 3. random gate schedules and free runs (V)
    nr = 60 if not thorough else 1200
    nf = 12 if not thorough else 150
    vfams = [("steady", hcfg(clients=3, max=2, init=1, rounds=3, sweeps=2, ff=True, pn=True, to=True)),
             ("steady", hcfg(clients=3, max=3, init=2, rounds=2, sweeps=1, ff=True, pn=True)),
             ("scalein", hcfg(clients=3, max=2, init=1, rounds=2, sweeps=1, ticks=2, pn=True)),
             ("setcap", hcfg(clients=3, max=3, init=1, rounds=2, setcap=3, pn=True)),
             ("close", hcfg(clients=3, max=2, init=1, rounds=2, close=True, ff=True)),
             ("close-held", hcfg(clients=2, max=2, init=2, rounds=1, close=True)),
             ("all", hcfg(clients=3, max=2, init=1, rounds=2, sweeps=1, ticks=1, setcap=2, close=True, ff=True, pn=True, to=True))]
    vcases = []
    for fam, h in vfams:
        vcases.append({"kind": "random", "cfg": h, "seed": rng.randrange(1, 2 ** 31), "runs": nr, "fam": fam,
                       "probe_every": 8 if thorough else 3})
    ffams = [("steady", hcfg(clients=4, max=3, init=1, rounds=30, sweeps=1, ff=True, pn=True)),
             ("scalein", hcfg(clients=4, max=3, init=1, rounds=30, sweeps=1, ticks=1, pn=True)),
             ("setcap", hcfg(clients=4, max=3, init=1, rounds=20, setcap=3)),
             ("close", hcfg(clients=4, max=3, init=1, rounds=20, close=True, sweeps=1))]
    for fam, h in ffams:
        vcases.append({"kind": "free", "cfg": h, "seed": rng.randrange(1, 2 ** 31), "runs": nf, "fam": fam})

    allcases = cases + ([st_case] if st_case else []) + vcases
    tp = ctx.path("events.ndjson")
    # backend-layer cases: distinct TLC behaviours + seeded random schedules
    bseen, ball = set(), []
    for c in bcases:
        key = json.dumps([c["clients"], c["cap"], c["rounds"], [(x["p"], x["l"]) for x in c["sched"]]])
        if key not in bseen:
            bseen.add(key)
            ball.append(c)
    if not thorough and len(ball) > 700:
        rng.shuffle(ball)
        ball = ball[:700]
    nb_tlc = len(ball)
    for (ncl, cap, rounds) in [(3, 2, 2), (2, 1, 2), (4, 3, 1)]:
        ball.append({"kind": "random", "clients": ["c%d" % (i + 1) for i in range(ncl)], "cap": cap, "rounds": rounds,
                     "seed": rng.randrange(1, 2 ** 31), "runs": 60 if not thorough else 1000})
    btp = ctx.path("bevents.ndjson")
    with ThreadPoolExecutor(max_workers=2) as ex:
        f_u = ex.submit(ctx.harness, "util", HARNESS, RUN, allcases, env={"VERIF_TRACE_OUT": tp}, timeout=1500)
        f_bh = ex.submit(ctx.harness, "backend", BHARNESS, BRUN, ball, env={"VERIF_TRACE_OUT": btp}, timeout=1500)
        res, summ, out = f_u.result()
        bres, bsumm, bout = f_bh.result()
    ctx.log("harness:", summ)
    ctx.log("backend harness:", bsumm)
    if bsumm.get("skipped"):
        raise vlib.Inconclusive("backend gate scheduler gave up after %d blocked steps" % bsumm["stuck"])
    if summ.get("skipped"):
        raise vlib.Inconclusive("gate scheduler gave up after %d blocked steps; %d cases skipped" % (summ["stuck"], summ["skipped"]))

    # ------------------------------------------------------------------ 4. classify what the real pool did
    stats = {"candidates": 0, "candidates_reproduced": 0, "candidates_not_reproduced": 0, "ordinary": 0,
             "ordinary_conforming": 0, "random_runs": 0, "free_runs": 0, "model_drift": 0,
             "probes_of_blocking_steps": 0, "probes_that_did_not_block": 0}
    drift_examples = []
    nontriv = set()
    selftest_g = False
    runinfo = {}
    for r in res:
        o = r["obs"]
        c = allcases[r["case"]]
        runinfo[o.get("trace")] = (o, c)
        devs = r.get("devs", [])
        if c.get("origin") == "selftest":
            selftest_g = bool(o.get("drift"))
            continue
        for d in devs:
            if o["kind"] == "free":
                case = {"mode": "trace", "fam": o.get("fam"), "events": o.get("events")}
            else:
                case = {"mode": "sched", "cfg": o["cfg"], "sched": strip_sched(o.get("sched") or []), "origin": c.get("origin", c["kind"])}
            ctx.deviation(d["sig"], d["what"], case)
        if o.get("drift"):
            stats["model_drift"] += 1
            if len(drift_examples) < 5:
                drift_examples.append({"kind": o["kind"], "origin": c.get("origin"), "drift": o["drift"]})
        if o["kind"] == "candidate":
            stats["candidates"] += 1
            if devs:
                stats["candidates_reproduced"] += 1
            else:
                stats["candidates_not_reproduced"] += 1
        elif o["kind"] == "ordinary":
            stats["ordinary"] += 1
            if not devs and not o.get("drift"):
                stats["ordinary_conforming"] += 1
        elif o["kind"] == "random":
            stats["random_runs"] += 1
            if o.get("probe"):
                stats["probes_of_blocking_steps"] += 1
                if "NOT" in o["probe"]:
                    stats["probes_that_did_not_block"] += 1
                    if stats["probes_that_did_not_block"] <= 3:
                        ctx.notes.append("MODEL-DRIFT: a step that blocks by Go semantics in the specification did not block: " + o["probe"])
        elif o["kind"] == "free":
            stats["free_runs"] += 1
    bstats = {"backend_tlc_behaviours_replayed": 0, "backend_conforming": 0, "backend_random_runs": 0, "backend_drift": 0}
    for r in bres:
        o = r["obs"]
        c = ball[r["case"]]
        runinfo[o.get("trace")] = (o, c)
        for d in r.get("devs", []):
            ctx.deviation(d["sig"], d["what"], {"mode": "bsched", "clients": o["clients"], "cap": o["cap"], "rounds": o["rounds"],
                                                "sched": o.get("sched") or []})
        if o["kind"] == "random":
            bstats["backend_random_runs"] += 1
        else:
            bstats["backend_tlc_behaviours_replayed"] += 1
            if not o.get("drift") and not r.get("devs"):
                bstats["backend_conforming"] += 1
        if o.get("drift") and not (o["kind"] == "random" and o["drift"].startswith("no enabled step") and r.get("devs")):
            bstats["backend_drift"] += 1
            if len(drift_examples) < 8:
                drift_examples.append({"kind": "backend " + o["kind"], "drift": o["drift"]})
    ctx.cov.update(bstats)
    if bstats["backend_drift"]:
        ctx.notes.append("MODEL-DRIFT (backend layer): %d schedules diverged from spec/ConnPool.tla (not a verdict)" % bstats["backend_drift"])
    for c in ball[:nb_tlc]:
        if len({x["p"] for x in c["sched"]}) > 1:
            nontriv.add(json.dumps(["b", c["cap"], [(x["p"], x["l"]) for x in c["sched"]]]))
    for c in cases:
        if interleaved(c["sched"]):
            nontriv.add(json.dumps([(s["p"], s["l"], s["a"]) for s in c["sched"]]))
    ctx.cov.update(stats)
    if drift_examples:
        ctx.cov["model_drift_examples"] = drift_examples
        ctx.notes.append("MODEL-DRIFT: %d schedules could not be imposed or the real counters differed from the I-level "
                         "specification (not a verdict; see model_drift_examples)" % stats["model_drift"])
    if stats["candidates_not_reproduced"]:
        ctx.notes.append("%d I-level counterexamples did not show a P-level bad state on the real pool (candidates only; "
                         "no verdict)" % stats["candidates_not_reproduced"])
    # when most ordinary schedules diverge the I-level model no longer describes the code: the G direction then says
    # little (evidence note; not a verdict - a harmless reordering of steps must not raise an alarm); the V direction
    # (random gate schedules and concurrent runs judged against the P-level) does not depend on the I-level model
    if stats["ordinary"] and stats["ordinary_conforming"] * 2 < stats["ordinary"]:
        ctx.notes.append("MODEL-DRIFT (major): the real pool diverges from the I-level specification on %d of %d ordinary schedules; "
                         "the step model needs to be re-derived from the code" % (stats["ordinary"] - stats["ordinary_conforming"], stats["ordinary"]))

    # ------------------------------------------------------------------ 5. V: TLC judges the recorded events (run concurrently)
    events = [e for e in ctx.read_ndjson(tp) if not e.get("summary")] + [e for e in ctx.read_ndjson(btp) if not e.get("summary")]
    bytrace = {}
    for e in events:
        bytrace.setdefault(e["t"], []).append(e)
    steps = [e for e in ctx.read_ndjson(tp + ".steps") if not e.get("summary")]
    bycase, sched_by_trace = {}, {}
    for e in steps:
        bycase.setdefault(e["t"].split(".")[0], []).append(e)
        sched_by_trace.setdefault(e["t"], []).append(e)
    for t, sc in sched_by_trace.items():
        if interleaved(sc):
            nontriv.add(json.dumps([(x["p"], x["l"], x["a"]) for x in sc]))

    # binding self-test, V side: a trace the harness saw as clean, corrupted in two ways, must be rejected by TLC
    good = None
    for t, evs in bytrace.items():
        o, c = runinfo.get(t, ({}, {}))
        if o and not o.get("symptoms") and c.get("origin") != "selftest" and any(e["ev"] == "Quiescent" for e in evs) \
                and any(e["ev"] == "PutDone" for e in evs):
            good = t
            break

    def selftest_v():
        if good is None:
            return False
        a_ = copy.deepcopy(bytrace[good])
        for e in a_:
            e["t"] = "A"
            if e["ev"] == "Quiescent":
                e["idle"] += 1
        b_ = copy.deepcopy(bytrace[good])
        hit = False
        for e in b_:
            e["t"] = "B"
            if e["ev"] == "PutDone" and not hit:
                e["ok"] = False
                hit = True
        sub = vlib.Ctx(ctx.pid, ctx.tier, ctx.seed, replay="selftest")
        try:
            vv = judge_events(sub, a_ + b_)
            return "P_QuiescentAccounting" in vv["A"]["viol"] and "P_PutNeverFails" in vv["B"]["viol"]
        finally:
            sub.cleanup()

    def judge_chunk(ids):
        return judge_events(ctx, [e for t in ids for e in bytrace[t]])

    def itrace(key):
        ci = int(key[1:])
        h = allcases[ci]["cfg"]
        lines = bycase[key]
        if not thorough:
            keep = set(sorted({e["t"] for e in lines})[:25])
            lines = [e for e in lines if e["t"] in keep]
        return ctx.validate_traces("ResourcePool_trace", "rp_trace_i_%s.cfg" % key, lines, cfg_text=TRACE_I % consts(**from_hcfg(h)),
                                   max_rejects=3, timeout=900)

    ids = list(bytrace)
    chunks, cur, n = [], [], 0
    for t in ids:
        cur.append(t)
        n += len(bytrace[t])
        if n >= 120000:
            chunks.append(cur)
            cur, n = [], 0
    if cur:
        chunks.append(cur)
    todo = sorted(bycase)
    if not thorough:
        todo = todo[:1] + todo[-1:]
    with ThreadPoolExecutor(max_workers=4 if not thorough else 3) as ex:
        f_j = [ex.submit(judge_chunk, ch) for ch in chunks]
        f_i = [ex.submit(itrace, k) for k in todo]
        f_s = ex.submit(selftest_v)
        verdicts = {}
        for f in f_j:
            verdicts.update(f.result())
        ires = [f.result() for f in f_i]
        caught_v = f_s.result()
    if good is not None and verdicts[good]["viol"]:
        raise vlib.Inconclusive("self-test base trace %s was itself rejected by TLC: %s" % (good, verdicts[good]))

    nrej = 0
    for t, v in verdicts.items():
        if not v["viol"]:
            continue
        o, c = runinfo.get(t, ({}, {}))
        if c.get("origin") == "selftest":
            continue
        nrej += 1
        evs = bytrace[t]
        for cl in v["viol"]:
            if cl == "P_DriverDiscipline":
                raise vlib.Inconclusive("harness returned a resource it did not hold (driver bug) in trace %s" % t)
            if cl == "P_PutNeverFails":
                syms = ["put-panic " + panic_class(e["what"]) for e in evs if e["ev"] == "PutDone" and not e["ok"]]
            elif cl == "P_NoOtherPanic":
                syms = [x for x in (o.get("symptoms") or []) if x.startswith("panic ")] or ["panic unknown"]
            else:
                syms = [SYMPTOM_OF[cl]]
            for sy in sorted(set(syms)):
                if o.get("layer") == "backend":
                    sig = "C24 backend %s" % sy
                    case = {"mode": "bsched", "clients": o["clients"], "cap": o["cap"], "rounds": o["rounds"], "sched": o.get("sched") or []}
                elif o.get("kind") == "free":
                    sig = "C24 free:%s %s" % (o.get("fam"), sy)
                    case = {"mode": "trace", "fam": o.get("fam"), "events": evs}
                else:
                    causes = o.get("causes") or []
                    sig = "C24 %s | cause=%s" % (sy, causes[0] if causes else "none")
                    case = {"mode": "sched", "cfg": o.get("cfg"), "sched": strip_sched(o.get("sched") or [])}
                ctx.deviation(sig, "TLC: recorded resource events of the real pool violate %s at event %d (%s)" % (cl, v["at"], sy), case)
    # the Go-side monitors and TLC must agree on which runs are bad (same events, two judges)
    disagree = [t for t, v in verdicts.items() if t in runinfo and runinfo[t][1].get("origin") != "selftest"
                and bool(v["viol"]) != bool(runinfo[t][0].get("symptoms"))]
    if disagree:
        raise vlib.Inconclusive("harness monitors and TLC disagree on %d traces (e.g. %s: TLC %s, harness %s)" % (
            len(disagree), disagree[0], verdicts[disagree[0]]["viol"], runinfo[disagree[0]][0].get("symptoms")))
    ctx.cov["traces_validated_against_impl"] += len(verdicts)
    ctx.cov["impl_event_traces_judged_by_tlc"] = len(verdicts)
    ctx.cov["impl_event_traces_rejected_by_tlc"] = nrej
    ctx.cov["evaluations"] += summ["runs"] + bsumm["runs"]
    ctx.cov["steps_executed_on_real_pool"] = summ["steps"]
    ctx.cov["steps_executed_on_real_backend_pool"] = bsumm["steps"]

    ok_i, rej_i = 0, 0
    for ok, rej in ires:
        ok_i += ok
        rej_i += len(rej)
        for rj in rej[:2]:
            ctx.notes.append("MODEL-DRIFT: step trace %s of the real pool is not a behaviour of the I-level specification at step %d %s"
                             % (rj["trace"], rj["index"], json.dumps(rj["event"])))
    ctx.cov["impl_step_traces_validated_by_tlc"] = ok_i
    ctx.cov["impl_step_traces_rejected_by_tlc"] = rej_i
    ctx.cov["traces_validated_against_impl"] += ok_i

    ctx.cov["distinct_nontrivial"] = len(nontriv)
    ctx.cov["rule"] = ("cases = complete schedules (sequences of <process, hook label, choice>) executed step by step on the real "
                       "ResourcePool through the gate scheduler (TLC-generated or seeded random); non-trivial = some other process "
                       "takes a pool step strictly inside a client's get or Put; counted distinct by the step sequence")
    for c in cases[:2] + cases[-1:]:
        ctx.sample({"origin": c["origin"], "kind": c["kind"], "cfg": c["cfg"], "bad": c.get("bad"), "stale": c.get("stale"),
                    "schedule": ["%s:%s%s" % (x["p"], x["l"], "/1" if x["a"] else "") for x in c["sched"]]})

    ctx.cov["binding_selftest"] = {"corrupted_expected_counters_detected_by_gate_replay": selftest_g,
                                   "corrupted_event_traces_rejected_by_tlc": caught_v}
    if not (selftest_g and caught_v):
        raise vlib.Inconclusive("binding self-test failed: corrupted case/trace accepted (G %s, V %s)" % (selftest_g, caught_v))

    # ------------------------------------------------------------------ 7. race detector on the concurrent driver (thorough)
    if thorough:
        rc_cases = [{"kind": "free", "cfg": h, "seed": rng.randrange(1, 2 ** 31), "runs": 25, "fam": fam} for fam, h in ffams[:2]]
        r2, s2, out2 = ctx.harness("util", HARNESS, RUN, rc_cases, race=True, timeout=1200, crash_ok=True)
        races = out2.count("WARNING: DATA RACE")
        ctx.cov["race_detector"] = {"runs": s2["runs"] if s2 else 0, "data_races_reported": races}
        if races:
            ctx.notes.append("race detector reported %d data races in the concurrent driver run (auxiliary observation, not a verdict)" % races)
        for r in r2:
            for d in r.get("devs", []):
                ctx.deviation(d["sig"], d["what"], {"mode": "trace", "fam": r["obs"].get("fam"), "events": r["obs"].get("events")})


def judge_events(ctx, events):
    """TLC runs the recorded resource events through the P-level specification; one verdict per trace."""
    import vlib
    if not events:
        return {}
    import tempfile
    tp = ctx.write_ndjson(tempfile.mktemp(prefix="p-events-", suffix=".ndjson", dir=ctx.scratch), events)
    r = ctx.tlc("ResourcePoolP_trace", "rp_trace_p.cfg", mode="tv", extra_files={"rp_trace_p.cfg": TRACE_P, "trace.ndjson": tp},
                allow_violation=True, timeout=900, label="P-level judgement of recorded resource events")
    if r.violated:
        raise vlib.Inconclusive("P-level trace specification did not consume the recorded events (%s); see %s" % (r.violated, ctx._keep(r.out_path)))
    out = {}
    for v in r.cases:
        out[v["t"]] = v
    ids = {e["t"] for e in events}
    if set(out) != ids:
        raise vlib.Inconclusive("TLC judged %d of %d recorded traces" % (len(out), len(ids)))
    return out
