"""C05 - UPDATE and DELETE affect exactly the matching rows and never move a row; assignments to the sharding
column (UPDATE .. SET key = .., INSERT .. ON DUPLICATE KEY UPDATE key = ..) are rejected.

Specification: spec/Relational.tla (Effect, Affected, Rejected, Place, Sharded; DmlProps: the statement applied table by
table equals the placement of the single-database effect, an accepted UPDATE never changes a row's table).
Binding: G.  TLC enumerates assignment lists x WHERE conditions (x inserted rows) x table contents x rule
configurations x spellings (plain, table alias / qualified columns, schema-qualified table, back-quoted upper-case
columns + ORDER BY) and prints the tables a single database would leave, placed by the rule, and the affected-row
count.  The harness runs plan.BuildPlan + UpdatePlan / DeletePlan / InsertPlan.ExecuteIn on a fake backend that applies
every rewritten per-shard statement to that physical table's rows, then compares every physical table (as a bag) and
the merged AffectedRows with TLC's expectation; statements the specification rejects must fail in BuildPlan.
"""
import copy

import _relational as rel

MANIFEST = {
    "engine": "tla-relational",
    "level_claimed": {
        "category": "model_checking",
        "text": "TLC evaluates Effect / Affected / Rejected of spec/Relational.tla for every UPDATE (assignments to g, v, id), DELETE "
                "and INSERT .. ON DUPLICATE KEY UPDATE of a finite grammar with every WHERE condition of the grammar, on hand-made and "
                "seeded table contents placed by the rule's Place (mod, hash, range; 2-4 tables on 1-2 slices), checks on every case "
                "that the statement decomposes over the placement and never moves a row, and emits the expected tables and affected "
                "count; each case is replayed on the real plan.BuildPlan / UpdatePlan / DeletePlan / InsertPlan.ExecuteIn / "
                "MergeExecResult with a fake backend that applies the rewritten per-shard statements; tables afterwards and "
                "AffectedRows must equal TLC's expectation and sharding-column assignments must be rejected in every spelling (plain, alias, back-quoted, and - for every such case - the assigned column qualified by the table name and by schema.table).",
        "design_ref": "DESIGN.md section 5 C05, section 4.1 Relational",
    },
    "level_note": "Schema t(id, g, v), literal assignments only, WHERE of at most two leaves (comparison, IS [NOT] NULL, [NOT] IN of two "
                  "values, [NOT] BETWEEN) joined by AND / OR (deeper trees and NOT are exercised by C01 on the same planner code; here "
                  "the point is the effect on data), INSERT of one or two rows, no LIMIT (excluded by the property), affected rows counted as rows actually changed (MySQL default); "
                  "the schema has no unique key, so ON DUPLICATE KEY never fires and an accepted INSERT is a plain insert; rules mod / "
                  "hash / range only; the backend is an environment model checked against TLC's Effect on every case; a nil result of "
                  "a statement routed to no table is read as 0 affected rows (what the session layer sends); the merged result is "
                  "handed back to mysql.ResultPool after it is read, as ClientConn.writeOKResult does, so that state left in pooled "
                  "objects by an earlier statement is part of what later statements meet.",
    "technique": "TLA+ spec of UPDATE/DELETE effects and placement + TLC-enumerated cases with expected tables, replayed on the real "
                 "planner through a fake plan.Executor",
}

FAMS = ["update", "delete", "insdup"]


def nontrivial(c):
    if c["fam"] not in FAMS:
        return False
    w = c["want"]
    if w["rejected"]:
        return True
    return w["affected"] >= 1 and len(set(c["place"])) >= 2


def run(ctx):
    import vlib
    ctx.assumptions += [
        "affected rows = rows actually changed (no CLIENT_FOUND_ROWS); the count decomposes over tables either way",
        "the fake backend applies each per-shard statement to the table named in it and refuses a statement sent to a slice that does "
        "not hold that table, an unknown table / column qualifier, or SQL the repository's parser rejects",
    ]
    if ctx.replay:
        case = rel.load_replay(ctx)
        # twice: a deviation that needs state left behind by an earlier statement (pooled result objects) shows on the second run
        p = ctx.write_ndjson("replay.ndjson", [case, case])
        rel.replay(ctx, "C05", p, 2)
        return
    thorough = ctx.thorough
    # thorough tier only: -coverage is slow on this module; the generation run checks the same properties on every case
    if thorough:
        r = rel.generate(ctx, None, FAMS, 13, 1, 12, "SpecProps only, with coverage", inv="SpecProps", coverage=True,
                         module="Relational", timeout=900)
        if r.zero_actions:
            ctx.notes.append("vacuous actions: %s" % r.zero_actions)
    gen = rel.Gen(ctx, "c05-cases.ndjson", nontrivial)
    rel.generate(ctx, gen, FAMS, 1, 40 if thorough else 6, 80 if thorough else 30, "generate DML", timeout=2400)
    generated = gen.n
    known = vlib.known_replay_cases("C05")
    for k in known:
        gen.add(k)
    gen.close()
    if generated < 300:
        raise vlib.Inconclusive("only %d cases generated" % generated)
    ctx.cov["cases_by_family"] = dict(gen.by_fam)
    ctx.cov["distinct_nontrivial"] = len(gen.nontriv)
    ctx.cov["rule"] = ("case = (rule configuration, table content, statement record, spelling) enumerated by TLC with the expected tables; "
                       "non-trivial = the statement must be rejected, or it changes at least one row of a content spread over at least two "
                       "physical tables; distinct by (configuration, rows, statement, spelling)")
    for s in gen.samples[:4]:
        ctx.sample(s)
    summ, _ = rel.replay(ctx, "C05", gen.path, gen.n)
    ctx.log("harness:", {k: v for k, v in summ.items() if k.startswith("n_")})
    ok = summ.get("n_ok", 0) + summ.get("n_rejected-as-required", 0)
    dev = summ.get("n_deviation", 0)
    rej = summ.get("n_rejected-plan", 0) + summ.get("n_rejected-exec", 0)
    ctx.cov["evaluations"] += ok + dev
    ctx.cov["traces_validated_against_impl"] += gen.n
    ctx.cov["tables_and_count_equal"] = summ.get("n_ok", 0)
    ctx.cov["rejected_as_required"] = summ.get("n_rejected-as-required", 0)
    ctx.cov["rejected_although_legal"] = rej
    ctx.cov["known_finding_cases_replayed"] = len(known)
    if rej > 0.2 * gen.n:
        raise vlib.Inconclusive("%d of %d legal statements were rejected by the proxy: too few comparisons to mean anything" % (rej, gen.n))

    # binding self-test
    base_u = base_r = None
    for c in ctx.read_ndjson(gen.path):
        if c["fam"] == "update" and not c["want"]["rejected"] and c["want"]["affected"] >= 1 and base_u is None:
            base_u = c
        if c["fam"] == "update" and c["want"]["rejected"] and base_r is None:
            base_r = c
        if base_u and base_r:
            break
    if base_u is None or base_r is None:
        raise vlib.Inconclusive("no case suitable for the binding self-test")
    # (a) the proxy is sent a statement that changes nothing: tables / count differ from the expectation
    c1 = copy.deepcopy(base_u)
    c1["sql"] = "UPDATE tbl_r SET g = NULL WHERE id < 0"
    # (b) the expectation says "must be rejected" for a harmless statement
    c2 = copy.deepcopy(base_r)
    c2["sql"] = "UPDATE tbl_r SET g = NULL WHERE id < 0"
    # (c) a corrupted expectation is noticed by the environment-model cross-check
    c3 = copy.deepcopy(base_u)
    c3["want"]["affected"] += 1
    got = rel.selftest(ctx, [c1, c2, c3])
    caught_a = any(s.startswith("C05 wrong") for s in got[0][0])
    caught_b = any(s.startswith("C05 sharding column assignment accepted") for s in got[1][0])
    caught_c = "model-mismatch" in got[2][1]
    ctx.cov["binding_selftest"] = {"changed_statement_detected": caught_a, "accepted_key_assignment_detected": caught_b,
                                   "corrupted_expectation_detected": caught_c}
    if not (caught_a and caught_b and caught_c):
        raise vlib.Inconclusive("binding self-test failed: %s" % ctx.cov["binding_selftest"])
