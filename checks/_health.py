"""Shared helpers of the backend health family: C25 (Balancer), C26/C27 (Fuse), C28 (HealthCheck).

Specifications: spec/Fuse.tla, Fuse_gen.tla, HealthCheck.tla, HealthCheck_gen.tla, Balancer.tla, Balancer_gen.tla,
Balancer_trace.tla.  Harnesses: harness/backend/{fakes,window,node,balancer}_test.go (package backend, injected by
overlay, built with -tags verif: clock / ticker hook backend/clock_verif_on.go).
"""
import copy
import json
import random

import vlib

HARNESS_ALL = ["backend/fakes_test.go", "backend/node_test.go", "backend/window_test.go"]
HARNESS_BAL = ["backend/fakes_test.go", "backend/balancer_test.go"]

CODE_CONSTS = """  PingPeriod = 4
  InitErr = 3
  MaxPenalty = 120
"""

FUSE_BASE = """CONSTANTS
  W = %(w)d
  Min = %(min)d
  Policy = "%(policy)s"
  Cool = %(cool)d
""" + CODE_CONSTS + """  MaxLevel = %(maxlevel)d
  T0 = %(t0)d
  MaxTime = %(maxtime)d
  MaxTick = %(maxtick)d
"""

# ---- Fuse: sliding window -------------------------------------------------------------------------------------
WIN_MC = "SPECIFICATION GenSpec\n" + FUSE_BASE + """  GenMode = "window"
  GenLen = %(len)d
  MaxMin = %(maxmin)d
  OkWeight = 1
INVARIANTS RingIsCount StatusIsP HardFuseTime
PROPERTIES FusedExactlyWhen
%(view)s
CHECK_DEADLOCK FALSE
"""

WIN_GEN = "SPECIFICATION GenSpec\n" + FUSE_BASE + """  GenMode = "window"
  GenLen = %(len)d
  MaxMin = %(maxmin)d
  OkWeight = 1
INVARIANTS Emit RingIsCount
CHECK_DEADLOCK FALSE
"""


def win_params(w, length, maxmin=None, **kw):
    d = dict(w=w, min=min(2, w + 1), policy="hard", cool=5, maxlevel=5, t0=0, maxtime=10 ** 6, maxtick=2 * w + 1,
             len=length, maxmin=maxmin or max(4, w), view="VIEW WinView")
    d.update(kw)
    return d


# ---- Fuse: node with breaker and recovery -------------------------------------------------------------------------
NODE_MC = "SPECIFICATION FSpec\n" + FUSE_BASE + """INVARIANTS RingIsCount StatusIsP HardFuseTime CountdownIsNeed FTypeOK
PROPERTIES FusedExactlyWhen NoEarlyRecovery RecoversWhenDue PenaltyGrowth
VIEW FView
CONSTRAINT FConstraint
CHECK_DEADLOCK FALSE
"""

NODE_GEN = "SPECIFICATION GenSpec\n" + FUSE_BASE + """  GenMode = "node"
  GenLen = %(len)d
  MaxMin = 4
  OkWeight = %(okweight)d
INVARIANTS Emit
CHECK_DEADLOCK FALSE
"""


def node_params(policy, w=2, mn=2, cool=None, **kw):
    if cool is None:
        cool = 5 if policy == "hard" else 0
    d = dict(w=w, min=mn, policy=policy, cool=cool, maxlevel=4, t0=100, maxtime=112, maxtick=9, len=12, okweight=3)
    d.update(kw)
    return d


# ---- HealthCheck ------------------------------------------------------------------------------------------------
HC_CONSTS = """  DownAfter = %(downafter)d
  SBM = %(sbm)d
  HealthSQL = %(healthsql)s
  HasMaster = %(hasmaster)s
"""

HC_MC = "SPECIFICATION HSpec\n" + FUSE_BASE + HC_CONSTS + """INVARIANTS RingIsCount HardFuseTime CountdownIsNeed FTypeOK
PROPERTIES RoundIsAllowed ErrIsP Frame DownAfterRule UpOnlyAfterProbe NoEarlyRecoveryH RecoversWhenDueH DownOnlyByRule FusedExactlyWhen PenaltyGrowth
VIEW HView
CONSTRAINT FConstraint
CONSTANT HProbes <- McProbes
CONSTANT HSyncs <- %(syncs)s
%(extra)s
CHECK_DEADLOCK FALSE
"""

HC_GEN = "SPECIFICATION GenSpec\n" + FUSE_BASE + HC_CONSTS + """  GenMode = "%(mode)s"
  GenLen = %(len)d
  FuseWeight = %(fuseweight)d
INVARIANTS Emit
CHECK_DEADLOCK FALSE
"""


def hc_params(policy, **kw):
    d = dict(w=2, min=2, policy=policy, cool=5 if policy == "hard" else 0, maxlevel=4, t0=100, maxtime=110, maxtick=9,
             downafter=8, sbm=10, healthsql="TRUE", hasmaster="TRUE", extra="", mode="sim", len=24,
             fuseweight=0, syncs="McSyncs")
    d.update(kw)
    return d


# ---- parallel TLC jobs -------------------------------------------------------------------------------------------------
def run_jobs(ctx, jobs, parallel=4):
    """Run independent TLC jobs concurrently.  job = dict(module=, cfg_text=, label=, and optionally sim=, depth=, seed=,
    workers=, coverage=, timeout=, allow_violation=).  Returns the TlcResults in order; the first Inconclusive is re-raised."""
    import os
    from concurrent.futures import ThreadPoolExecutor

    if os.environ.get("VERIF_DEV_SKIP_MC"):
        # development aid (mutation experiments): the exhaustive runs do not depend on /repo; never set by registered commands
        kept = [j for j in jobs if not j["label"].startswith("mc ")]
        ctx.notes.append("DEVELOPMENT RUN: %d exhaustive TLC jobs skipped (VERIF_DEV_SKIP_MC)" % (len(jobs) - len(kept)))
        dummy = vlib.TlcResult()
        got = iter(run_jobs_inner(ctx, kept, parallel))
        return [dummy if j["label"].startswith("mc ") else next(got) for j in jobs]
    return run_jobs_inner(ctx, jobs, parallel)


def run_jobs_inner(ctx, jobs, parallel=4):
    from concurrent.futures import ThreadPoolExecutor

    def one(ij):
        i, j = ij
        kw = dict(workers=j.get("workers", 2), timeout=j.get("timeout", 1500), label=j["label"],
                  coverage=j.get("coverage", False), allow_violation=j.get("allow_violation", False))
        if j.get("sim"):
            kw.update(mode="sim", sim="num=%d" % j["sim"], depth=j["depth"], seed=j["seed"], workers=1)
        name = "job%d.cfg" % i
        return ctx.tlc(j["module"], name, extra_files={name: j["cfg_text"]}, **kw)

    n0 = len(ctx.cov["tlc_runs"])
    with ThreadPoolExecutor(max_workers=parallel) as ex:
        futs = [ex.submit(one, ij) for ij in enumerate(jobs)]
        results, err = [], None
        for f in futs:
            try:
                results.append(f.result())
            except vlib.Inconclusive as e:
                err = err or e
                results.append(None)
    if err:
        raise err
    # ctx.tlc adds to the totals without a lock: recompute them from the per-run records
    st = tr = 0
    for r in ctx.cov["tlc_runs"]:
        st += r["generated"] if r["mode"] == "sim" else r["distinct"]
        tr += max(r["generated"] - 1, 0)
    ctx.cov["states"], ctx.cov["transitions"] = st, tr
    for j, r in zip(jobs, results):
        ctx.log("tlc", j["label"], r.stats(), "cases=%d" % len(r.cases), "%.1fs" % r.wall)
        if j.get("coverage") and r.zero_actions:
            ctx.notes.append("actions never taken in %s: %s" % (j["label"], r.zero_actions))
        if j.get("sim") or j.get("emit"):
            if not r.cases:
                raise vlib.Inconclusive("TLC emitted no cases for %s (see %s)" % (j["label"], ctx._keep(r.out_path)))
    return results


# ---- replay (C26 window + TryFuse, C27, C28) ---------------------------------------------------------------------------
def replay(ctx, window_cases, node_cases, label, selftests=(), max_devs=60):
    """G: one `go test` run replays window histories on SlidingWindow.Trigger and node behaviours on the real
    Slice / NodeInfo / strategies.  selftests = deliberately corrupted cases: each must be reported by the harness."""
    cases = [dict(c, kind="window") for c in window_cases] + [dict(c, kind="node") for c in node_cases]
    n_real = len(cases)
    cases += [dict(c, selftest=True) for c in selftests]
    if not n_real:
        raise vlib.Inconclusive("nothing to replay for %s" % label)
    res, summ, out = ctx.harness("backend", HARNESS_ALL, "^TestVerifHealthReplay$", cases,
                                 env={"VERIF_PID": ctx.pid, "VERIF_MAX_DEVS": max_devs})
    if summ["cases"] != len(cases):
        raise vlib.Inconclusive("harness replayed %d of %d cases" % (summ["cases"], len(cases)))
    if summ.get("harness_errors"):
        raise vlib.Inconclusive("harness could not drive the code: %s" % summ["harness_errors"][:3])
    ndev = 0
    st_seen = set()
    for r in res:
        if r["case"] >= n_real:
            if r.get("devs"):
                st_seen.add(r["case"])
            continue
        kind = cases[r["case"]]["kind"]
        for d in r.get("devs", []):
            ndev += 1
            ctx.deviation(d["sig"], d["what"], {"kind": kind, "case": (r.get("obs") or {}).get("case")})
        for t in r.get("tags", []):
            ctx.notes.append("MODEL-DRIFT (%s): %s" % (label, t))
    cov = ctx.cov
    cov["traces_validated_against_impl"] += n_real
    cov["evaluations"] += summ["events"] + summ["trigger_calls"]
    for k in ("events", "errs", "rrounds", "mrounds", "corner_events", "drift", "trigger_calls", "window_cases", "node_cases"):
        cov.setdefault("replayed_" + k, 0)
        cov["replayed_" + k] += summ.get(k, 0)
    ctx.log("replayed %s: %d window histories (%d Trigger calls), %d node behaviours (%d events, two clock offsets), %d deviations"
            % (label, len(window_cases), summ["trigger_calls"], len(node_cases), summ["events"], ndev))
    if selftests:
        ok = len(st_seen) == len(selftests)
        cov["binding_selftest"] = {"corrupted_cases": len(selftests), "detected": len(st_seen)}
        if not ok and not ctx.violations:
            raise vlib.Inconclusive("binding self-test failed: %d of %d corrupted expectations were accepted"
                                    % (len(selftests) - len(st_seen), len(selftests)))
    return summ


def corrupt_node(case):
    """flip one expected status of a behaviour (binding self-test)"""
    c = copy.deepcopy(case)
    for e in c["events"]:
        if e["ev"] in ("rround", "mround", "probe", "err"):
            if "al" in e and len(e["al"]) == 1:
                e["al"] = [1 - e["al"][0]]
                return dict(c, kind="node")
            if "p" in e and "al" not in e:
                e["p"] = 1 - e["p"]
                return dict(c, kind="node")
    return None


def corrupt_window(case):
    c = copy.deepcopy(case)
    c["trig"][0][0] = not c["trig"][0][0]
    return dict(c, kind="window")


def event_classes(cases):
    """distinct (policy, event, rule, allowed) classes seen in generated behaviours"""
    out = set()
    for c in cases:
        for e in c["events"]:
            al = e.get("al")
            if al is None:
                al = [e.get("p")]
            out.add((c["policy"], e["ev"], e.get("why", ""), tuple(sorted(al))))
    return out


def candidates(cases):
    """events where the code-level model leaves the set the properties allow (I-level candidates)"""
    n = {}
    for c in cases:
        for e in c["events"]:
            al = e.get("al")
            if al is not None and e["i"] not in al:
                k = "%s policy=%s" % (e["why"], c["policy"])
                n[k] = n.get(k, 0) + 1
    return n


def rng_of(ctx):
    return random.Random(ctx.seed * 7919 + 17)


def dumps(x):
    return json.dumps(x, sort_keys=True)
