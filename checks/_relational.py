"""Shared helpers of the Relational family (C02, C05): spec/Relational.tla, Relational_gen.tla,
harness/proxy/plan/relational_test.go.

TLC enumerates the query grammar of the specification (family, select list, DISTINCT, GROUP BY, ORDER BY,
LIMIT, assignment list, ...); for every kept index tuple it derives `Reps` (configuration, table content,
WHERE clause, spelling) combinations by the specification's sampling hash, evaluates Answer / Effect, checks the
properties of the specification itself (SpecProps) and prints the case.  The Go harness replays every case on
the real planner + merger with a fake backend and compares with TLC's expectation.
"""
import copy
import json
import os

import vlib

HARNESS = ["proxy/plan/relational_test.go"]
PKG = "proxy/plan"
RUN = "^TestVerifRelational$"

GEN_CFG = """SPECIFICATION Spec
CONSTANTS
  Fams = {%(fams)s}
  Seed = %(seed)d
  Mod = %(mod)d
  Reps = %(reps)d
  NGen = %(ngen)d
INVARIANTS %(inv)s
CHECK_DEADLOCK FALSE
"""

# tags written by the harness that mean "the machinery, not the code, is off": never a verdict
MACHINERY_TAGS = ("model-mismatch", "placement-mismatch", "harness-error", "env-unsupported")


def case_key(c):
    return json.dumps([c["cfg"], c["rows"], c["q"], c.get("sp")], sort_keys=True)


class Gen:
    """Streams TLC's cases into an NDJSON file and keeps the counts the evidence needs."""

    def __init__(self, ctx, name, nontrivial):
        self.path = ctx.path(name)
        self.f = open(self.path, "w")
        self.n = 0
        self.by_fam = {}
        self.nontrivial = nontrivial
        self.nontriv = set()
        self.samples = []

    def sink(self, c):
        self.f.write(json.dumps(c, separators=(",", ":"), sort_keys=True))
        self.f.write("\n")
        self.n += 1
        self.by_fam[c["fam"]] = self.by_fam.get(c["fam"], 0) + 1
        if self.nontrivial(c):
            self.nontriv.add(hash(case_key(c)))
        if len(self.samples) < 3 or (self.n % 997 == 0 and len(self.samples) < 6):
            self.samples.append(c)

    def add(self, c):
        self.sink(c)

    def close(self):
        self.f.close()


def generate(ctx, gen, fams, mod, reps, ngen, label, timeout=900, workers="auto", inv="Emit", coverage=False,
             module="Relational_gen"):
    cfg = GEN_CFG % {"fams": ", ".join('"%s"' % f for f in fams), "seed": ctx.seed % 9000, "mod": mod, "reps": reps,
                     "ngen": ngen, "inv": inv}
    r = ctx.tlc(module, "rel_gen.cfg", extra_files={"rel_gen.cfg": cfg}, workers=workers, timeout=timeout,
                keep_cases=False, case_sink=gen.sink if gen is not None else (lambda c: None), coverage=coverage,
                label=label)
    ctx.log("TLC %s: families %s mod %d reps %d -> %d cases, %d states, %.1fs" % (label, fams, mod, reps, r.ncases, r.distinct, r.wall))
    return r


def replay(ctx, pid, cases_path, ncases, strict=True):
    """Run the harness on an NDJSON file of cases; turn its output into deviations / inconclusive.
    Returns the summary line of the harness."""
    res, summ, out = ctx.harness(PKG, HARNESS, RUN, cases_path)
    if summ["cases"] != ncases:
        raise vlib.Inconclusive("harness replayed %d of %d cases" % (summ["cases"], ncases))
    bad = {}
    info = {}
    for r in res:
        obs = r.get("obs") or {}
        for t in r.get("tags", []):
            if t in MACHINERY_TAGS:
                bad.setdefault(t, []).append("%s -- %s" % (obs.get("sql"), obs.get("err")))
            else:
                info[t] = info.get(t, 0) + 1
        for d in r.get("devs", []):
            if not d["sig"].startswith(pid + " "):
                raise vlib.Inconclusive("deviation of another property from this driver: %s" % d["sig"])
            ctx.deviation(d["sig"], d["what"], obs.get("case"))
    if bad and strict:
        t = sorted(bad)[0]
        raise vlib.Inconclusive("%d cases could not be judged (%s), e.g. %s" % (sum(len(v) for v in bad.values()), t, bad[t][0][:600]))
    return summ, bad


def selftest(ctx, cases):
    """Binding self-test: run the (corrupted) cases in one harness call; returns per case (signatures, tags)."""
    sub = vlib.Ctx(ctx.pid, ctx.tier, ctx.seed, replay="selftest")
    try:
        p = sub.write_ndjson("selftest.ndjson", cases)
        res, summ, out = sub.harness(PKG, HARNESS, RUN, p)
        got = [([], []) for _ in cases]
        for r in res:
            i = r.get("case", -1)
            if 0 <= i < len(cases):
                got[i] = ([d["sig"] for d in r.get("devs", [])], r.get("tags", []))
        return got
    finally:
        sub.cleanup()


def load_replay(ctx):
    rec = ctx.read_ndjson(ctx.replay)[0]
    return rec["case"]
