"""Shared helpers of the Reload family (C31, C29): spec/Reload*.tla <-> harness/proxy/server/reload_test.go."""
import json
import os
import random

import vlib

PKG = "proxy/server"
HARNESS = ["proxy/server/reload_test.go"]
RUN_REPLAY = "^TestVerifReloadReplay$"
RUN_CONC = "^TestVerifReloadConcurrent$"


def tla_str(s):
    assert '"' not in s and "\\" not in s
    return '"%s"' % s


def tla_set(items):
    return "{" + ", ".join(items) + "}"


# ------------------------------------------------------------------ credential tables
def formula_creds(names, nv):
    """C31: one user name shared by all namespaces (password unique per configuration) and one own user."""
    sc = {}
    for n in names:
        sc[n] = {str(v): [["app", "%s#%d" % (n, v)], [n + "_ro", "r%d" % v]] for v in range(1, nv + 1)}
    return {"scenarios": {"1": sc}, "extra": [["app", "r1"], ["nobody", "x"]]}


def cred_module(name, base, table, names, nv, extra_defs="", exact_keys=False):
    """TLA+ module `name` EXTENDS `base` defining RunCredOf(s, n, v) from the table, the string functions
    RunJoinKey / RunSplitUser / RunSplitPw as tables over the credentials of the table (TLA+ strings are atomic:
    Go's username+":"+password and strings.Split(key, ":") are instantiated here), and extra definitions.
    exact_keys=True models the proposed repair: the key is the pair itself."""
    arms = []
    pairs_all = set()
    for s in sorted(table["scenarios"], key=int):
        for n in names:
            for v in range(1, nv + 1):
                pairs = table["scenarios"][s].get(n, {}).get(str(v), [])
                pairs_all |= set((u, p) for u, p in pairs)
                arms.append("s = %s /\\ n = %s /\\ v = %d -> %s" % (
                    s, tla_str(n), v, tla_set("<<%s, %s>>" % (tla_str(u), tla_str(p)) for u, p in pairs)))
    body = "\n      [] ".join(arms + ["OTHER -> {}"])
    if exact_keys:
        keys = "RunJoinKey(u, p) == <<u, p>>\nRunSplitUser(k) == k[1]\nRunSplitPw(k) == k[2]\n"
    else:
        pl = sorted(pairs_all)
        ja = ["u = %s /\\ p = %s -> %s" % (tla_str(u), tla_str(p), tla_str(u + ":" + p)) for u, p in pl]
        ks = sorted(set(u + ":" + p for u, p in pl))
        su = ["k = %s -> %s" % (tla_str(k), tla_str(k.split(":")[0])) for k in ks]
        sp = ["k = %s -> %s" % (tla_str(k), tla_str(k.split(":")[1])) for k in ks]
        keys = ("RunJoinKey(u, p) ==\n  CASE %s\n\nRunSplitUser(k) ==\n  CASE %s\n\nRunSplitPw(k) ==\n  CASE %s\n" % (
            "\n      [] ".join(ja + ['OTHER -> "?"']), "\n      [] ".join(su + ['OTHER -> "?"']), "\n      [] ".join(sp + ['OTHER -> "?"'])))
    return ("---- MODULE %s ----\nEXTENDS %s\n\nRunCredOf(s, n, v) ==\n  CASE %s\n\n%s\n%s\n====\n" % (name, base, body, keys, extra_defs))


def init_defs(names, inits):
    """RunInit == set of initial maps; inits = list of lists of versions in the order of names."""
    fs = []
    for init in inits:
        arms = " ELSE ".join("IF n = %s THEN %d" % (tla_str(n), v) for n, v in zip(names, init))
        fs.append("[n \\in NS |-> %s ELSE 0]" % arms)
    return "RunInit == " + tla_set(fs) + "\n"


CFG = """SPECIFICATION %(spec)s
CONSTANTS
  NS = %(ns)s
  NV = %(nv)d
  Scenarios = %(scs)s
  CredOf <- RunCredOf
  JoinKey <- RunJoinKey
  SplitUser <- RunSplitUser
  SplitPw <- RunSplitPw
  InitActive <- RunInit
  Paired = %(paired)s
  WithBad = %(withbad)s
  Fixed = %(fixed)s
%(more)s
CHECK_DEADLOCK FALSE
"""


def cfg_text(spec, names, nv, nsc, paired, fixed, more, with_bad=False):
    return CFG % {"spec": spec, "ns": tla_set(tla_str(n) for n in names), "nv": nv, "withbad": "TRUE" if with_bad else "FALSE",
                  "scs": tla_set(str(i) for i in range(1, nsc + 1)), "paired": "TRUE" if paired else "FALSE",
                  "fixed": "TRUE" if fixed else "FALSE", "more": more}


def mc(ctx, names, nv, table, inits, paired, fixed, invariants, properties, label, allow_violation=False, timeout=600,
       exact_keys=False, with_bad=False):
    mod = cred_module("Reload_run", "Reload_mc", table, names, nv, init_defs(names, inits), exact_keys=exact_keys)
    more = "INVARIANTS " + " ".join(invariants) + ("\nPROPERTIES " + " ".join(properties) if properties else "")
    cfg = cfg_text("Spec", names, nv, len(table["scenarios"]), paired, fixed, more, with_bad)
    return ctx.tlc("Reload_run", "reload_run.cfg", extra_files={"Reload_run.tla": mod, "reload_run.cfg": cfg},
                   coverage=True, timeout=timeout, label=label, allow_violation=allow_violation,
                   workers=os.environ.get("VERIF_TLC_WORKERS", "auto"))


def generate(ctx, names, nv, table, inits, paired, genlen, emit_triples, label, mode="mc", sim=None, depth=None, seed=None,
             timeout=900, out_name=None, exact_keys=False, with_bad=False):
    """TLC enumerates (or samples) behaviours; they are streamed into an NDJSON file.  Returns (path, count, TlcResult)."""
    mod = cred_module("Reload_run", "Reload_gen", table, names, nv, init_defs(names, inits), exact_keys=exact_keys)
    more = "  GenLen = %d\n  EmitTriples = %s\nINVARIANTS Emit" % (genlen, "TRUE" if emit_triples else "FALSE")
    cfg = cfg_text("GenSpec", names, nv, len(table["scenarios"]), paired, False, more, with_bad)
    path = ctx.path(out_name or ("cases-%s.ndjson" % label.replace(" ", "_")))
    n = [0]
    seen = set() if mode == "sim" else None
    with open(path, "w") as f:
        def sink(v):
            line = json.dumps(v, separators=(",", ":"))
            if seen is not None:
                if line in seen:
                    return
                seen.add(line)
            f.write(line)
            f.write("\n")
            n[0] += 1
        kw = {}
        if mode == "sim":
            kw = dict(mode="sim", sim=sim, depth=depth, seed=seed, workers=1)
        else:
            kw = dict(workers=os.environ.get("VERIF_TLC_WORKERS", "auto"))
        r = ctx.tlc("Reload_run", "reload_run.cfg", extra_files={"Reload_run.tla": mod, "reload_run.cfg": cfg},
                    timeout=timeout, label=label, keep_cases=False, case_sink=sink, **kw)
    if n[0] == 0:
        raise vlib.Inconclusive("TLC produced no behaviours (%s)" % label)
    return path, n[0], r


def replay(ctx, prop, cases, table, handshake_every=1, trace=None, trace_every=1, max_dev_cases=None, use_ptr=False,
           extra_env=None):
    """G: replay on the real Manager.  cases = path or list.  Returns (results, summary)."""
    cp = ctx.write_ndjson("creds-%d.json" % random.randrange(1 << 30), [table])
    env = {"VERIF_RELOAD_CREDS": cp, "VERIF_RELOAD_PROP": prop, "VERIF_RELOAD_HANDSHAKE_EVERY": handshake_every,
           "VERIF_TRACE_OUT": trace or "", "VERIF_RELOAD_TRACE_EVERY": trace_every,
           "VERIF_RELOAD_USE_PTR": 1 if use_ptr else 0}
    if max_dev_cases is not None:
        env["VERIF_MAX_DEV_CASES"] = max_dev_cases
    env.update(extra_env or {})
    res, summ, out = ctx.harness(PKG, HARNESS, RUN_REPLAY, cases, env=env)
    return res, summ


def report(ctx, res, summ, table, names, nv, context):
    """Turn harness deviations into ctx.deviation calls (one per signature, with a minimal self-contained case)."""
    sig_count = summ.get("sig_count", {})
    first = {}
    for r in res:
        for d in r.get("devs", []):
            if d["sig"] not in first:
                first[d["sig"]] = (d["what"], r.get("obs"))
    for sig, n in sorted(sig_count.items()):
        what, case = first.get(sig, ("", None))
        rec = {"kind": "behaviour", "names": names, "nv": nv, "creds": table, "case": case}
        rec.update(context)
        for _ in range(max(n, 1)):
            ctx.deviation(sig, what, rec)
            if n > 1:
                # count the remaining occurrences without re-writing replay files
                k = ctx.known_match(sig)
                if k is not None:
                    ctx.known_hits[k["signature"]][1] += n - 1
                else:
                    for v in ctx.violations:
                        if v["sig"] == sig:
                            v["count"] += n - 1
                break


# ------------------------------------------------------------------ C29 credential scenarios
ALPHABET = ["a", "a:b", "b", ":", "a:", "b:a"]


def core_scenarios(names):
    """Hand-picked scenarios around the shapes DESIGN section 6 suspects; namespaces beyond the second get plain,
    unrelated credentials.  version -> list of [user, password]."""
    def fill(sc):
        for i, n in enumerate(names[2:]):
            sc[n] = {"1": [["b", "c%d" % i]], "2": [["b", "c%d" % i], ["c", "c%d" % i]]}
        return sc
    n1, n2 = names[0], names[1]
    return [
        # same user name, the other namespace's password extends this one's with ':'
        fill({n1: {"1": [["a", "a"]], "2": [["a", "a"], ["b", "b"]]}, n2: {"1": [["a", "a:b"]], "2": [["a", "b"]]}}),
        # user name with ':' whose prefix is another namespace's user
        fill({n1: {"1": [["a", "b"]], "2": [["a", "b"], ["b", "a"]]}, n2: {"1": [["a:b", "a"]], "2": [["a:b", "b"]]}}),
        # two different pairs that concatenate to the same user:password text
        fill({n1: {"1": [["a", "b:a"]], "2": [["a", "a"]]}, n2: {"1": [["a:b", "a"]], "2": [["a:b", "a"], ["b", "b"]]}}),
        # names and passwords made of ':' only / ending in ':'
        fill({n1: {"1": [[":", "a"]], "2": [[":", ":"], ["a:", "a"]]}, n2: {"1": [["a:", ":"]], "2": [["a", "a:"]]}}),
        # two pairs of the same namespace (different versions) that concatenate to the same text
        fill({n1: {"1": [["a", "b:a"]], "2": [["a:b", "a"]]}, n2: {"1": [["b", "b"]], "2": [["b", "a"]]}}),
        # both namespaces hold the same two user names, every pair with its own password
        fill({n1: {"1": [["a", "a"], ["b", "b"]], "2": [["a", "b"], ["b", "a"]]}, n2: {"1": [["a", ":"], ["b", "a:"]], "2": [["a", "a:b"]]}}),
        # a pair that can move: it is free again once its owner dropped it or was deleted
        fill({n1: {"1": [["a", "a"]], "2": [["b", "b"]]}, n2: {"1": [["a", "a"]], "2": [["a", "b"], ["b", "b"]]}}),
        # no ':' anywhere (control: must be clean)
        fill({n1: {"1": [["a", "a"]], "2": [["a", "a"], ["b", "b"]]}, n2: {"1": [["a", "b"]], "2": [["b", "a"]]}}),
    ]


def random_scenario(rng, names, nv=2):
    """Seeded: 1-2 credentials per configuration over ALPHABET x ALPHABET, user names distinct inside a configuration
    (models.Namespace.Verify demands it), user names shared on purpose.  Two thirds of the scenarios keep the pairs of
    different namespaces disjoint; in the others a pair may appear in several namespaces (the specification only lets a
    configuration in when its pairs are free, so pairs move between namespaces over time)."""
    moving = rng.random() < 0.34
    for _ in range(1000):
        sc = {}
        owner = {}
        ok = True
        for n in names:
            sc[n] = {}
            for v in range(1, nv + 1):
                k = rng.choice([1, 1, 2])
                users = rng.sample(ALPHABET[:4] if rng.random() < 0.6 else ALPHABET, k)
                cfg = []
                for u in users:
                    p = rng.choice(ALPHABET[:3] if moving else ALPHABET)
                    if owner.get((u, p), n) != n and not moving:
                        ok = False
                    owner[(u, p)] = n
                    cfg.append([u, p])
                sc[n][str(v)] = cfg
        if ok:
            return sc
    raise RuntimeError("no scenario found")


def c29_table(rng, names, nrandom):
    scs = core_scenarios(names) + [random_scenario(rng, names) for _ in range(nrandom)]
    used = set()
    for sc in scs:
        for n in sc:
            for v in sc[n]:
                for u, p in sc[n][v]:
                    used.add((u, p))
    return {"scenarios": {str(i + 1): sc for i, sc in enumerate(scs)},
            "extra": [[u, p] for u in ALPHABET for p in ALPHABET]}


# ------------------------------------------------------------------ direction V
SEQ_TRACE_CFG = """SPECIFICATION TraceSpec
CONSTANTS
  NS = %(ns)s
  NV = %(nv)d
POSTCONDITION TraceAccepted
CHECK_DEADLOCK FALSE
"""

LIN_CFG = """SPECIFICATION Spec
CONSTANTS
  NS = %(ns)s
  NV = %(nv)d
  Level = "%(level)s"
  Admins = %(admins)s
INVARIANTS Mark
CHECK_DEADLOCK FALSE
"""


def validate_sequential(ctx, names, nv, lines, label="sequential traces"):
    """TLC judges every recorded step of sequential executions with the P-level step relation.
    Returns the set of (trace id, step index) TLC rejects."""
    lines = [e for e in lines if not e.get("summary")]
    if not lines:
        return set(), 0
    tp = ctx.write_ndjson("seqtrace-%d.ndjson" % random.randrange(1 << 30), lines)
    cfg = SEQ_TRACE_CFG % {"ns": tla_set(tla_str(n) for n in names), "nv": nv}
    r = ctx.tlc("Reload_trace", "reload_trace.cfg", mode="tv", extra_files={"trace.ndjson": tp, "reload_trace.cfg": cfg},
                allow_violation=True, timeout=900, label=label)
    if r.violated:
        raise vlib.Inconclusive("sequential trace validation did not consume the whole trace (%s, see %s)" % (r.violated, ctx._keep(r.out_path)))
    rej = set()
    for p in r.prints:
        if p.startswith('<<"REJECT"'):
            body = p[2:-2].split(",")
            rej.add((int(body[1]), int(body[2])))
    ids = set(e["t"] for e in lines)
    return rej, len(ids)


def concurrent_trials(rng, names, nv, ntrials, max_ops):
    """Seeded workloads: 2-3 administrators, each a short realistic script (update = prepare;commit, delete,
    lone prepare / commit), at most max_ops operations in total, one reader."""
    trials = []
    all_names = names
    for t in range(ntrials):
        nadm = rng.choice([2, 2, 3])
        names = all_names if (t % 2 or len(all_names) < 3) else all_names[:2]
        init = [rng.choice([0, 1]) if n in names else 0 for n in all_names]
        admins = [[] for _ in range(nadm)]
        total = 0
        while total < max_ops:
            a = rng.randrange(nadm)
            n = rng.choice(names)
            kind = rng.choice(["update", "update", "delete", "prepare", "commit", "badprepare"])
            if kind == "update" and total + 2 <= max_ops:
                admins[a] += [{"op": "prepare", "n": n, "v": rng.randint(1, nv)}, {"op": "commit", "n": n, "v": 0}]
                total += 2
            elif kind == "delete":
                admins[a].append({"op": "delete", "n": n, "v": 0})
                total += 1
            elif kind == "prepare":
                admins[a].append({"op": "prepare", "n": n, "v": rng.randint(1, nv)})
                total += 1
            elif kind == "badprepare":
                admins[a].append({"op": "badprepare", "n": n, "v": 0})
                total += 1
            else:
                admins[a].append({"op": "commit", "n": n, "v": 0})
                total += 1
            if rng.random() < 0.25:
                break
        admins = [a for a in admins if a]
        if len(admins) < 2:
            admins.append([{"op": "delete", "n": rng.choice(names), "v": 0}])
        lookups = [rng.choice(names) for _ in range(rng.randint(0, 3))]
        trials.append({"t": t, "sc": 1, "ns": all_names, "init": init, "admins": admins, "lookups": lookups})
    return trials


def run_concurrent(ctx, names, nv, table, trials):
    """Run the trials on the real Manager; returns the recorded events grouped by trial (list of lists)."""
    cp = ctx.write_ndjson("creds-%d.json" % random.randrange(1 << 30), [table])
    tp = ctx.path("conc-trace-%d.ndjson" % random.randrange(1 << 30))
    res, summ, out = ctx.harness(PKG, HARNESS, RUN_CONC, trials, env={"VERIF_RELOAD_CREDS": cp, "VERIF_TRACE_OUT": tp})
    if summ["cases"] != len(trials):
        raise vlib.Inconclusive("concurrent driver ran %d of %d trials" % (summ["cases"], len(trials)))
    by = {}
    order = []
    for e in ctx.read_ndjson(tp):
        if e.get("summary"):
            continue
        if e["t"] not in by:
            by[e["t"]] = []
            order.append(e["t"])
        by[e["t"]].append(e)
    return [by[t] for t in order], summ


def linearize(ctx, names, nv, histories, level, label, timeout=900):
    """TLC decides which recorded concurrent histories are explained at `level` ("P", "A", "S").
    Returns the set of accepted history ids."""
    if not histories:
        return set()
    lines = []
    for h in histories:
        lines += h
    # nx: index (1-based) of the first line of the next history
    pos = 1
    for hi, h in enumerate(histories):
        nxt = pos + len(h)
        for e in h:
            e["nx"] = nxt if hi + 1 < len(histories) else 0
        pos = nxt
    admins = sorted(set(e["a"] for e in lines) | {0})
    tp = ctx.write_ndjson("lin-%s-%d.ndjson" % (level, random.randrange(1 << 30)), lines)
    cfg = LIN_CFG % {"ns": tla_set(tla_str(n) for n in names), "nv": nv, "level": level, "admins": tla_set(str(a) for a in admins)}
    r = ctx.tlc("Reload_lin", "reload_lin.cfg", mode="tv", extra_files={"trace.ndjson": tp, "reload_lin.cfg": cfg},
                timeout=timeout, label=label)
    acc = set()
    for p in r.prints:
        if p.startswith('<<"ACCEPT"'):
            acc.add(int(p[2:-2].split(",")[1]))
    return acc
