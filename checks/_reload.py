"""Shared helpers of the Reload family (C31, C29): spec/Reload*.tla <-> harness/proxy/server/reload_test.go."""
import json
import os
import random

import vlib

PKG = "proxy/server"
HARNESS = ["proxy/server/reload_test.go"]
RUN_REPLAY = "^TestVerifReloadReplay$"
RUN_CONC = "^TestVerifReloadConcurrent$"


def tla_str(s):
    assert '"' not in s and "\\" not in s
    return '"%s"' % s


def tla_set(items):
    return "{" + ", ".join(items) + "}"


# ------------------------------------------------------------------ credential tables
def formula_creds(names, nv):
    """C31: one user name shared by all namespaces (password unique per configuration) and one own user."""
    sc = {}
    for n in names:
        sc[n] = {str(v): [["app", "%s#%d" % (n, v)], [n + "_ro", "r%d" % v]] for v in range(1, nv + 1)}
    return {"scenarios": {"1": sc}, "extra": [["app", "r1"], ["nobody", "x"]]}


def cred_module(name, base, table, names, nv, extra_defs=""):
    """TLA+ module `name` EXTENDS `base` defining RunCredOf(s, n, v) from the table and RunInit... (constants a
    .cfg file cannot express)."""
    arms = []
    for s in sorted(table["scenarios"], key=int):
        for n in names:
            for v in range(1, nv + 1):
                pairs = table["scenarios"][s].get(n, {}).get(str(v), [])
                arms.append("s = %s /\\ n = %s /\\ v = %d -> %s" % (
                    s, tla_str(n), v, tla_set("<<%s, %s>>" % (tla_str(u), tla_str(p)) for u, p in pairs)))
    body = "\n      [] ".join(arms + ["OTHER -> {}"])
    return ("---- MODULE %s ----\nEXTENDS %s\n\nRunCredOf(s, n, v) ==\n  CASE %s\n\n%s\n====\n" % (name, base, body, extra_defs))


def init_defs(names, inits):
    """RunInit == set of initial maps; inits = list of lists of versions in the order of names."""
    fs = []
    for init in inits:
        arms = " ELSE ".join("IF n = %s THEN %d" % (tla_str(n), v) for n, v in zip(names, init))
        fs.append("[n \\in NS |-> %s ELSE 0]" % arms)
    return "RunInit == " + tla_set(fs) + "\n"


CFG = """SPECIFICATION %(spec)s
CONSTANTS
  NS = %(ns)s
  NV = %(nv)d
  Scenarios = %(scs)s
  CredOf <- RunCredOf
  InitActive <- RunInit
  Paired = %(paired)s
  Fixed = %(fixed)s
%(more)s
CHECK_DEADLOCK FALSE
"""


def cfg_text(spec, names, nv, nsc, paired, fixed, more):
    return CFG % {"spec": spec, "ns": tla_set(tla_str(n) for n in names), "nv": nv,
                  "scs": tla_set(str(i) for i in range(1, nsc + 1)), "paired": "TRUE" if paired else "FALSE",
                  "fixed": "TRUE" if fixed else "FALSE", "more": more}


def mc(ctx, names, nv, table, inits, paired, fixed, invariants, properties, label, allow_violation=False, timeout=600):
    mod = cred_module("Reload_run", "Reload_mc", table, names, nv, init_defs(names, inits))
    more = "INVARIANTS " + " ".join(invariants) + ("\nPROPERTIES " + " ".join(properties) if properties else "")
    cfg = cfg_text("Spec", names, nv, len(table["scenarios"]), paired, fixed, more)
    return ctx.tlc("Reload_run", "reload_run.cfg", extra_files={"Reload_run.tla": mod, "reload_run.cfg": cfg},
                   coverage=True, timeout=timeout, label=label, allow_violation=allow_violation,
                   workers=os.environ.get("VERIF_TLC_WORKERS", "auto"))


def generate(ctx, names, nv, table, inits, paired, genlen, emit_triples, label, mode="mc", sim=None, depth=None, seed=None,
             timeout=900, out_name=None):
    """TLC enumerates (or samples) behaviours; they are streamed into an NDJSON file.  Returns (path, count, TlcResult)."""
    mod = cred_module("Reload_run", "Reload_gen", table, names, nv, init_defs(names, inits))
    more = "  GenLen = %d\n  EmitTriples = %s\nINVARIANTS Emit" % (genlen, "TRUE" if emit_triples else "FALSE")
    cfg = cfg_text("GenSpec", names, nv, len(table["scenarios"]), paired, False, more)
    path = ctx.path(out_name or ("cases-%s.ndjson" % label.replace(" ", "_")))
    n = [0]
    seen = set() if mode == "sim" else None
    with open(path, "w") as f:
        def sink(v):
            line = json.dumps(v, separators=(",", ":"))
            if seen is not None:
                if line in seen:
                    return
                seen.add(line)
            f.write(line)
            f.write("\n")
            n[0] += 1
        kw = {}
        if mode == "sim":
            kw = dict(mode="sim", sim=sim, depth=depth, seed=seed, workers=1)
        else:
            kw = dict(workers=os.environ.get("VERIF_TLC_WORKERS", "auto"))
        r = ctx.tlc("Reload_run", "reload_run.cfg", extra_files={"Reload_run.tla": mod, "reload_run.cfg": cfg},
                    timeout=timeout, label=label, keep_cases=False, case_sink=sink, **kw)
    if n[0] == 0:
        raise vlib.Inconclusive("TLC produced no behaviours (%s)" % label)
    return path, n[0], r


def replay(ctx, prop, cases, table, handshake_every=1, trace=None, trace_every=1, max_dev_cases=None):
    """G: replay on the real Manager.  cases = path or list.  Returns (results, summary)."""
    cp = ctx.write_ndjson("creds-%d.json" % random.randrange(1 << 30), [table])
    env = {"VERIF_RELOAD_CREDS": cp, "VERIF_RELOAD_PROP": prop, "VERIF_RELOAD_HANDSHAKE_EVERY": handshake_every,
           "VERIF_TRACE_OUT": trace or "", "VERIF_RELOAD_TRACE_EVERY": trace_every}
    if max_dev_cases is not None:
        env["VERIF_MAX_DEV_CASES"] = max_dev_cases
    res, summ, out = ctx.harness(PKG, HARNESS, RUN_REPLAY, cases, env=env)
    return res, summ


def report(ctx, res, summ, table, names, nv, context):
    """Turn harness deviations into ctx.deviation calls (one per signature, with a minimal self-contained case)."""
    sig_count = summ.get("sig_count", {})
    first = {}
    for r in res:
        for d in r.get("devs", []):
            if d["sig"] not in first:
                first[d["sig"]] = (d["what"], r.get("obs"))
    for sig, n in sorted(sig_count.items()):
        what, case = first.get(sig, ("", None))
        rec = {"kind": "behaviour", "names": names, "nv": nv, "creds": table, "case": case}
        rec.update(context)
        for _ in range(max(n, 1)):
            ctx.deviation(sig, what, rec)
            if n > 1:
                # count the remaining occurrences without re-writing replay files
                k = ctx.known_match(sig)
                if k is not None:
                    ctx.known_hits[k["signature"]][1] += n - 1
                else:
                    for v in ctx.violations:
                        if v["sig"] == sig:
                            v["count"] += n - 1
                break
