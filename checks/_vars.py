"""Helpers of the session-settings family (spec/SessionVars*.tla, property C20)."""
import json
from concurrent.futures import ThreadPoolExecutor

HARNESS = ["proxy/server/c20_sessionvars_test.go", "proxy/server/c20_fakemysql_test.go"]
RUN = "^TestVerifC20Replay$"
PKG = "proxy/server"

START_EVS = ("start", "txfirst", "txstmt")


def tla_set(xs, quote=True):
    if quote:
        return "{" + ", ".join('"%s"' % x for x in xs) + "}"
    return "{" + ", ".join(xs) + "}"


def names_of(p):
    return list(p["sys"]) + list(p.get("ext", [])) + list(p["user"])


def constants(p, strings=True):
    """CONSTANTS block shared by the mc / gen / trace configurations.  p: dict with
    clients, nconns, sys, ext, user, sqlmode, cs, vals, usernull, fails, tx, sets, stmts, maxfails."""
    clients = ["c%d" % (i + 1) for i in range(p["clients"])]
    return """CONSTANTS
  Clients = %s
  NConns = %d
  SysVars = %s
  ExtVars = %s
  UserVars = %s
  SqlModeVars = %s
  CsVals = %s
  DefCs = "d"
  Vals = %s
  UserNull = %s
  FailKinds = %s
  TxOn = %s
  Repaired = %s
  MaxSets = %d
  MaxStmts = %d
  MaxFails = %d
""" % (tla_set(clients, quote=strings), p["nconns"], tla_set(p["sys"]), tla_set(p.get("ext", [])), tla_set(p["user"]),
       tla_set(p.get("sqlmode", [])), tla_set(p["cs"]), tla_set(p.get("vals", ["a", "b"])),
       "TRUE" if p.get("usernull") else "FALSE", tla_set(p.get("fails", [])), "TRUE" if p.get("tx") else "FALSE",
       "TRUE" if p.get("repaired") else "FALSE", p.get("sets", 100), p.get("stmts", 100), p.get("maxfails", 0))


def mc_cfg(p, invariants):
    return ("SPECIFICATION Spec\n" + constants(p, strings=False) + "SYMMETRY ClientSym\nINVARIANTS %s\nCHECK_DEADLOCK FALSE\n"
            % " ".join(invariants))


def gen_cfg(p):
    return ("SPECIFICATION GenSpec\n" + constants(p) + "  GenLen = %d\n  NeedStmts = %d\nINVARIANTS Emit\nCHECK_DEADLOCK FALSE\n"
            % (p["len"], p.get("need", 1)))


ALL_NAMES = dict(sys=["time_zone", "sql_select_limit", "group_concat_max_len", "sql_mode"], ext=["lock_wait_timeout"],
                 user=["@u", "@w"], sqlmode=["sql_mode"], cs=["d", "a", "b", "c"], vals=["a", "b"])


def trace_cfg(p=None):
    """one validating configuration for every recorded trace: the union of all names / values the generators use"""
    q = dict(ALL_NAMES)
    q.update(clients=3, nconns=4, usernull=True, fails=["reject", "sqlmode"], tx=True, sets=0, stmts=0, maxfails=0)
    return ("SPECIFICATION TraceSpec\n" + constants(q) + "POSTCONDITION TraceAccepted\nCHECK_DEADLOCK FALSE\n")


def family_key(p):
    """cases of the same variable configuration can share one trace validation run"""
    return json.dumps([p["sys"], p.get("ext", []), p["user"], p.get("sqlmode", []), p["cs"], p.get("vals", ["a", "b"])])


def nontrivial(case):
    """non-trivial: a statement runs on a pooled backend session that (a) last served another client whose requested
    settings differ, or (b) refused a SET earlier."""
    last = {}  # spec connection -> (client, want)
    for e in case["events"]:
        if e["ev"] not in START_EVS:
            continue
        k = e.get("conn")
        if e.get("outcome") == "ran":
            w = json.dumps(e["want"], sort_keys=True)
            if e.get("tainted"):
                return True
            if k in last and last[k][0] != e["c"] and last[k][1] != w:
                return True
            last[k] = (e["c"], w)
    return False


def has_refusal(case):
    return any(e.get("outcome") == "rejected" for e in case["events"])


def split_traces(lines, nchunks, tid="t"):
    """split concatenated trace lines into nchunks lists without cutting a trace"""
    groups = []
    for e in lines:
        if not groups or groups[-1][0][tid] != e[tid]:
            groups.append([])
        groups[-1].append(e)
    chunks = [[] for _ in range(max(1, nchunks))]
    sizes = [0] * len(chunks)
    for g in groups:
        i = sizes.index(min(sizes))
        chunks[i].extend(g)
        sizes[i] += len(g)
    return [c for c in chunks if c]


def validate_parallel(ctx, module, cfg_name, cfg_text, lines, jobs=4, timeout=900, max_rejects=2):
    """ctx.validate_traces on several JVMs at once.  Returns (accepted, rejected)."""
    chunks = split_traces(lines, jobs)
    if not chunks:
        return 0, []

    def one(ch):
        return ctx.validate_traces(module, cfg_name, ch, cfg_text=cfg_text, timeout=timeout, max_rejects=max_rejects)

    ok, rej = 0, []
    with ThreadPoolExecutor(max_workers=jobs) as ex:
        for o, r in ex.map(one, chunks):
            ok += o
            rej.extend(r)
    return ok, rej
