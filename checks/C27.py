"""C27 - fused replicas are not restored before their cool-down
(backend/node_fuse.go HardCoolDownStrategy / GradualRecoveryStrategy, backend/slice.go TryFuse, checkWithHardRecovery,
checkWithGradualRecovery).

Specification: spec/Fuse.tla (hard: up only when now >= latest fuse + cool; gradual: up only after `need` passing probes
since the last failed probe / fuse, need grows on a bad recovery and is reset otherwise; once the condition holds the
next passing probe marks the replica up) and spec/HealthCheck.tla (the same rules inside full probe rounds with master
state, replication state and the down-after rule).  Binding: G - TLC-generated behaviours replayed on the real NodeInfo
+ strategies + Slice.TryFuse + Slice.TryRecover (checkWith*Recovery called per round, not through the tickers) and the
real checkBackendMasterStatus loop, under the injected clock with scripted pools.
"""
import _health as H
import vlib

MANIFEST = {
    "engine": "tla-fuse",
    "level_claimed": {
        "category": "model_checking",
        "text": "TLC exhaustively checks, within a bounded clock, that the code-level recovery state (lastFuseTime, the "
                "consecutive-success countdown, errorRecoveryCount, lastRecoveryTime) implements the property-level rules "
                "(hard: no recovery before latest fuse + cool-down; gradual: no recovery before the current penalty number of "
                "passing probes, penalty growth exactly on a fuse within 2 ping periods of the last recovery, reset otherwise; "
                "recovery at the first passing probe once due), alone and composed with complete health-check rounds.  "
                "TLC-generated behaviours (bounded-exhaustive short ones, seeded long ones with every error kind, probe script, "
                "replication state, master state and clock advance) are replayed on the real strategies, TryFuse and "
                "checkWithHardRecovery/checkWithGradualRecovery under the injected clock; node status is compared with the "
                "specification after every event.",
        "design_ref": "DESIGN.md section 5 C27, section 4.1 Fuse / HealthCheck",
    },
    "level_note": "Time is virtual.  Penalties are the code's constants (initial level 3, cap 120); levels above 5 and the cap "
                  "are reached only in the seeded long behaviours, not in the exhaustive check.  Concurrent TryFuse / probe "
                  "rounds are not explored (the strategies use independent atomics without a common lock).",
    "technique": "TLA+ spec + TLC exhaustive check (countdown == penalty rule, cool-down rule); TLC-generated behaviours replayed "
                 "on the real recovery strategies and health-check rounds with a virtual clock",
}

C27_RULES = ("cooling-down", "cooldown-over", "penalty-pending", "penalty-served")


def nontrivial(c):
    """the behaviour contains a fuse, a refused recovery and a later granted recovery"""
    fused = refused = granted = False
    for e in c["events"]:
        why = e.get("why", "")
        if e["ev"] == "err" and why == "threshold-reached":
            fused = True
        elif fused and (why.endswith("cooling-down") or why.endswith("penalty-pending")):
            refused = True
        elif refused and (why.endswith("cooldown-over") or why.endswith("penalty-served")):
            granted = True
    return granted


def run(ctx):
    thorough = ctx.thorough
    rng = H.rng_of(ctx)
    seed = lambda: rng.randrange(1, 2 ** 31)
    ctx.assumptions += [
        "probe rounds are driven one by one (Slice.TryRecover per replica round, one iteration of the real "
        "checkBackendMasterStatus goroutine per master round through the ticker hook); the 4 s period is not modelled",
    ]
    known = [c["case"] for c in vlib.known_replay_cases(ctx.pid) if isinstance(c, dict) and c.get("kind") == "node"]
    if ctx.replay:
        rec = ctx.read_ndjson(ctx.replay)[0]
        H.replay(ctx, [], [rec["case"]["case"]], "replay")
        return

    jobs = []
    # 1. exhaustive: countdown == penalty rule, lastFuseTime == latest fuse, no early recovery, recovery when due
    mcs = [H.node_params("hard", maxtime=111), H.node_params("gradual", maxtime=109)]
    if thorough:
        mcs = [H.node_params("hard", w=3, maxtime=116), H.node_params("gradual", w=3, maxtime=114, maxlevel=5),
               H.node_params("hard", w=1, mn=1, cool=9, maxtime=122), H.node_params("gradual", w=1, mn=1, maxtime=114)]
    for p in mcs:
        jobs.append(dict(module="Fuse", cfg_text=H.NODE_MC % p, coverage=True, workers=4 if thorough else 2,
                         label="mc recovery policy=%(policy)s W=%(w)d Min=%(min)d cool=%(cool)d" % p))
    # measured: hard/108: 2.2e4 distinct, 5.6e5 generated; gradual/104 (down-after 4, level 3): 3.8e4 / 9.3e5;
    # gradual/105 (level 4): 3.8e5 / 9.3e6; hard/112: 1.6e5 / 6.8e6
    # quick: hard W=2 cool=3 down-after 4 /106: 1.2e4 / 2.9e5; gradual W=1 Min=1 down-after 4 /104 (level 3): 1.3e4 / 3.2e5
    hmcs = [H.hc_params("hard", maxtime=106, downafter=4, cool=3),
            H.hc_params("gradual", w=1, min=1, maxtime=104, downafter=4, maxlevel=3)]
    if thorough:
        hmcs = [H.hc_params("hard", maxtime=110), H.hc_params("gradual", maxtime=104, downafter=4),
                H.hc_params("hard", maxtime=110, downafter=4, sbm=0),
                H.hc_params("gradual", maxtime=104, downafter=4, maxlevel=3, hasmaster="FALSE")]
    for p in hmcs:
        jobs.append(dict(module="HealthCheck", cfg_text=H.HC_MC % p, coverage=True, workers=4,
                         label="mc rounds+breaker policy=%(policy)s downafter=%(downafter)d hasmaster=%(hasmaster)s" % p))
    n_mc = len(jobs)

    # 2. generation: Fuse events only (long, so that penalties are served and grow) ...
    # (gradual, Min=1: every connection error fuses, so that bad recoveries, penalty growth and the reset after a
    # good recovery all occur within one behaviour)
    plans = [dict(p=H.node_params("gradual", w=2, len=60, okweight=14), num=30), dict(p=H.node_params("gradual", w=1, mn=1, len=140, okweight=16, maxtick=10), num=40),
             dict(p=H.node_params("hard", w=2, len=30, okweight=3), num=40),
             dict(p=H.node_params("hard", w=3, cool=12, len=30, okweight=3, maxtick=13), num=30)]
    if thorough:
        plans = [dict(p=H.node_params("gradual", w=2, len=160, okweight=18), num=300), dict(p=H.node_params("gradual", w=4, mn=3, len=80, okweight=14), num=300),
                 dict(p=H.node_params("gradual", w=1, mn=1, len=200, okweight=16, maxtick=10), num=400),
                 dict(p=H.node_params("hard", w=2, len=40, okweight=3), num=500), dict(p=H.node_params("hard", w=3, cool=12, len=40, okweight=3, maxtick=13), num=400),
                 dict(p=H.node_params("hard", w=1, mn=1, cool=1, len=30, okweight=2), num=300)]
    for pl in plans:
        p = dict(pl["p"], maxtime=10 ** 6)
        jobs.append(dict(module="Fuse_gen", cfg_text=H.NODE_GEN % p, sim=pl["num"], depth=p["len"] + 1, seed=seed(),
                         label="gen fuse/probe behaviours policy=%(policy)s cool=%(cool)d len=%(len)d" % p))
    # ... every interleaving of error kinds, probes and ticks up to a small length ...
    for pol, ln in ([("hard", 4), ("gradual", 4)] if thorough else [("hard", 3), ("gradual", 3)]):
        p = H.node_params(pol, w=2, mn=1, len=ln, okweight=1, maxtime=10 ** 6, maxtick=6)
        jobs.append(dict(module="Fuse_gen", cfg_text=H.NODE_GEN % p, workers=1, emit=True,
                         label="gen all fuse/probe behaviours policy=%s len=%d" % (pol, ln)))
    # ... and the same rules inside complete health-check rounds (master state, replication state, down-after)
    hplans = [dict(p=H.hc_params("hard", fuseweight=3, len=30), num=150), dict(p=H.hc_params("gradual", fuseweight=3, len=40), num=150),
              dict(p=H.hc_params("hard", fuseweight=3, len=30, hasmaster="FALSE", cool=9), num=60)]
    if thorough:
        hplans = [dict(p=H.hc_params("hard", fuseweight=3, len=40), num=2500), dict(p=H.hc_params("gradual", fuseweight=3, len=60), num=2500),
                  dict(p=H.hc_params("hard", fuseweight=4, len=40, hasmaster="FALSE", cool=9), num=600),
                  dict(p=H.hc_params("hard", fuseweight=3, len=40, w=4, min=3, cool=2, downafter=12, sbm=0, healthsql="FALSE"), num=1200),
                  dict(p=H.hc_params("gradual", fuseweight=3, len=60, w=3, min=2, downafter=4, healthsql="FALSE"), num=1200)]
    for pl in hplans:
        p = dict(pl["p"], maxtime=10 ** 6)
        jobs.append(dict(module="HealthCheck_gen", cfg_text=H.HC_GEN % p, sim=pl["num"], depth=p["len"] + 1, seed=seed(),
                         label="gen round behaviours policy=%(policy)s hasmaster=%(hasmaster)s cool=%(cool)d" % p))
    res = H.run_jobs(ctx, jobs, parallel=4 if thorough else 6)
    cases = []
    for r in res[n_mc:]:
        cases += r.cases
    nontriv = set(H.dumps(c["events"]) for c in cases if nontrivial(c))
    classes = H.event_classes(cases)
    first = cases[0]
    ctx.sample({"policy": first["policy"], "cool": first["cool"], "events": first["events"][:10]})

    # 3. G: replay; behaviours stored with known findings are always included
    H.replay(ctx, [], cases + known, "fuse/probe/round behaviours", selftests=[H.corrupt_node(first)])
    ctx.cov["distinct_nontrivial"] = len(nontriv)
    ctx.cov["rule"] = ("distinct behaviours that contain a breaker firing, then a probe round in which recovery is refused "
                       "(cooling down / penalty pending), then a round in which it is granted")
    ctx.cov["event_classes_replayed"] = len(classes)
    ctx.cov["recovery_rule_classes"] = sorted(set("%s/%s" % (k[0], k[2]) for k in classes if any(k[2].endswith(x) for x in C27_RULES)))
    ctx.cov["code_level_candidates_in_generated_behaviours"] = H.candidates(cases)
