"""C10 - accepted configurations load and give an unambiguous routing table.

Specification: spec/RoutingConfig.tla - configurations as data, Features(cfg) (what is unusual about a configuration),
the property  VerifyAccepts(o) => Loads(o) /\\ WellFormed(o.tables)  with WellFormed = every physical table listed once,
tableToSlice total / single-valued / inside the rule's slice list, and Range(Place) within the listed tables for hash,
mod, range and mycat rules; spec/RoutingConfig_gen.tla enumerates the configurations; spec/RoutingConfig_trace.tla
evaluates the property on records of the real code (TLC is the judge).
Binding: V-style one-step records - harness/proxy/router/routecfg_test.go runs the real models.Namespace.Verify and the
real router.NewRouter on every configuration and records verify/load outcome, subTableIndexes, tableToSlice, slices,
physical databases and the table indexes FindTableIndex returns on a key sample.
"""
import copy
import json
import random

import _place
import vlib

MANIFEST = {
    "engine": "tla-routing-config",
    "level_claimed": {
        "category": "model_checking",
        "text": "TLC enumerates namespace configurations: every locations vector over {-1,0,1,2}^(1..3) for every "
                "locations-based rule type, slice lists matching / shorter / longer / with an unknown slice / duplicated, "
                "database lists (names, prefix[lo-hi] lists, wrong count, duplicates, descending bounds), partition "
                "count/length lists (sum != 1024, zero, negative), virtual bucket counts <= 0, row limits <= 0, calendar "
                "range lists (single, span, descending, overlapping, unordered, invalid period), default slice present / "
                "empty / unknown, table and parent names differing in case, linked tables; each is given to the real "
                "Namespace.Verify and NewRouter and TLC evaluates VerifyAccepts => Loads /\\ WellFormed on every record of "
                "what the real code built (sub-table list, tableToSlice, databases, placement sample).",
        "design_ref": "DESIGN.md section 5 C10, section 4.1 Routing",
    },
    "level_note": "Only the routing part of a namespace varies (users, slices' addresses, charset are fixed valid values). "
                  "Range(Place) is observed on a key sample (40 integers around 0..61, 255..1025, 64-bit edges, 8 strings), "
                  "not on every key. A panic inside Verify is recorded (evidence field verify_panics) but is not an "
                  "acceptance, hence not a violation of this property. mycat_padding_mod rules are not enumerated.",
    "technique": "TLA+ spec + TLC enumeration of configurations; records of the real Verify/NewRouter judged by TLC against "
                 "the well-formedness property",
}

GEN_CFG = """SPECIFICATION Spec
CONSTANTS
  Wide = %(wide)s
INVARIANTS FeaturesKnown Emit
CHECK_DEADLOCK FALSE
"""

TRACE_CFG = """SPECIFICATION Spec
CONSTANTS
  Strict = %(strict)s
INVARIANTS Verdict SoundRecord
CHECK_DEADLOCK FALSE
"""

HARNESS = ["proxy/router/place_test.go", "proxy/router/routecfg_test.go"]
RUN = "^TestVerifRouteConfig$"
NONE = -999999
NS = ["slice-0", "slice-1", "slice-2"]


def base_rule(typ):
    return {"db": "db_verif", "table": "tbl_verif", "parent": "", "type": typ, "locations": [], "slices": [], "limit": 10,
            "ranges": [], "databases": [], "pcount": [], "plength": [], "hs": {"form": "pair", "a": 0, "b": 2}, "seed": 0, "vbt": 2, "spell": "plain"}


def random_cfg(rng):
    """seed-dependent configurations (data only; features and verdict are computed by TLC)"""
    typ = rng.choice(["hash", "mod", "range", "mycat_mod", "mycat_long", "mycat_string", "mycat_murmur", "global"])
    r = base_rule(typ)
    n = rng.randint(1, 4)
    r["locations"] = [rng.choice([-2, -1, 0, 1, 1, 2, 2, 3]) for _ in range(n)]
    names = NS + ["slice-0", "slice-x"]
    k = rng.choice([n, n, n, n - 1, n + 1])
    r["slices"] = [rng.choice(NS) if rng.random() < 0.2 else names[i % len(names)] for i in range(max(k, 0))]
    tot = sum(r["locations"])
    if typ.startswith("mycat") or (typ == "global" and rng.random() < 0.6):
        m = max(tot + rng.choice([0, 0, 0, 1, -1]), 0)
        if m >= 2 and rng.random() < 0.3:
            r["databases"] = [{"prefix": "mdb", "lo": 1, "hi": m}]
        else:
            r["databases"] = [{"prefix": "mdb%d" % (1 if rng.random() < 0.1 else i + 1), "lo": NONE, "hi": NONE} for i in range(m)]
    if typ in ("mycat_long", "mycat_string"):
        t = max(tot, 1)
        if 1024 % t == 0 and rng.random() < 0.6:
            r["pcount"], r["plength"] = [t], [1024 // t]
        else:
            a = rng.randint(0, t)
            r["pcount"] = [a, t - a]
            r["plength"] = [rng.choice([256, 512, 0, -512, 1024]), rng.choice([256, 512, 0, 1536])]
    if typ == "mycat_murmur":
        r["vbt"] = rng.choice([1, 2, 3, 0, -1])
        r["seed"] = rng.choice([0, 1, -1, 12345])
    if typ == "range":
        r["limit"] = rng.choice([1, 10, 1000, 0, -1])
    if rng.random() < 0.15:
        r["spell"] = rng.choice(["sp-after", "sp-before", "sp-both", "tab-after", "outer", "inner-and-outer"])
    return {"nsslices": NS, "default": rng.choice(["slice-0", "slice-0", "slice-1", "", "slice-x"]), "rules": [r]}


def normalise(cfg):
    """stored cases written before a field existed get its default"""
    for r in cfg["rules"]:
        r.setdefault("spell", "plain")
    return cfg


def observe(ctx, cfgs, label):
    """run the real Verify / NewRouter on every configuration; returns the observation records"""
    cases = [{"id": i, "cfg": c} for i, c in enumerate(cfgs)]
    tp = ctx.path("records-%s.ndjson" % label)
    res, summ, out = ctx.harness("proxy/router", HARNESS, RUN, cases, env={"VERIF_TRACE_OUT": tp})
    if summ["cases"] != len(cases):
        raise vlib.Inconclusive("harness observed %d of %d configurations" % (summ["cases"], len(cases)))
    recs = [r for r in ctx.read_ndjson(tp) if not r.get("summary")]
    if len(recs) != len(cases):
        raise vlib.Inconclusive("harness wrote %d records for %d configurations" % (len(recs), len(cases)))
    return recs, summ


def judge(ctx, recs, strict=False, label="judge"):
    """TLC evaluates the property on every record; returns {id: verdict} (non-strict) or the TlcResult (strict)."""
    import tempfile
    path = ctx.write_ndjson(tempfile.mktemp(prefix="records-in-", suffix=".ndjson", dir=ctx.scratch), recs)
    r = ctx.tlc("RoutingConfig_trace", "rc_trace.cfg",
                extra_files={"rc_trace.cfg": TRACE_CFG % {"strict": "TRUE" if strict else "FALSE"}, "records.ndjson": path},
                workers=1, timeout=1800, heap="4g", allow_violation=strict, label=label)
    if strict:
        return r
    verdicts = {v["id"]: v for v in r.cases}
    if len(verdicts) != len(recs):
        raise vlib.Inconclusive("TLC judged %d of %d records" % (len(verdicts), len(recs)))
    return verdicts


def report(ctx, recs, verdicts):
    byid = {r["id"]: r for r in recs}
    for vid, v in sorted(verdicts.items()):
        for clause in v["bad"]:
            rec = byid[vid]
            types = "+".join(sorted(set(v["types"]))) or "no-rules"
            sig = "C10 %s: %s with %s" % (types, clause, "+".join(sorted(v["inval"])) or "valid-configuration")
            tabs = [{k: t[k] for k in ("table", "type", "subtables", "t2s", "slices", "dbs", "placed", "placed_min", "crashed", "crash_msg")}
                    for t in rec["tables"]]
            what = ("Verify accepts the configuration but %s: verify=%s load=%s %s tables=%s"
                    % (clause, rec["verify"], rec["load"], rec["load_msg"], json.dumps(tabs)))
            ctx.deviation(sig, what[:1500], {"kind": "cfg", "cfg": rec["cfg"]})


def run(ctx):
    thorough = ctx.thorough
    ctx.assumptions += [
        "a configuration reaches the proxy exactly as validated (Verify and NewRouter get identical namespace objects)",
        "physical table of a hash/mod/range/date rule = table index; of a mycat/global rule = (slice name, database name)",
    ]
    if ctx.replay:
        rec = ctx.read_ndjson(ctx.replay)[0]
        c = rec["case"]
        if c.get("kind") != "cfg":
            raise vlib.Inconclusive("unknown replay record")
        recs, _ = observe(ctx, [normalise(c["cfg"])], "replay")
        report(ctx, recs, judge(ctx, recs, label="judge replayed configuration"))
        return

    rng = random.Random(ctx.seed)
    r = ctx.tlc("RoutingConfig_gen", "rc_gen.cfg", extra_files={"rc_gen.cfg": GEN_CFG % {"wide": "TRUE" if thorough else "FALSE"}},
                workers=1, timeout=1500, heap="4g", label="enumerate configurations")
    if not r.cases or len(r.cases) != r.distinct:
        raise vlib.Inconclusive("TLC printed %d configurations for %d states" % (len(r.cases), r.distinct))
    cfgs = [v["cfg"] for v in r.cases]
    n_enum = len(cfgs)
    spec_valid = sum(1 for v in r.cases if v["valid"])
    cfgs += [random_cfg(rng) for _ in range(300 if not thorough else 8000)]
    for k in vlib.known_replay_cases("C10"):
        if k.get("kind") == "cfg":
            cfgs.append(normalise(k["cfg"]))
    ctx.log("TLC enumerated %d configurations (%d valid by the specification) in %.1fs; +%d seed-drawn" % (n_enum, spec_valid, r.wall, len(cfgs) - n_enum))

    recs, summ = observe(ctx, cfgs, "main")
    ctx.log("observed", summ)
    # binding self-test rides along: three corrupted copies of a record of a plain valid configuration (and the copy
    # itself) are judged in the same TLC run; TLC must reject the corrupted ones and accept the copy
    plain = [x for x in recs if x["verify"] == "ok" and x["load"] == "ok" and len(x["tables"]) == 1
             and x["tables"][0]["type"] == "hash" and len(x["tables"][0]["subtables"]) >= 2 and not x["tables"][0]["crashed"]
             and sorted(x["tables"][0]["subtables"]) == sorted(set(x["tables"][0]["subtables"]))
             and len(x["cfg"]["rules"]) == 1 and x["cfg"]["rules"][0]["locations"]
             and min(x["cfg"]["rules"][0]["locations"]) > 0 and x["cfg"]["default"] != ""]
    if not plain:
        raise vlib.Inconclusive("no plain valid record to corrupt for the binding self-test")
    tries = []
    t = copy.deepcopy(plain[0]); t["tables"][0]["subtables"].append(t["tables"][0]["subtables"][0]); tries.append(t)
    t = copy.deepcopy(plain[0]); t["load"] = "err"; t["tables"] = []; tries.append(t)
    t = copy.deepcopy(plain[0]); t["tables"][0]["t2s"] = t["tables"][0]["t2s"][1:]; tries.append(t)
    tries.append(copy.deepcopy(plain[0]))
    for i, t in enumerate(tries):
        t["id"] = len(recs) + i
    allv = judge(ctx, recs + tries, label="judge %d records of the real Verify/NewRouter (+4 self-test records)" % len(recs))
    st = [allv.pop(len(recs) + i) for i in range(4)]
    verdicts = allv
    detected = sum(1 for v in st[:3] if v["bad"])
    ctx.cov["binding_selftest"] = {"corrupted_records": 3, "rejected_by_tlc": detected, "sound_record_accepted": not st[3]["bad"]}
    if thorough:
        rr = judge(ctx, [dict(tries[0], id=0)], strict=True, label="self-test: corrupted record against the invariant SoundRecord")
        ctx.cov["binding_selftest"]["invariant_SoundRecord_violated_on_corrupted_record"] = rr.violated == "SoundRecord"
        if rr.violated != "SoundRecord":
            raise vlib.Inconclusive("binding self-test failed: invariant SoundRecord not violated by a corrupted record (%s)" % rr.violated)
    if detected != 3 or st[3]["bad"]:
        raise vlib.Inconclusive("binding self-test failed: %d of 3 corrupted records rejected, sound copy rejected=%s" % (detected, bool(st[3]["bad"])))
    report(ctx, recs, verdicts)

    ctx.cov["traces_validated_against_impl"] += len(recs)
    ctx.cov["evaluations"] += len(recs)
    ctx.cov["configurations_enumerated_by_tlc"] = n_enum
    ctx.cov["configurations_valid_by_spec"] = spec_valid
    for k, v in summ.items():
        if k.startswith("n_"):
            ctx.cov[k] = v
    accepted = [x for x in recs if x["verify"] == "ok"]
    ctx.cov["distinct_nontrivial"] = len({json.dumps(x["cfg"], sort_keys=True) for x in accepted if verdicts[x["id"]]["features"]})
    ctx.cov["rule"] = ("record = one configuration with what Verify and NewRouter did; non-trivial = Verify ACCEPTED the configuration and it "
                       "has at least one unusual feature (negative/zero location, slice or database list mismatch, duplicate, "
                       "non-positive parameter, descending span, case-different names, ...), i.e. the implication is not vacuous and not the plain valid case")
    ctx.cov["accepted_configurations"] = len(accepted)
    ctx.cov["accepted_and_spec_valid"] = sum(1 for x in accepted if verdicts[x["id"]]["valid"])
    ctx.cov["spec_valid_but_rejected_by_verify"] = sum(1 for x in recs if x["verify"] != "ok" and verdicts[x["id"]]["valid"])
    vp = {}
    for x in recs:
        if x["verify"] == "panic":
            key = "+".join(sorted(set(t["type"] for t in x["cfg"]["rules"]))) + ": " + "+".join(sorted(verdicts[x["id"]]["inval"]))
            vp.setdefault(key, x["verify_msg"])
    ctx.cov["verify_panics"] = vp
    if vp:
        ctx.notes.append("Namespace.Verify panics (neither accepts nor rejects) on %d classes of configurations, see coverage.verify_panics" % len(vp))
    for x in (recs[0], recs[len(recs) // 3], recs[len(recs) // 2]):
        ctx.sample({"cfg": x["cfg"], "verify": x["verify"], "load": x["load"], "tables": x["tables"], "verdict": verdicts[x["id"]]})

