"""C03 - every inserted row is stored once, where lookups will find it.

Specification: spec/Routing.tla (InsertEffect, InsertOnce), Routing_ins.tla, RoutingRules.tla.
Binding: G.  TLC enumerates INSERT statements (rule instance x VALUES/SET x sequence mode x rows of sharding-value
classes) with the specification's InsertEffect; the harness renders them, plans them with the real plan.BuildPlan,
parses every rewritten INSERT of the per-slice SQL map and compares the rows per physical table.
"""
import json
import random

import _routing as rt

MANIFEST = {
    "engine": "tla-routing",
    "level_claimed": {
        "category": "model_checking",
        "text": "TLC enumerates every INSERT of 1..2 (quick) / 1..3 (thorough) rows over an alphabet of sharding values (two keys of "
                "one table, a key of another table, unplaceable keys (below and above everything configured, inside an unconfigured period "
                "between two configured ones), the second literal spelling, NULL, signed, arithmetic, "
                "function call, a short row, a sequence value) for 8 / 14 rule instances (incl. calendar layouts with a gap), in VALUES and SET form, without a global "
                "sequence, with one on a separate column and with one feeding the sharding column; it checks at the design level "
                "that InsertEffect stores every row once in the table a point query is routed to.  Every case is replayed on the real "
                "planner: the rewritten INSERT statements of the plan are parsed and their rows compared per physical table with "
                "InsertEffect (or the whole statement must be rejected), and each stored key is looked up with a point query.",
        "design_ref": "DESIGN.md section 5 C03",
    },
    "level_note": "Rule types: hash, mod, range, date_year, date_month, date_day. INSERT ... SELECT is rejected by the planner and not "
                  "enumerated; ON DUPLICATE KEY UPDATE is not rendered. What a backend does with a statement (e.g. rejecting a row of "
                  "wrong arity) is outside the plan-level observation. Global tables are covered by C04.",
    "technique": "TLA+ spec + TLC exhaustive enumeration of INSERT cases with the specification's InsertEffect; cases replayed on "
                 "the real planner and the rewritten statements compared row by row",
}

MODULE_DEFS = {"MCRules": None}

CFG = ("SPECIFICATION Spec\nCONSTANTS\n  Rules <- MCRules\n  MaxRows = %d\n  EmitCases = TRUE\n"
       "INVARIANTS TypeOK Emit EffectStoresOnce RejectIffUnroutable\nCHECK_DEADLOCK FALSE\n")


def run(ctx):
    import vlib
    thorough = ctx.thorough
    rng = random.Random(ctx.seed)
    ctx.assumptions += [
        "a statement the planner rejects with an error writes nothing; a planner panic is not a rejection",
        "rows are identified in the rewritten statements by a tag value in the non-sharding column",
        "the fake global sequence delivers consecutive integers starting at the specification's SeqStart",
    ]
    if ctx.replay:
        rec = ctx.read_ndjson(ctx.replay)[0]
        summ = rt.feed(ctx, rt.replay_lines(rec), "C03")
        rt.merge_counts(ctx, summ)
        return
    rules = "InsThoroughRules" if thorough else "InsQuickRules"
    maxrows = 3 if thorough else 2
    mod = rt.gen_module("Routing_ins", {"MCRules": rules})
    r = ctx.tlc("RoutingRun", "routing_ins.cfg", extra_files={"RoutingRun.tla": mod, "routing_ins.cfg": CFG % maxrows},
                workers="auto", timeout=2400, label="enumerate INSERT cases, MaxRows=%d" % maxrows)
    ctx.log("generated", len(r.cases), "records", r.stats(), "%.0fs" % r.wall)
    lines, rulerecs = rt.group_by_rule(r.cases, "ins")
    extra = rt.known_lines("C03")
    for c in lines + extra:
        if c.get("kind") == "ins":
            c["sp"] = rng.randrange(1, 1 << 53)
    ins = [c for c in lines if c["kind"] == "ins"]
    ctx.cov["cases"] = {"rules": len(rulerecs), "inserts": len(ins),
                        "expected_rejected": sum(1 for c in ins if c["expect"]["rej"]),
                        "expected_stored": sum(1 for c in ins if not c["expect"]["rej"]),
                        "by_form_seq": {k: sum(1 for c in ins if c["form"] + "/" + c["seqm"] == k)
                                        for k in sorted({c["form"] + "/" + c["seqm"] for c in ins})}}
    for c in ins[:: max(1, len(ins) // 5)]:
        ctx.sample(c)
    # binding self-test case: an expected row moved to another table must be reported
    selftest = []
    for c in ins:
        if not c["expect"]["rej"] and c["form"] == "values" and c["seqm"] == "none":
            rule = rulerecs[c["rule"]]
            t = c["expect"]["put"][0][0]
            other = [x for x in rule["tables"] if x != t]
            if not other:
                continue
            bad = json.loads(json.dumps(c))
            bad["expect"]["put"][0][0] = other[0]
            bad["selftest"] = True
            selftest = [rule, bad]
            break
    summ = rt.feed(ctx, lines + extra + selftest, "C03")
    rt.merge_counts(ctx, summ)
    ctx.cov["traces_validated_against_impl"] += len(ins)
    ctx.cov["evaluations"] += summ["counts"].get("plans", 0) + summ["counts"].get("point-queries", 0)
    ctx.cov["distinct_nontrivial"] = summ.get("distinct_nontrivial", 0)
    ctx.cov["rule"] = ("case = INSERT statement emitted by TLC with InsertEffect; non-trivial = the real planner accepted it, every row "
                       "was found exactly once in its expected physical table and the point query on each stored key was routed there; "
                       "counted once per distinct (rule, statement text)")
    ctx.log("replayed", len(ins), "cases;", summ["counts"])
    caught = bool(selftest) and summ["selftest_hits"] == 1
    ctx.cov["binding_selftest"] = {"corrupted_expectation_detected": caught}
    if not caught:
        raise vlib.Inconclusive("binding self-test failed: a corrupted InsertEffect was accepted")
