"""C08 - Mycat-compatible rules place keys exactly where Mycat does.

Specification: spec/RoutingPlace.tla - MycatModPlace / MycatLongPlace / MycatStringPlace / MycatMurmurPlace written from
the Mycat (Java) algorithms PartitionByMod, PartitionByLong (PartitionUtil), PartitionByString (StringUtil.hash,
sequenceSlicing) and PartitionByMurmurHash (Guava murmur3_32 hashUnencodedChars, TreeMap ring) with Java semantics:
UTF-16 code units, two's complement, BigInteger for mod.  spec/RoutingPlace_anchor.tla pins these operators to ground
truth that does not come from the Go code (published murmur3 vectors; placements computed by Mycat itself).
Binding: G - TLC emits (rule parameters, key, expected table, slice, physical database); harness/proxy/router/
place_test.go builds the rule with models.Namespace -> router.NewRouter and calls Rule.FindTableIndex,
GetSliceIndexFromTableIndex, GetDatabaseNameByTableIndex, GetDatabases.
"""
import random

import _place
import vlib

MANIFEST = {
    "engine": "tla-routing-place",
    "level_claimed": {
        "category": "model_checking",
        "text": "TLC evaluates the Mycat algorithms written in TLA+ (32-bit murmur3 on 16-bit halves with 8-bit-limb "
                "multiplication, string hash carried modulo 1024, keys as sign + decimal digits) on every (parameter set, "
                "key) of the universe: node counts 1-16, count/length lists summing to 1024, hash slices with positive, "
                "negative and open bounds, murmur seeds {0,1,-1,2^31-1,random} x virtual buckets {1,2,4,160}, keys = integers "
                "around 0, n, 1024, 2^31, +-2^63, ASCII / Latin-1 / CJK / supplementary-plane strings, the empty string and "
                "seed-drawn random strings and integers; TLC checks that partition tables cover 0..1023 in order and that the "
                "modulo-1024 carry equals the full hash; the operators are pinned to Mycat's own results and to the published "
                "murmur3 vectors (ASSUMEs); every case is replayed on the real router with the TLC-computed table, slice "
                "and physical database.",
        "design_ref": "DESIGN.md section 5 C08, section 4.1 Routing",
    },
    "level_note": "Mycat itself is not executed (no JVM artefact of Mycat offline): the reference is the TLA+ transcription "
                  "of its algorithms, anchored by values the repository's tests record as computed by Mycat and by the murmur3 "
                  "reference vectors. Weighted murmur nodes (weightMapFile) are not modelled (Gaea does not implement them). "
                  "mycat_padding_mod is outside the property. Keys above the signed 64-bit range are outside the property.",
    "technique": "TLA+ spec + TLC enumeration with spec-level invariants and ground-truth ASSUMEs; TLC-generated cases with "
                 "TLC-computed expectations replayed on the real router",
}

ANCHOR_CFG = "SPECIFICATION Spec\nCONSTANTS\n  Full = %s\n"


def nontrivial(c):
    """non-trivial: non-ASCII or empty string key, negative / beyond-32-bit integer key, or a hash slice with a negative or open bound"""
    if c.get("item") == "layout":
        return False
    k = c["key"]
    if k["kind"] == "str":
        if not k["cps"] or any(cp >= 128 for cp in k["cps"]):
            return True
    elif k["neg"] or len(k["digits"]) > 9:
        return True
    hs = c["rule"].get("hs")
    if hs and (hs["a"] < 0 or hs["b"] < 0):
        return True
    return False


def run(ctx):
    thorough = ctx.thorough
    ctx.assumptions += [
        "Mycat reference = TLA+ transcription of PartitionByMod/Long/String/MurmurHash (Mycat 1.6) anchored to recorded Mycat results",
        "keys reach FindTableIndex as int64 / uint64 / int / string; Mycat receives the decimal text of integer keys",
        "a panic with a router.KeyError value (non-numeric key on mycat_mod / mycat_long) counts as a rejection, as Mycat's "
        "NumberFormatException does",
    ]
    if ctx.replay:
        if not _place.run_replay_file(ctx):
            raise vlib.Inconclusive("unknown replay record")
        return

    rng = random.Random(ctx.seed)

    def anchors():
        r = ctx.tlc("RoutingPlace_anchor", "anchor.cfg", extra_files={"anchor.cfg": ANCHOR_CFG % ("TRUE" if thorough else "FALSE")}, workers=1, timeout=900,
                    heap="2g", xss="64m", label="ground-truth anchors (murmur3 vectors, Mycat-computed placements)")
        ctx.log("anchors hold", "%.1fs" % r.wall)
        return []

    n = 10 if not thorough else 40
    x1, x2, x3 = (_place.extra_for("mycat", rng, n) for _ in range(3))
    jobs = [anchors, lambda: _place.generate(ctx, "mycat_murmur", "C08", thorough, [0], x1, timeout=1800, xss="64m")]
    if thorough:
        jobs += [lambda: _place.generate(ctx, "mycat_string", "C08", True, [0], x2, timeout=1800),
                 lambda: _place.generate(ctx, "mycat_mod+mycat_long", "C08", True, [0], x3, timeout=1800)]
    else:
        jobs += [lambda: _place.generate(ctx, "mycat_mod+mycat_long+mycat_string", "C08", False, [0], x2, timeout=1800)]
    cases = [c for part in _place.parallel(jobs, 4) for c in part]
    for k in vlib.known_replay_cases("C08"):
        if k.get("kind") == "place":
            cases.append(dict(k["case"]))
    summ = _place.replay(ctx, cases, selftest=True)
    ctx.log("replayed", summ)
    nt = set()
    for c in cases:
        if nontrivial(c):
            nt.add(_place.json.dumps([c["rule"], c["key"]], sort_keys=True))
    ctx.cov["distinct_nontrivial"] = len(nt)
    ctx.cov["rule"] = ("case = (rule parameters, key); non-trivial = empty or non-ASCII string key, negative or beyond-32-bit integer key, "
                       "or a hash slice with a negative bound")
    for c in (cases[1], cases[len(cases) // 3], cases[len(cases) // 2], cases[-5]):
        _place.sample(ctx, c)
