"""C28 - health checks mark nodes down and up according to the probe history
(backend/slice.go checkBackendMasterStatus, TryRecover -> checkWith{No,Hard,Gradual}Recovery, checkInstanceStatus,
checkSlaveSyncStatus / GetSlaveStatus; backend/node.go ShouldDownAfterNoAlive; backend/connection_pool.go lastChecked).

Specification: spec/HealthCheck.tla - per round the inputs (GetCheck result, health-SQL / ping / select-1 outcome at each
repeat, replication state from SHOW SLAVE STATUS, privilege error, master status), the clock, lastChecked and down-after;
I-level = the code's steps, P-level = the rules of the property (down once no probe passed for down-after; replica also
down on lag over the limit or a stopped thread; up again after a passed probe, subject to the recovery policy; nothing
else changes a status).  Binding: G - TLC-generated round histories replayed on the real code under the injected clock:
replica rounds through Slice.TryRecover, master rounds through the real checkBackendMasterStatus goroutine (ticker hook),
scripted pools whose GetCheck / Ping / Execute follow the script; status of both nodes compared after every event.
"""
import _health as H
import vlib

MANIFEST = {
    "engine": "tla-healthcheck",
    "level_claimed": {
        "category": "model_checking",
        "text": "TLC exhaustively checks, for all three recovery configurations, with and without a health-check statement, a "
                "master, and replication checking, that the code-level round functions change node status only by the rules of "
                "the property (down-after rule on lastChecked, replication rule, up after a passed probe subject to the recovery "
                "policy, frame conditions between master and replica and for clock advances).  TLC-generated histories (all histories of a bounded length over a reduced input "
                "alphabet, plus seeded long ones over every probe script x every replication state x master state x clock "
                "advance) are replayed on the real checkWith*Recovery functions and the real master-check loop under the injected "
                "clock with scripted pools; the status of both nodes must be in the set the specification allows after every event.",
        "design_ref": "DESIGN.md section 5 C28, section 4.1 HealthCheck",
    },
    "level_note": "Time is virtual; rounds are driven one at a time (the 4 s tickers are replaced through the ticker hook for the "
                  "master loop; replica rounds call TryRecover directly, not checkBackendSlaveStatus).  One master and one replica "
                  "(replicas do not interact).  SHOW SLAVE STATUS results are built through the real text-row parser with the column "
                  "types MySQL sends; a failing SHOW SLAVE STATUS (other than a privilege error) may or may not mark the replica "
                  "down (the property does not say).  Pool internals (real connections, GetCheck reconnects) are not exercised.",
    "technique": "TLA+ spec + TLC exhaustive check of the round rules; TLC-generated probe histories replayed on the real health-check "
                 "code with a virtual clock and scripted pools",
}


def nontrivial(c):
    """a node goes down by a rule and later comes up again, or comes up and later goes down"""
    seq = [e for e in c["events"] if e["ev"] in ("rround", "mround")]
    downs = [i for i, e in enumerate(seq) if e["why"].startswith(("no-probe", "replication-")) and e["i"] == 0]
    ups = [i for i, e in enumerate(seq) if e["why"] in ("probe-passed", "cooldown-over", "penalty-served", "master-down/probe-passed") and e["i"] == 1]
    return bool(downs and ups and (min(downs) < max(ups)))


def run(ctx):
    thorough = ctx.thorough
    rng = H.rng_of(ctx)
    seed = lambda: rng.randrange(1, 2 ** 31)
    ctx.assumptions += [
        "a probe passes when GetCheck returns a connection and either the health statement succeeds or four repeats of "
        "(health statement fails with an ordinary error | none configured, ping ok, select 1 ok) complete; server-shutdown, "
        "tablespace-missing/discarded and timeout errors of the health statement, a ping error or a select-1 error fail it",
    ]
    known = [c["case"] for c in vlib.known_replay_cases(ctx.pid) if isinstance(c, dict) and c.get("kind") == "node"]
    if ctx.replay:
        rec = ctx.read_ndjson(ctx.replay)[0]
        H.replay(ctx, [], [rec["case"]["case"]], "replay")
        return

    jobs = []
    # 1. exhaustive check of the round rules
    mcs = [H.hc_params("off", maxtime=109), H.hc_params("hard", maxtime=106, downafter=4, cool=3),
           H.hc_params("gradual", w=1, min=1, maxtime=104, downafter=4, maxlevel=3),
           H.hc_params("off", maxtime=108, downafter=4, sbm=0, healthsql="FALSE"), H.hc_params("off", maxtime=108, hasmaster="FALSE")]
    if thorough:
        mcs = [H.hc_params("off", maxtime=116, syncs="Syncs"), H.hc_params("hard", maxtime=110),
               H.hc_params("gradual", maxtime=104, downafter=4),
               H.hc_params("off", maxtime=112, downafter=4, sbm=0, healthsql="FALSE"), H.hc_params("off", maxtime=112, hasmaster="FALSE"),
               H.hc_params("hard", maxtime=108, downafter=4), H.hc_params("gradual", maxtime=104, downafter=4, maxlevel=3, healthsql="FALSE"),
               H.hc_params("gradual", maxtime=104, downafter=4, maxlevel=3, hasmaster="FALSE", sbm=0)]
    for p in mcs:
        jobs.append(dict(module="HealthCheck", cfg_text=H.HC_MC % p, coverage=True, workers=4,
                         label="mc rounds policy=%(policy)s downafter=%(downafter)d sbm=%(sbm)d healthsql=%(healthsql)s hasmaster=%(hasmaster)s" % p))
    n_mc = len(jobs)

    # 2. generation: every history of a bounded length over the reduced alphabet (down-after of one and of two rounds) ...
    bfs = [("off", 8, 3), ("hard", 8, 3), ("gradual", 4, 3)] if not thorough else [("off", 8, 4), ("gradual", 4, 4), ("hard", 8, 3), ("off", 4, 3), ("gradual", 8, 3)]
    for pol, da, ln in bfs:
        p = H.hc_params(pol, mode="bfs", len=ln, downafter=da, maxtime=10 ** 6)
        jobs.append(dict(module="HealthCheck_gen", cfg_text=H.HC_GEN % p, workers=1, emit=True,
                         label="gen all round histories policy=%s downafter=%d len=%d" % (pol, da, ln)))
    # ... and seeded long histories over the full alphabet
    plans = [dict(p=H.hc_params("off", len=30), num=120), dict(p=H.hc_params("hard", len=30), num=80),
             dict(p=H.hc_params("gradual", len=40), num=120), dict(p=H.hc_params("off", len=24, downafter=4, healthsql="FALSE"), num=60),
             dict(p=H.hc_params("off", len=24, hasmaster="FALSE"), num=40), dict(p=H.hc_params("gradual", len=30, sbm=0), num=40)]
    if thorough:
        for pl in plans:
            pl["num"] *= 12
        plans += [dict(p=H.hc_params("hard", len=40, downafter=12, sbm=1), num=600),
                  dict(p=H.hc_params("gradual", len=60, downafter=16, healthsql="FALSE", hasmaster="FALSE"), num=600)]
    for pl in plans:
        p = dict(pl["p"], maxtime=10 ** 6)
        jobs.append(dict(module="HealthCheck_gen", cfg_text=H.HC_GEN % p, sim=pl["num"], depth=p["len"] + 1, seed=seed(),
                         label="gen round histories policy=%(policy)s downafter=%(downafter)d sbm=%(sbm)d healthsql=%(healthsql)s hasmaster=%(hasmaster)s" % p))
    res = H.run_jobs(ctx, jobs, parallel=4 if thorough else 6)
    cases = []
    for r in res[n_mc:]:
        cases += r.cases
    nontriv = set(H.dumps(c["events"]) for c in cases if nontrivial(c))
    classes = H.event_classes(cases)
    inputs = set()
    for c in cases:
        for e in c["events"]:
            if e["ev"] == "rround":
                inputs.add((e["pr"]["gc"], e["pr"]["k"], e["pr"]["kind"], e["sy"]))
    first = cases[len(cases) // 2]
    ctx.sample({"policy": first["policy"], "downafter": first["downafter"], "events": first["events"][:8]})

    # 3. G: replay; behaviours stored with known findings are always included
    H.replay(ctx, [], cases + known, "round histories", selftests=[H.corrupt_node(first)])
    ctx.cov["distinct_nontrivial"] = len(nontriv)
    ctx.cov["rule"] = ("distinct round histories in which a node is marked down by the down-after or the replication rule and a "
                       "node is marked up by a passed probe later in the same history")
    ctx.cov["event_classes_replayed"] = len(classes)
    ctx.cov["distinct_replica_round_inputs"] = len(inputs)
    ctx.cov["rules_exercised"] = sorted(set("%s/%s" % (k[1], k[2]) for k in classes if k[1] in ("rround", "mround")))
    ctx.cov["code_level_candidates_in_generated_behaviours"] = H.candidates(cases)
