"""C38 - malformed client input never crashes the proxy.

Specification: spec/Protocol.tla PART M (packet field lists, malformation operators, expectation classes, session
machine), Protocol_gen.tla (abstract cases), Protocol_trace.tla (judgement of recorded observations).
Binding: G - every abstract malformation is rendered to bytes and sent to a real Server on loopback (real accept loop
and sessions, fake MySQL backends); V - the recorded observations (offender's first reply, healthy concurrent session,
fresh connection) are judged by TLC, which recomputes the expectation class from the case.
"""
import json
import random

import _proto

MANIFEST = {
    "engine": "tla-protocol",
    "level_claimed": {
        "category": "model_checking",
        "text": "TLC enumerates, from the field-list grammar of the handshake response and of every command, all single "
                "malformations (truncation at every field boundary and one byte either side, oversized length prefixes in "
                "every encoding, statement / parameter ids out of range, wrong sequence ids, zero-length packets, header "
                "lengths that disagree with the bytes sent) and all pairs of them, classifies each (must be rejected / may be "
                "ignored / still grammatical) and checks the session machine's invariants; every enumerated single and a "
                "seeded sample of the pairs (thorough: all pairs and all triples field-operator + truncation + framing) is rendered to real bytes and sent to a real proxy Server "
                "on loopback; TLC judges the recorded observations: the offender got an error packet or was disconnected, a "
                "healthy session querying during the input and a fresh connection afterwards get correct answers, and the "
                "process survives (a dead test binary is attributed to the case that was started last).",
        "design_ref": "DESIGN.md section 5 C38, section 4.1 Protocol",
    },
    "level_note": "Coverage-guided fuzzing, which the property's quantifier names, is outside this technique: the structured "
                  "enumeration from the packet grammar replaces it (every field boundary +-1, every length prefix, every id, "
                  "sequence and header-length class, and their pairs), so byte sequences that are not within two operators of "
                  "a well-formed seed packet are not explored.  One seed per packet kind (16 kinds, one of them on a session whose database the namespace does not know; statements with three "
                  "parameters long/var_string/datetime); 'hang' is judged with a 30 s read deadline on the offending session "
                  "after the client has half-closed where the framing is broken; backend faults are not injected.",
    "technique": "TLA+ spec + TLC enumeration of malformed packets; cases rendered to bytes against a real Server on "
                 "loopback; recorded observations judged by TLC",
}

HARNESS = _proto.COMMON + ["proxy/server/proto_c38_test.go"]
RUN = "^TestVerifProtoMalformed$"


def problems(obs, verdicts):
    """(problem, detail) list for one case from TLC's verdicts on its observation lines"""
    out = []
    vo, vh, va = verdicts
    if obs["offender"] == "hang":
        out.append(("offending session gets no answer and is not closed", obs.get("detail", "")))
    elif not vo["ok"]:
        out.append(("malformed input %s (class %s)" % (obs["offender"], vo["info"]["class"]), obs.get("detail", "")))
    if not vh["ok"]:
        out.append(("healthy session disturbed", obs.get("healthy_detail", "")))
    if not va["ok"]:
        out.append(("listener stopped serving", obs.get("accept_detail", "")))
    return out


def execute(ctx, cases, label):
    import vlib
    byid = {c["id"]: c for c in cases}
    remaining = list(cases)
    all_obs = {}
    lines = []
    restarts = 0
    while remaining:
        tp = ctx.path("c38-trace-%s-%d.ndjson" % (label, restarts))
        res, summ, out = ctx.harness("proxy/server", HARNESS, RUN, remaining, env={"VERIF_TRACE_OUT": tp}, timeout=2400,
                                     crash_ok=True)
        started = [r["started"] for r in res if "started" in r]
        done = {r["done"]: r for r in res if "done" in r}
        for cid, o in done.items():
            if o.get("harness"):
                raise vlib.Inconclusive("harness problem in case %s (%s): %s" % (cid, o.get("desc"), o["harness"]))
        all_obs.update(done)
        try:
            tl = [e for e in ctx.read_ndjson(tp) if not e.get("summary")]
        except Exception:
            tl = []
        lines += [e for e in tl if e["t"] in done]
        if summ is not None:
            break
        # the process died: the case started last and not finished is the offender
        crashed = next((cid for cid in reversed(started) if cid not in done), None)
        if crashed is None:
            raise vlib.Inconclusive("harness died before starting a case: %s" % out[-3000:])
        c = byid[crashed]
        i = out.rfind("panic: ")
        if i < 0:
            i = out.rfind("fatal error: ")
        tail = out[i:i + 1500] if i >= 0 else out[-1500:]
        ctx.deviation("C38 process crash: %s" % describe(c), "the proxy process died while handling this input; output tail:\n%s" % tail,
                      {"case": c})
        restarts += 1
        if restarts > 8:
            ctx.notes.append("more than 8 process crashes: %d cases left unexamined" % (len(remaining)))
            break
        idx = [i for i, x in enumerate(remaining) if x["id"] == crashed][0]
        remaining = remaining[idx + 1:]
    ctx.cov["process_restarts_after_crash"] = ctx.cov.get("process_restarts_after_crash", 0) + restarts
    if summ is not None and summ.get("aborted_with_cases_left"):
        ctx.notes.append("the proxy stopped serving every session: run ended with %d cases unexamined" % summ["aborted_with_cases_left"])
    verdicts = _proto.judge(ctx, lines, _proto.MALFORM_KEEP)
    ctx.cov["traces_validated_against_impl"] += len(all_obs)
    ctx.cov["evaluations"] += len(all_obs)
    per = {}
    for e, v in zip(lines, verdicts):
        per.setdefault(e["t"], {})[e["ev"]] = v
    ndev = 0
    for cid, o in all_obs.items():
        c = byid[cid]
        vs = per[cid]
        if vs["case"]["info"]["class"] != c["class"]:
            raise vlib.Inconclusive("class of case %s differs between generation (%s) and judgement (%s)"
                                    % (cid, c["class"], vs["case"]["info"]["class"]))
        for prob, detail in problems(o, (vs["offender"], vs["healthy"], vs["accept"])):
            ndev += 1
            ctx.deviation("C38 %s: %s" % (prob, describe(c)), "%s; observed: offender=%s healthy=%s accept=%s; %s"
                          % (describe(c), o["offender"], o["healthy"], o["accept"], detail), {"case": c})
    return all_obs, ndev


def describe(c):
    d = []
    for o in c["ops"]:
        if o["op"] == "trunc":
            if o["at"] == 0:
                d.append("zero-length")
                continue
            off = 0
            name = None
            for i, l in enumerate(c["lens"]):
                if o["at"] < off + l:
                    name = ("trunc:before " if o["at"] == off else "trunc:inside ") + c["names"][i]
                    break
                off += l
            d.append(name or "padded")
        elif o["op"] == "oversize":
            d.append("oversize:%s:%s" % (c["names"][o["field"] - 1], o["variant"]))
        else:
            d.append("%s:%s" % (o["op"], o["variant"]))
    return "%s: %s" % (c["kind"], " + ".join(d))


def run(ctx):
    import vlib
    thorough = ctx.thorough
    rng = random.Random(ctx.seed)
    ctx.assumptions += [
        "one well-formed seed packet per kind; malformed packets are within two operators of a seed",
        "the proxy process is the test binary: a dead binary = a crashed proxy",
        "an offending session that neither answers nor closes within 30 s (after the client half-closed where framing is "
        "broken) hangs",
    ]
    if ctx.replay:
        rec = ctx.read_ndjson(ctx.replay)[0]
        c = rec["case"]["case"]
        execute(ctx, [c], "replay")
        return

    # 1. TLC: enumerate singles and pairs, check the session machine and the grammar
    text = _proto.cfg("MalformSpec", _proto.constants(kinds=_proto.ALL_KINDS, maxops=3 if thorough else 2),
                      invariants=["MTypeOK", "Survives", "OffenderHandled", "EmitMalform"])
    r = ctx.tlc("Protocol_gen", "m_gen.cfg", extra_files={"m_gen.cfg": text}, workers=1, coverage=True, timeout=1500,
                label="enumerate malformed packets (1..%d operators), session machine invariants" % (3 if thorough else 2))
    zero = [a for a in r.zero_actions if a in ("AddOp", "Send", "React")]
    if zero:
        ctx.notes.append("vacuous actions: %s" % zero)
    allc = sorted(r.cases, key=lambda c: json.dumps([c["kind"], c["ops"]], sort_keys=True))
    for i, c in enumerate(allc):
        c["id"] = "m%05d" % i
    singles = [c for c in allc if len(c["ops"]) == 1]
    pairs = [c for c in allc if len(c["ops"]) >= 2]
    ctx.log("TLC enumerated", len(singles), "single malformations and", len(pairs), "combinations of 2..3;", r.stats())
    if not thorough:
        pairs = rng.sample(pairs, min(350, len(pairs)))
    cases = singles + pairs
    known = {c["id"] for c in cases}
    for k in vlib.known_replay_cases(ctx.pid):
        kc = k["case"]
        m = [c for c in allc if c["kind"] == kc["kind"] and c["ops"] == kc["ops"]]
        if m and m[0]["id"] not in known:
            cases.append(m[0])
            known.add(m[0]["id"])
    byclass = {}
    for c in cases:
        byclass[c["class"]] = byclass.get(c["class"], 0) + 1
    ctx.cov["cases_by_class"] = byclass
    ctx.cov["singles"] = len(singles)
    ctx.cov["pairs_enumerated"] = len([c for c in allc if len(c["ops"]) == 2])
    ctx.cov["triples_enumerated"] = len([c for c in allc if len(c["ops"]) == 3])
    ctx.cov["combinations_executed"] = len(pairs)
    for c in (singles[0], singles[len(singles) // 2], pairs[0]):
        ctx.sample({"case": describe(c), "class": c["class"], "ops": c["ops"]})

    # 2. G + V against the real server
    obs, ndev = execute(ctx, cases, "main")
    seen = {}
    for o in obs.values():
        seen[o["offender"]] = seen.get(o["offender"], 0) + 1
    ctx.cov["offender_observations"] = seen
    ctx.cov["distinct_nontrivial"] = len([c for c in cases if c["class"] != "any"])
    ctx.cov["rule"] = ("case = packet kind + 1..3 malformation operators enumerated by TLC from the field-list grammar; "
                       "non-trivial = the grammar classifies the packet as not parseable (class reject / reject_or_ignore)")
    ctx.log("executed", len(obs), "cases:", seen, "; non-conforming:", ndev)

    # 3. binding self-test: corrupted observations must be rejected by TLC
    rej = next((c for c in singles if c["class"] == "reject"), None)
    t = [{"t": "x", "ev": "case", "kind": rej["kind"], "ops": rej["ops"]}, {"t": "x", "ev": "offender", "saw": "answered"},
         {"t": "x", "ev": "healthy", "ok": False}, {"t": "x", "ev": "accept", "ok": False}]
    v = _proto.judge(ctx, t, _proto.MALFORM_KEEP, label="self-test: corrupted observations")
    caught = [not v[1]["ok"], not v[2]["ok"], not v[3]["ok"]]
    ctx.cov["binding_selftest"] = {"accepted_malformed_input_rejected": caught[0], "disturbed_healthy_session_rejected": caught[1],
                                   "dead_listener_rejected": caught[2]}
    if not all(caught):
        raise vlib.Inconclusive("binding self-test failed: %s" % caught)
