"""C26 - a replica is fused exactly when recent connection errors reach the threshold
(backend/slide.go SlidingWindow.Trigger / slide, backend/slice.go Slice.TryFuse, mysql.AsConnError).

Specification: spec/Fuse.tla (reference Count over the error history, the bucket ring as the code implements it,
TryFuse with every error kind), spec/Fuse_gen.tla.  Binding: G (TLC-generated timestamp histories and node
behaviours with the reference results, replayed on the real SlidingWindow and on Slice.TryFuse /
getConnWithFuse under the virtual clock).
"""
import _health as H
import vlib

MANIFEST = {
    "engine": "tla-fuse",
    "level_claimed": {
        "category": "model_checking",
        "text": "TLC exhaustively checks that the bucket ring of SlidingWindow (buckets indexed by now mod W, startSec, running "
                "total, slide) equals the reference count of errors in (now-W, now] after every error, for all non-decreasing "
                "timestamp sequences of bounded length with gaps 0..2W+1 and every start phase, and that TryFuse marks the node "
                "down exactly when that count reaches the threshold, for every error kind, both recovery policies, no strategies "
                "installed and disabled windows.  The same sequences (all of a bounded length, plus seeded longer ones) are "
                "replayed on the real SlidingWindow.Trigger for every threshold and at several clock offsets, and TLC-generated "
                "node behaviours are replayed on the real Slice.TryFuse / getConnWithFuse under the injected clock, comparing "
                "Trigger results and node status with the reference after every event.",
        "design_ref": "DESIGN.md section 5 C26, section 4.1 Fuse",
    },
    "level_note": "Time is virtual (clock hook, build tag verif).  The exhaustive ring==reference check uses a VIEW that drops "
                  "timestamps older than the window and translates time by multiples of W (both are bisimulations; a run "
                  "without the view at smaller bounds cross-checks it).  Error kinds are those the pools can return "
                  "(ConnTypeError values count; SQL errors, plain errors, context errors and nil do not); wrapped connection "
                  "errors are not examined.  Concurrent Trigger calls are not explored (the window is mutex-protected).",
    "technique": "TLA+ spec + TLC exhaustive check (ring == reference count); TLC-generated histories replayed on the real "
                 "SlidingWindow.Trigger and Slice.TryFuse with a virtual clock",
}


def window_nontrivial(c):
    """some error is outside the window of a later one, and some threshold >= 2 fires"""
    ts, w = c["ts"], c["w"]
    expired = any(ts[j] - w >= ts[i] for i in range(len(ts)) for j in range(i + 1, len(ts)))
    fired = any(any(row) for row in c["trig"][1:])
    return expired and fired


def run(ctx):
    thorough = ctx.thorough
    rng = H.rng_of(ctx)
    seed = lambda: rng.randrange(1, 2 ** 31)
    ctx.assumptions += [
        "timestamps are whole seconds and non-decreasing (time.Now().Unix() under the injected clock)",
        "the reference is translation invariant; every history is replayed at offsets 0, a multiple of W and a realistic epoch",
    ]
    if ctx.replay:
        rec = ctx.read_ndjson(ctx.replay)[0]
        c = rec["case"]
        if c.get("kind") == "window":
            H.replay(ctx, [c["case"]], [], "replay")
        else:
            H.replay(ctx, [], [c["case"]], "replay")
        return

    jobs = []
    # 1. exhaustive: ring == reference count (and TryFuse fires exactly at the threshold) for all histories
    for w in (range(1, 9) if thorough else range(1, 5)):
        jobs.append(dict(module="Fuse_gen", cfg_text=H.WIN_MC % H.win_params(w, 6), workers=4 if thorough else 2,
                         label="mc window ring==reference W=%d len<=6 gaps 0..%d (view-reduced)" % (w, 2 * w + 1)))
    for w, ln in ([(1, 5), (2, 5), (3, 5), (4, 4)] if thorough else [(2, 4), (3, 3)]):
        jobs.append(dict(module="Fuse_gen", cfg_text=H.WIN_MC % H.win_params(w, ln, view=""),
                         label="mc window ring==reference W=%d len<=%d (no view)" % (w, ln)))
    node_mcs = [H.node_params("hard", maxtime=109), H.node_params("gradual", maxtime=107), H.node_params("off", maxtime=106),
                H.node_params("hard", w=0, maxtime=106)]
    if thorough:
        node_mcs = [H.node_params("hard", w=3, maxtime=114), H.node_params("gradual", w=3, maxtime=112), H.node_params("off"),
                    H.node_params("hard", w=0), H.node_params("gradual", mn=0), H.node_params("hard", w=1, mn=1),
                    H.node_params("gradual", w=2, mn=3, maxtime=110)]
    for p in node_mcs:
        jobs.append(dict(module="Fuse", cfg_text=H.NODE_MC % p, coverage=True,
                         label="mc TryFuse/recovery policy=%(policy)s W=%(w)d Min=%(min)d" % p))
    n_mc = len(jobs)
    # 2. generation: all histories of a bounded length + seeded longer ones; node behaviours with every error kind
    bfs = [(1, 4), (2, 4), (3, 3)] if not thorough else [(1, 6), (2, 5), (3, 5), (4, 4)]
    for w, ln in bfs:
        jobs.append(dict(module="Fuse_gen", cfg_text=H.WIN_GEN % H.win_params(w, ln, maxmin=8 if thorough else max(4, w)), workers=1,
                         emit=True, label="gen all histories W=%d len=%d" % (w, ln)))
    sims = [(5, 8, 200), (8, 10, 200)] if not thorough else [(4, 10, 1500), (5, 10, 1000), (6, 12, 1000), (7, 12, 1000), (8, 12, 1500)]
    for w, ln, num in sims:
        jobs.append(dict(module="Fuse_gen", cfg_text=H.WIN_GEN % H.win_params(w, ln, maxmin=8), sim=num, depth=2 * ln + 2, seed=seed(),
                         label="gen sampled histories W=%d len=%d" % (w, ln)))
    n_win = len(jobs)
    plans = [dict(p=H.node_params("hard", w=3, len=14, okweight=2), num=60), dict(p=H.node_params("gradual", w=2, len=14, okweight=2), num=60),
             dict(p=H.node_params("off", len=10, okweight=1), num=15), dict(p=H.node_params("hard", w=0, len=10, okweight=1), num=15),
             dict(p=H.node_params("gradual", mn=0, len=10, okweight=1), num=15)]
    if thorough:
        for pl in plans:
            pl["num"] *= 10
        plans += [dict(p=H.node_params("gradual", w=8, mn=5, len=30, okweight=2, maxtick=17), num=300),
                  dict(p=H.node_params("hard", w=5, mn=8, cool=3, len=40, okweight=1), num=300),
                  dict(p=H.node_params("hard", w=1, mn=1, len=12), num=200)]
    for pl in plans:
        p = dict(pl["p"], maxtime=10 ** 6)
        jobs.append(dict(module="Fuse_gen", cfg_text=H.NODE_GEN % p, sim=pl["num"], depth=p["len"] + 1, seed=seed(),
                         label="gen node behaviours policy=%(policy)s W=%(w)d Min=%(min)d" % p))
    res = H.run_jobs(ctx, jobs, parallel=4 if thorough else 6)

    wcases, ncases = [], []
    for r in res[n_mc:n_win]:
        wcases += r.cases
    for r in res[n_win:]:
        ncases += r.cases
    nontriv = set(H.dumps([c["w"], c["ts"]]) for c in wcases if window_nontrivial(c))
    err_classes = set()
    for c in ncases:
        for e in c["events"]:
            if e["ev"] == "err":
                err_classes.add((c["policy"], c["w"] > 0 and c["min"] > 0, e["kind"], e["why"], e["i"]))
    mid = wcases[len(wcases) // 2]
    ctx.sample({"w": mid["w"], "ts": mid["ts"], "counts": mid["counts"]})
    ctx.sample({"policy": ncases[0]["policy"], "w": ncases[0]["w"], "min": ncases[0]["min"], "events": ncases[0]["events"][:8]})

    # 3. G: replay on the real SlidingWindow.Trigger and Slice.TryFuse; corrupted references must be noticed
    H.replay(ctx, wcases, ncases, "window histories + TryFuse behaviours",
             selftests=[H.corrupt_window(mid), H.corrupt_node(ncases[0])])
    ctx.cov["distinct_nontrivial"] = len(nontriv)
    ctx.cov["rule"] = ("distinct timestamp histories (W, ts) in which at least one error has left the window of a later one and a "
                       "threshold >= 2 is reached; additionally %d distinct (policy, enabled, error kind, rule, status) classes of "
                       "TryFuse events were replayed" % len(err_classes))
    ctx.cov["tryfuse_event_classes"] = len(err_classes)
