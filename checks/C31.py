"""C31 - online reload never loses or resurrects a namespace configuration (proxy/server Manager).

Specification: spec/Reload.tla (P-level map semantics + I-level double buffer), ReloadP.tla (the P-level step
relation), Reload_gen.tla, Reload_trace.tla (sequential traces), Reload_lin.tla (concurrent administrators).
Binding: G = every TLC behaviour replayed on a real Manager with GetNamespace / authentication compared after
every step; V = the recorded executions judged by TLC (sequential: step relation; concurrent goroutines:
linearizability against the reference, then against the double-buffer algorithm with and without mutual exclusion).
"""
import copy
import json
import random
import re

import _reload as R

MANIFEST = {
    "engine": "tla-reload",
    "level_claimed": {
        "category": "model_checking",
        "text": "TLC checks exhaustively (unbounded length, 2-3 namespaces, 2 versions) whether the double-buffer algorithm of "
                "Manager (switchIndex, two namespace maps, two user directories, reloadPrepared) refines the reference map "
                "namespace -> (active, last prepared) for all sequences of whole prepare/commit/delete operations; its "
                "counterexample is a candidate that is confirmed on the real code.  Every behaviour TLC enumerates up to a "
                "length bound (plus seeded longer random ones) is replayed on a real Manager; after every step GetNamespace "
                "of all names and the authentication of every credential are compared with the reference state TLC printed. "
                "Recorded executions, sequential and with concurrent goroutines, are validated by TLC.",
        "design_ref": "DESIGN.md section 5 C31, section 4.2, Appendix A.3",
    },
    "level_note": "Namespaces are minimal models.Namespace configurations (one slice without backend addresses, so nothing is "
                  "dialled; the configuration version travels in max_sql_execute_time); the admin HTTP layer and the "
                  "configuration store are not involved (Manager API directly); concurrent runs use whatever interleavings "
                  "the Go scheduler produces (recorded, not imposed); the model of the steps inside an operation assumes "
                  "sequentially consistent memory.",
    "technique": "TLA+ spec + TLC refinement check; TLC-generated behaviours replayed on the real Manager; recorded sequential "
                 "and concurrent executions validated by TLC",
}

INVS = ["TypeOK", "OneGeneration", "Refines", "OutcomeAllowed", "UsersRefine"]
PROPS = ["C31Step", "StaysDeleted", "OnlyOwnTriples"]

SIG_A = "C31 concurrent administrators -> history violates the reference; one order of whole double-buffer operations explains it"
SIG_S = ("C31 concurrent administrators -> history violates the reference; only operations interleaving inside the Manager "
         "explain it (no mutual exclusion)")
SIG_U = "C31 concurrent administrators -> history violates the reference and no interleaving of the modelled algorithm explains it"


def parse_candidate(trace_text):
    """TLC error trace -> (init map, [(op, n, v, out)]).  TLC wraps long records over several lines."""
    init = None
    m = re.search(r"pactive = \[(.*?)\]", trace_text, re.S)
    if m:
        init = {x.group(1): int(x.group(2)) for x in re.finditer(r'(\w+) \|-> (\d+)', m.group(1))}
    ops = []
    for m in re.finditer(r"last =\s*\[(.*?)\]", trace_text, re.S):
        f = dict((x.group(1), x.group(2).strip('"')) for x in re.finditer(r'(\w+) \|-> ("[^"]*"|\w+)', m.group(1)))
        if f.get("op") and f["op"] != "init":
            ops.append((f["op"], f["n"], int(f["v"]), f["out"]))
    return init, ops


def nontrivial(case):
    """a commit is attempted while another namespace or a delete intervened since the last commit attempt"""
    seen = set()
    dele = False
    for s in case["steps"]:
        if s[0] == "commit":
            if len(seen | {s[1]}) > 1 or dele:
                return True
            seen, dele = set(), False
        else:
            seen.add(s[1])
            dele = dele or s[0] == "delete"
    return False


def step_of(what):
    m = re.search(r"step (\d+)", what or "")
    return int(m.group(1)) if m else None


SYNTH = 1000000   # ids of the synthetic self-test traces / histories


def judge_histories(ctx, names, nv, hs, cov, synthetic=()):
    """P -> A -> S cascade over recorded concurrent histories; reports deviations.  `synthetic` histories (binding
    self-test) ride along in the same TLC runs and are returned separately, never reported."""
    allh = list(hs) + list(synthetic)
    acc_p = R.linearize(ctx, names, nv, allh, "P", "concurrent histories vs reference (%d namespaces)" % len(names))
    rej = [h for h in allh if h[0]["t"] not in acc_p]
    acc_a = R.linearize(ctx, names, nv, rej, "A", "rejected histories vs atomic double-buffer operations")
    rej2 = [h for h in rej if h[0]["t"] not in acc_a]
    acc_s = R.linearize(ctx, names, nv, rej2, "S", "rejected histories vs interleaved steps")
    real = lambda ids: set(t for t in ids if t < SYNTH)
    cov["concurrent_histories"] = cov.get("concurrent_histories", 0) + len(hs)
    cov["histories_linearizable_to_reference"] = cov.get("histories_linearizable_to_reference", 0) + len(real(acc_p))
    cov["histories_explained_by_atomic_operations"] = cov.get("histories_explained_by_atomic_operations", 0) + len(real(acc_a))
    cov["histories_explained_only_by_interleaved_steps"] = cov.get("histories_explained_only_by_interleaved_steps", 0) + len(real(acc_s))
    for h in rej:
        t = h[0]["t"]
        if t >= SYNTH:
            continue
        sig = SIG_A if t in acc_a else (SIG_S if t in acc_s else SIG_U)
        brief = "; ".join("%s%d:%s(%s%s)%s" % (e["ev"][0], e["a"], e["op"], e["n"], ",%d" % e["v"] if e["v"] else "",
                                               "=" + e["out"] if e["out"] else "") for e in h if e["ev"] != "final")
        ctx.deviation(sig, "init %s: %s; final %s" % (h[0]["init"], brief, h[-1]["obs"]),
                      {"kind": "history", "names": names, "nv": nv, "events": h})
    return acc_p, acc_a, acc_s


def _run(ctx):
    import vlib
    thorough = ctx.thorough
    rng = random.Random(ctx.seed)
    nv = 2
    # namespace names are opaque, case-sensitive keys: two differ only in letter case, one is a prefix of another
    names2, names3 = ["n1", "N1"], ["n1", "N1", "n10"]
    table = R.formula_creds(names3 + ["n2", "n3"], nv)     # n2, n3: names used by the stored finding cases
    cov = ctx.cov
    ctx.assumptions += [
        "operations are whole calls of Manager.ReloadNamespacePrepare / ReloadNamespaceCommit / DeleteNamespace; a panic inside "
        "a call is a failed call whose side effects are still compared",
        "a commit may fail at any time (the property speaks of successful commits); a failed call (also a prepare whose "
        "configuration the proxy rejects) must change nothing visible and does not count as 'last prepared'",
        "namespaces carry no backend addresses; the delayed Close of replaced namespaces is cut short after it cancelled the "
        "namespace context",
    ]

    if ctx.replay:
        rec = ctx.read_ndjson(ctx.replay)[0]["case"]
        if rec.get("kind") == "history":
            judge_histories(ctx, rec["names"], rec["nv"], [rec["events"]], cov)
        else:
            res, summ = R.replay(ctx, "C31", [rec["case"]], rec.get("creds") or table, handshake_every=1)
            R.report(ctx, res, summ, rec.get("creds") or table, rec["names"], rec["nv"], {})
        return

    # ------------------------------------------------------------------ 1. model checking
    inits2, inits3 = [[0, 0], [1, 0]], [[0, 0, 0], [1, 1, 0]]
    mc_names, mc_inits = (names3, inits3) if thorough else (names2, inits2)
    r = R.mc(ctx, mc_names, nv, table, mc_inits, False, False, INVS, PROPS,
             "double buffer as in manager.go vs reference, all operation sequences", allow_violation=True, with_bad=True)
    candidate = None
    if r.violated:
        init, ops = parse_candidate(r.trace_text)
        candidate = {"violated": r.violated, "init": init, "ops": ops}
        ctx.log("I-level counterexample (candidate):", r.violated, init, ops)
    else:
        ctx.notes.append("the I-level double buffer refines the reference in TLC: no candidate")
    r2 = R.mc(ctx, mc_names, nv, table, mc_inits, True, False, INVS, PROPS,
              "well-formed reloads only (every prepare followed by its commit): the double buffer must refine the reference",
              with_bad=True)
    cov["model_checking"] = {"as_in_code": {"violated": r.violated, "distinct": r.distinct},
                             "paired_reloads_only": {"violated": None, "distinct": r2.distinct}}
    checked = [r2]
    if thorough:
        r3 = R.mc(ctx, mc_names, nv, table, mc_inits, False, True, INVS, PROPS,
                  "proposed repair C31-1 (commit only for the pending namespace, delete cancels the pending prepare) vs reference",
                  with_bad=True)
        cov["model_checking"]["proposed_fix"] = {"violated": None, "distinct": r3.distinct}
        checked.append(r3)
    for rr in checked:
        if rr.zero_actions:
            ctx.notes.append("vacuous actions: %s" % rr.zero_actions)

    # ------------------------------------------------------------------ 2. G: behaviours replayed on the real Manager
    plans = [dict(names=names2, inits=[[1, 0]], len=4)]    # behaviours that first delete n1 cover the empty start
    sims = []
    if thorough:
        plans = [dict(names=names2, inits=[[1, 0]], len=5), dict(names=names3, inits=inits3, len=4)]
        sims = [dict(names=names3, inits=inits3, len=8, num=1500)]
    nontriv = 0
    total_cases = 0
    trace_lines = []
    known = [k for k in vlib.load_known("C31") if isinstance(k.get("case"), dict) and k["case"].get("kind") == "behaviour"]
    selftest = {}
    bad = {"sc": 1, "ns": names2, "init": [0, 0], "steps": [
        ["prepare", "n1", 1, "ok", True, 0, [0, 0], [0, 0], []],
        ["commit", "n1", 0, "ok", True, 2, [2, 0], [2, 0], []]]}          # TLC says version 1 becomes active
    first = True
    for p in plans + sims:
        sim = "num" in p
        label = ("simulate length %d" if sim else "all behaviours of length %d") % p["len"] + ", %d namespaces" % len(p["names"])
        kw = dict(mode="sim", sim="num=%d" % p["num"], depth=p["len"] + 1, seed=rng.randrange(1, 2 ** 31)) if sim else {}
        path, n, _ = R.generate(ctx, p["names"], nv, table, p["inits"], False, p["len"], False, label, with_bad=True, **kw)
        cand_at = None
        with open(path) as f:
            for line in f:
                c = json.loads(line)
                if nontrivial(c):
                    nontriv += 1
                if first and candidate and cand_at is None and candidate["ops"]:
                    k = len(candidate["ops"])
                    want_init = [candidate["init"].get(x, 0) for x in c["ns"]]
                    if c["init"] == want_init and len(c["steps"]) >= k and \
                            all(tuple(c["steps"][j][:3]) == candidate["ops"][j][:3] for j in range(k)):
                        cand_at = dict(c, steps=c["steps"][:k])
        extra, roles = [], []
        if first:
            ctx.sample({"behaviour": json.loads(open(path).readline())})
            if cand_at is not None:
                extra.append(cand_at)
                roles.append(("candidate", None))
            for k in known:
                extra.append(k["case"]["case"])
                roles.append(("stored", k))
            extra.append(bad)
            roles.append(("selftest", None))
        with open(path, "a") as f:
            for c in extra:
                f.write(json.dumps(c, separators=(",", ":")) + "\n")
        tp = ctx.path("seqtrace-%d.ndjson" % len(cov["go_runs"]))
        every = max(1, n // (2500 if thorough else 800))
        cp = ctx.write_ndjson("creds.json", [table])
        res, summ, _ = ctx.harness(R.PKG, R.HARNESS, R.RUN_REPLAY, path, env={
            "VERIF_RELOAD_CREDS": cp, "VERIF_RELOAD_PROP": "C31", "VERIF_RELOAD_HANDSHAKE_EVERY": 25,
            "VERIF_TRACE_OUT": tp, "VERIF_RELOAD_TRACE_EVERY": every, "VERIF_RELOAD_KEEP_FROM": n})
        if summ["cases"] != n + len(extra):
            raise vlib.Inconclusive("harness replayed %d of %d behaviours" % (summ["cases"], n + len(extra)))
        ctx.log(label, "->", n, "behaviours,", summ["deviating_cases"], "deviate,", summ["drift"], "drift")
        total_cases += n
        cov["traces_validated_against_impl"] += n
        cov["evaluations"] += summ["steps"]
        for k in ("probes", "handshake_probes", "panics_without_visible_effect", "unexamined_after_drift"):
            cov[k] = cov.get(k, 0) + summ.get(k, 0)
        if summ["drift"]:
            ctx.notes.append("MODEL-DRIFT: the code left the I-level prediction %d times, e.g. %s" % (summ["drift"], summ["drift_example"]))
            cov["model_drift"] = cov.get("model_drift", 0) + summ["drift"]
        if summ.get("unexamined_after_drift"):
            ctx.notes.append("%d steps were not examined because a prepare had another outcome than modelled" % summ["unexamined_after_drift"])
        kept = sorted([x for x in res if "kept" in (x.get("tags") or [])], key=lambda x: x["case"])
        plain = [x for x in res if "kept" not in (x.get("tags") or [])]
        if len(kept) != len(extra):
            raise vlib.Inconclusive("harness reported %d of %d appended behaviours" % (len(kept), len(extra)))
        counts = dict(summ["sig_count"])
        reportable = list(plain)
        still = 0
        for x, (role, k) in zip(kept, roles):
            if role == "selftest":
                selftest["corrupted_expectation_detected"] = bool(x.get("devs"))
                for d in x.get("devs", []):
                    counts[d["sig"]] -= 1
                continue
            if role == "stored":
                still += 1 if x.get("devs") else 0
            if role == "candidate":
                confirmed = bool(x.get("devs"))
                cov["ilevel_counterexample"] = {"invariant": candidate["violated"], "init": candidate["init"],
                                                "operations": ["%s(%s%s)" % (o[0], o[1], ",%d" % o[2] if o[2] else "") for o in candidate["ops"]],
                                                "confirmed_on_real_code": confirmed}
                if not confirmed:
                    ctx.notes.append("MODEL-DRIFT: TLC's I-level counterexample %s was replayed and the real code does NOT show it "
                                     "(the I-level of spec/Reload.tla no longer describes manager.go)" % (candidate["ops"],))
            reportable.append(x)
        # minimal stored case: cut the behaviour after the deviating step
        for x in reportable:
            st = min([s for s in (step_of(d["what"]) for d in x.get("devs", [])) if s is not None] or [None], default=None)
            if st is not None and isinstance(x.get("obs"), dict):
                x["obs"] = dict(x["obs"], steps=x["obs"]["steps"][:st + 1])
        R.report(ctx, reportable, {"sig_count": {k: v for k, v in counts.items() if v > 0}}, table, p["names"], nv, {})
        if first and known:
            cov["stored_finding_cases"] = {"replayed": len(known), "still_deviating": still}
            if still < len(known):
                ctx.notes.append("%d of %d stored finding cases no longer deviate (fixed?)" % (len(known) - still, len(known)))
        lines = [e for e in ctx.read_ndjson(tp) if not e.get("summary") and e["ns"] == p["names"] and e["t"] < n]
        if not sim or len(trace_lines) < 40000:
            trace_lines.append((p["names"], lines))
        first = False
    cov["distinct_nontrivial"] = nontriv
    cov["rule"] = ("behaviours = sequences of prepare(n,v) / prepare(n, rejected configuration) / commit(n) / delete(n) enumerated by TLC "
                   "(all of a bounded length from an empty and from a loaded proxy, plus seeded simulation in the thorough tier); "
                   "non-trivial = a commit is attempted after an operation on a different namespace or a delete since the previous "
                   "commit attempt")
    cov["behaviours_replayed"] = total_cases

    # ------------------------------------------------------------------ 3. V: the recorded sequential executions judged by TLC
    # (two synthetic traces ride along in the first run: binding self-test)
    def line(t, ns, ev, n, v, out, obs):
        return {"t": t, "ev": ev, "n": n, "v": v, "out": out, "obs": obs, "ns": ns, "init": [0] * len(ns), "sc": 1, "dev": False}
    nseq = 0
    for i, (nm, lines) in enumerate(trace_lines):
        z = [0] * (len(nm) - 1)
        synth = [] if i else [
            line(SYNTH, nm, "prepare", "n1", 1, "ok", [0] + z), line(SYNTH, nm, "commit", "n1", 0, "ok", [1] + z),          # correct
            line(SYNTH + 1, nm, "prepare", "n1", 1, "ok", [0] + z), line(SYNTH + 1, nm, "commit", "n1", 0, "ok", [0] + z)]  # nothing activated
        rej, ntr = R.validate_sequential(ctx, nm, nv, lines + synth)
        if not i:
            selftest["corrupted_sequential_trace_rejected"] = set(x for x in rej if x[0] >= SYNTH) == {(SYNTH + 1, 1)}
        rej = set(x for x in rej if x[0] < SYNTH)
        nseq += ntr - (2 if not i else 0)
        flagged = set()
        k = {}
        for e in lines:
            j = k.get(e["t"], 0)
            k[e["t"]] = j + 1
            if e.get("dev"):
                flagged.add((e["t"], j))
        if rej != flagged:
            d = sorted(rej ^ flagged)[:5]
            raise vlib.Inconclusive("G and V disagree on recorded steps (trace, step): %s - harness or trace specification is wrong" % d)
    cov["impl_traces_validated_by_tlc"] = nseq

    # ------------------------------------------------------------------ 4. V: concurrent administrators
    ntrials = 1200 if thorough else 120
    trials = R.concurrent_trials(rng, names3, nv, ntrials, 6)      # half of them touch two namespaces only
    hs, summ = R.run_concurrent(ctx, names3, nv, table, trials)
    cov["concurrent_operations"] = summ["operations"]

    def hist(t, final):
        def ev(kind, op, n, v, out):
            return {"t": t, "ev": kind, "a": 1, "op": op, "n": n, "v": v, "out": out, "obs": [], "ns": names3, "init": [0, 0, 0], "nx": 0}
        return [ev("start", "prepare", "n1", 1, ""), ev("end", "prepare", "n1", 1, "ok"), ev("start", "commit", "n1", 0, ""),
                ev("end", "commit", "n1", 0, "ok"),
                {"t": t, "ev": "final", "a": 0, "op": "", "n": "", "v": 0, "out": "", "obs": final, "ns": names3, "init": [0, 0, 0], "nx": 0}]
    synth = [hist(SYNTH, [1, 0, 0]), hist(SYNTH + 1, [0, 0, 0])]     # the second one lost the committed configuration
    acc_p, acc_a, acc_s = judge_histories(ctx, names3, nv, hs, cov, synthetic=synth)
    cov["traces_validated_against_impl"] += len(hs)
    selftest["correct_history_accepted_by_reference"] = SYNTH in acc_p
    selftest["corrupted_history_rejected_by_reference"] = SYNTH + 1 not in acc_p
    selftest["corrupted_history_rejected_by_step_model"] = SYNTH + 1 not in acc_a and SYNTH + 1 not in acc_s
    if hs:
        ctx.sample({"concurrent_history": [[e["ev"], e["a"], e["op"], e["n"], e["v"], e["out"]] for e in hs[0][:-1]],
                    "final": hs[0][-1]["obs"]})

    # ------------------------------------------------------------------ 5. binding self-test verdict
    cov["binding_selftest"] = selftest
    want = ["corrupted_expectation_detected", "corrupted_sequential_trace_rejected", "correct_history_accepted_by_reference",
            "corrupted_history_rejected_by_reference", "corrupted_history_rejected_by_step_model"]
    if not all(selftest.get(k) for k in want):
        raise vlib.Inconclusive("binding self-test failed: %s" % selftest)


def run(ctx):
    """A violation already observed on the real code stands even when a later stage cannot be completed (e.g. the driver of
    the next stage dies on the same defect): the later failure is recorded as a note instead of turning the verdict into
    INCONCLUSIVE."""
    import vlib
    try:
        _run(ctx)
    except vlib.Inconclusive as e:
        if not ctx.violations:
            raise
        ctx.notes.append("a later stage was inconclusive after violations had been observed: %s" % str(e)[:600])
