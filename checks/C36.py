"""C36 - the SQL blacklist ignores literals, spacing, case and comments (and nothing else).

Specification: spec/StmtPolicy.tla part 3 (Skeleton, Rejected), spec/StmtPolicy_blacklist_gen.tla.
Binding: G.  TLC builds, from 12 base statements given as abstract token sequences, every variant (keyword casing x
gap style x literal values x one comment of 6 styles at every token gap) and structural mutants (other table, column,
operator, extra predicate, dropped WHERE), checks that variants keep and mutants change the skeleton, and prints each
text (as its sequence of lexical items) with Rejected(text, Blacklist).  The Go harness configures a real Namespace
with the blacklist TLC printed (parseBlackSqls), concatenates the items and asks SessionExecutor.checkSQLAllowed and
ExecuteCommand.
"""
import _policy as P

MANIFEST = {
    "engine": "tla-stmtpolicy",
    "level_claimed": {
        "category": "model_checking",
        "text": "TLC enumerates, for 12 base statements (SELECT with =, AND, >, ORDER BY/LIMIT, LIKE, IN list, BETWEEN, JOIN; "
                "INSERT..VALUES; UPDATE; DELETE; 10 of them blacklisted), every variant in 3 keyword casings x 7 gap styles "
                "(one/two spaces, tab, LF, CR LF, CR, no space next to operators and punctuation) x 5 literal choices x (no comment or "
                "one of 6 comment styles (one longer than 256 bytes) at every token gap, leading and trailing), and 5 structural mutants in 8 spellings "
                "(quick: every variant with at most two non-default dimensions plus a seeded sample); on every text TLC checks "
                "that variants keep and mutants change Skeleton and that the emitted decision is skeleton membership in the "
                "blacklist; every text is given to the real checkSQLAllowed / ExecuteCommand of a Namespace configured with "
                "that blacklist and the answer is compared with the decision TLC printed.",
        "design_ref": "DESIGN.md section 5 C36, section 4.1 SqlLex/StmtPolicy",
    },
    "level_note": "The statement text is the concatenation of the lexical items TLC prints (no rendering logic in Go). MD5 of "
                  "the fingerprint is the implementation's own (not modelled). Identifier letter case, IN-list length and "
                  "ORDER BY ASC elision are not varied (the property does not decide them).",
    "technique": "TLA+ token/skeleton model + TLC enumeration of metamorphic variants and mutants; TLC-emitted texts with "
                 "expected decision replayed on the real blacklist check",
}


def run(ctx):
    import vlib
    ctx.assumptions += [
        "the blacklist is configured through models.Namespace.BlackSQL (parseBlackSqls) exactly as TLC prints it (canonical spelling)",
        "rejected = checkSQLAllowed returns the 'sql in blacklist' error and ExecuteCommand answers with it without taking a connection",
    ]
    if ctx.replay:
        rec = ctx.read_ndjson(ctx.replay)[0]
        P.bl_check(ctx, rec["case"]["blacklist"], [rec["case"]["case"]], selftest=False)
        return
    r, bl, cases = P.bl_generate(ctx, "thorough", 0) if ctx.thorough else P.bl_generate(ctx, "quick", 100)
    seen = set(P.bl_key(c) for c in cases)
    for k in vlib.known_replay_cases("C36"):
        c = k["case"]
        if P.bl_key(c) not in seen and k["blacklist"] == bl:
            seen.add(P.bl_key(c))
            cases.append(c)
    variants = [c for c in cases if c["mutant"] == "none"]
    mutants = [c for c in cases if c["mutant"] != "none"]
    ctx.log("TLC emitted", len(variants), "variants and", len(mutants), "mutants;", sum(1 for c in cases if c["rejected"]), "must be rejected")
    devs, summ = P.bl_check(ctx, bl, cases)
    ctx.cov["distinct_nontrivial"] = len(set(P.bl_key(c) for c in cases if P.bl_key(c) != P.bl_key(c, keep=())))
    ctx.cov["rule"] = "distinct (base, mutant, casing, gap style, literal choice, comment style, comment position) other than the canonical spelling of a base statement"
    ctx.cov["variants"] = len(variants)
    ctx.cov["mutants"] = len(mutants)
    for c in (variants[len(variants) // 3], variants[-1], mutants[0], mutants[-1]):
        ctx.sample({"text": "".join(c["items"]), "rejected": c["rejected"], "mutant": c["mutant"]})
    oc = ctx.cov.get("outcomes", {})
    if not oc.get("must-reject/rejected") or not oc.get("must-allow/allowed"):
        raise vlib.Inconclusive("vacuous run: nothing was rejected or nothing was allowed")
