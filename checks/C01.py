"""C01 - sharded reads are routed to every table that can hold a matching row.

Specification: spec/Routing.tla (Place, Holds, Eval, MustRoute; I-level Prune), Routing_gen.tla, RoutingRules.tla.
Binding: G.  TLC enumerates rule instances x condition trees with MustRoute; each case is rendered to SQL
(SELECT / UPDATE / DELETE WHERE, linked table, JOIN ON, join with a global table) and planned by the real plan.BuildPlan over a real
router.NewRouter; a returned plan whose table set misses a MustRoute table is a violation.
"""
import json
import random

import _routing as rt

MANIFEST = {
    "engine": "tla-routing",
    "level_claimed": {
        "category": "model_checking",
        "text": "TLC enumerates, for 6 (quick) / 12 (thorough) rule instances of the hash, mod, range, date_year, date_month and "
                "date_day rule types (1-4 slices, year-end crossing spans, a leap February, a leap day, an unconfigured year, a "
                "descending span), every condition leaf (6 comparison operators, [NOT] IN, [NOT] BETWEEN, plain and unevaluated "
                "literals, both columns) over a boundary-rich literal universe, every leaf under NOT, every AND/OR of two leaves of a "
                "reduced leaf set (thorough) and seeded samples of depth-2 and depth-3 trees; for each it computes MustRoute from "
                "row-level semantics and checks the pruning algebra (as written and as repaired) at the design level.  Every case is "
                "replayed on the real planner (plan.BuildPlan over router.NewRouter, several statement forms) and the routed table set "
                "read from the per-slice SQL map must contain MustRoute.",
        "design_ref": "DESIGN.md section 5 C01, section 4.2",
    },
    "level_note": "Rule types covered here: hash, mod, range, date_year, date_month, date_day (+ linked tables through them); the mycat "
                  "rule types are pruned by the same code path as hash (no range pruning) and their placement is C08's subject. Keys are "
                  "small non-negative integers / a calendar of three instants per day; string-typed hash keys, unix-timestamp keys of "
                  "calendar rules (time-zone dependent) and NULL literals are not enumerated. MustRoute is computed over a finite key "
                  "universe, i.e. it under-approximates the true must-set (no false alarm, possible misses between universe keys). "
                  "In the forms that join a global table the I-level pruning model is not compared (it has no global table). The literal spelling (quoted number, date with or without time, operand order, qualifiers, parentheses) is chosen "
                  "per case from the seed. LEFT/RIGHT JOIN, subqueries and UNION are not rendered.",
    "technique": "TLA+ spec + TLC exhaustive enumeration of rule x condition-tree cases with the specification's MustRoute; cases "
                 "replayed on the real planner; design-level check of the pruning algebra",
}

GEN_INV = ("TypeOK", "Emit", "RoutedWithinTables", "PointQueryIsPlace", "UniverseCoversTables", "RepairedPruneSound")


def decorate(lines, rng, thorough):
    """attach the seed-derived spelling number and the statement forms to every cond case"""
    k = 0
    for c in lines:
        if c.get("kind") != "cond":
            continue
        c["sp"] = rng.randrange(1, 1 << 53)
        if "forms" in c:
            continue
        others = rt.FORMS[1:]
        if c["shape"] in ("L", "N(L)"):
            c["forms"] = list(rt.FORMS) if thorough else ["select", others[k % len(others)], others[(k + 3) % len(others)]]
        else:
            c["forms"] = ["select", others[k % len(others)]]
        if '"col": "o"' in json.dumps(c["tree"]):
            # a predicate on the other column: also as a predicate on the column of a joined GLOBAL table
            c["forms"] = c["forms"] + rt.GJOIN_FORMS
        k += 1


def run(ctx):
    import vlib
    thorough = ctx.thorough
    rng = random.Random(ctx.seed)
    ctx.assumptions += [
        "rows of a sharded table carry a non-NULL sharding key (INSERT rejects NULL); the other column is a small integer; "
        "Kleene logic is monotone, so NULL in the other column cannot make a condition true that no non-NULL value makes true",
        "a condition that compares the sharding column with a literal follows MySQL numeric / datetime comparison "
        "(a quoted number equals the number, a date without time is midnight)",
        "a statement rejected by the planner (error) satisfies the property; a panic does not",
    ]
    if ctx.replay:
        rec = ctx.read_ndjson(ctx.replay)[0]
        summ = rt.feed(ctx, rt.replay_lines(rec), "C01")
        rt.merge_counts(ctx, summ)
        return

    rules = "ThoroughRules" if thorough else "QuickRules"

    # 1. generation + design level in one exhaustive run: leaves (+ NOT), pairs (thorough), seeded samples.
    #    Invariants checked by TLC on every case: the repaired pruning algebra is sound, routed sets stay inside the
    #    rule's tables, a point condition is routed exactly to Place(key), every table holds a universe key.
    nsamp = 2500 if thorough else 260
    sample = rt.sample_set(rng, rt.SHAPES2 + rt.SHAPES3 + rt.SHAPES3, nsamp)
    modes = ["rules", "leaves", "sample"] + (["pairs"] if thorough else [])
    r = rt.run_cond_tlc(ctx, rules, modes, sample=sample, invariants=GEN_INV, emit=True, workers="auto",
                        label="enumerate cases (%s) + design-level invariants" % ",".join(modes), timeout=2400)
    ctx.log("generated", len(r.cases), "records", r.stats(), "%.0fs" % r.wall)
    if thorough:
        # the pruning algebra before the repairs bf55534 / 2551487, checked as an invariant: TLC's counterexample documents
        # what the repairs fixed (the stored cases of the fixed findings are replayed in every run)
        r2 = rt.run_cond_tlc(ctx, "<<RangeA, YearA>>", ["leaves"], invariants=("TypeOK", "OldPruneSound"), emit=False,
                             workers=1, allow_violation=True, label="design: pruning before the repairs (counterexample expected)")
        ctx.cov["design_level_before_repairs"] = {"violated": r2.violated, "trace": r2.trace_text[:1200]}
    lines, rulerecs = rt.group_by_rule(r.cases, "cond")
    # the pruning algebra as written must be sound where no range pruning exists (hash, mod): a failure there is a
    # specification-level problem, not an implementation verdict
    unsound = [c for c in lines if c.get("kind") == "cond" and not c["dsound"]]
    if unsound:  # (TLC's RepairedPruneSound invariant already guards this)
        raise vlib.Inconclusive("design level: the model of the current pruning code is unsound: %s" % json.dumps(unsound[0])[:600])
    extra = rt.known_lines("C01")
    decorate(lines, rng, thorough)
    decorate(extra, rng, thorough)
    conds = [c for c in lines if c["kind"] == "cond"]
    ctx.cov["cases"] = {"rules": len(rulerecs), "conditions": len(conds),
                        "by_shape": {s: sum(1 for c in conds if c["shape"] == s) for s in sorted({c["shape"] for c in conds})},
                        "design_level_counterexamples": sum(1 for c in conds if not c["dsound"]),
                        "known_finding_cases_added": len([c for c in extra if c.get("kind") == "cond"])}
    for c in conds[:: max(1, len(conds) // 5)]:
        ctx.sample({"rule": c["rule"], "tree": c["tree"], "must": c["must"], "pruned_model": c["pruned"]})

    # 3. binding self-test case: an expectation corrupted to demand one more table must be reported
    selftest = []
    for i, c in enumerate(lines):
        if c.get("kind") == "cond" and c["shape"] == "L" and c["tree"]["k"] == "cmp" and c["tree"]["op"] == "=" and \
                c["tree"]["col"] == "k" and c["tree"]["w"] == "lit" and len(c["must"]) == 1 and not c["pruned"]["rej"]:
            rule = rulerecs[c["rule"]]
            other = [t for t in rule["tables"] if t not in c["must"]]
            if other:
                bad = json.loads(json.dumps(c))
                bad["must"] = c["must"] + [other[0]]
                bad["leafmust"] = [bad["must"]]
                bad["selftest"] = True
                selftest = [rule, bad]
                break

    # 4. replay on the real planner
    summ = rt.feed(ctx, lines + extra + selftest, "C01")
    rt.merge_counts(ctx, summ)
    n_unsound = [i for i, c in enumerate(lines) if c.get("kind") == "cond" and not c["dsound"]]
    confirmed = sum(1 for i in n_unsound if i in summ["deviating_cases"])
    ctx.cov["cases"]["design_level_counterexamples_confirmed_on_real_planner"] = confirmed
    ctx.cov["cases"]["deviating_cases_not_predicted_by_model"] = len([i for i in summ["deviating_cases"] if i < len(lines) and lines[i].get("dsound", True)])
    ctx.cov["traces_validated_against_impl"] += len(conds)
    ctx.cov["evaluations"] += summ["counts"].get("plans", 0)
    ctx.cov["distinct_nontrivial"] = summ.get("distinct_nontrivial", 0)
    ctx.cov["rule"] = ("case = (rule instance, condition tree) emitted by TLC with MustRoute; non-trivial = the real planner accepted the "
                       "statement and MustRoute is a non-empty proper subset of the rule's tables (so that pruning matters); counted once "
                       "per distinct (rule, tree)")
    ctx.log("replayed", len(conds), "cases;", summ["counts"])
    caught = bool(selftest) and summ["selftest_hits"] == 1
    ctx.cov["binding_selftest"] = {"corrupted_expectation_detected": caught}
    if not caught:
        raise vlib.Inconclusive("binding self-test failed: a corrupted MustRoute was accepted")
