"""C32 - a namespace change is applied on all proxies or on none (cc/service/service.go, cc/proxy/proxy.go, proxy/server/admin.go).

Specification: spec/ControlPlane.tla (coordinator store + up to 3 proxies as active version / prepared slot; the real
ModifyNamespace / DelNamespace flow with its retry counts; RPC outcomes ok / fail / timeout-after-apply),
ControlPlane_gen.tla (fault placements of one operation), ControlPlane_sched.tla (schedules of two concurrent operations).
Binding: G - every fault placement / sampled schedule is replayed on the real service.ModifyNamespace / DelNamespace
against an in-process coordinator (etcd v2 keys API served from memory, used through the real models etcd client and
Store) and httptest proxies implementing the admin API on the specification's proxy P-level.
"""
import copy
import json

import vlib
import _control as K

MANIFEST = {
    "engine": "tla-controlplane",
    "level_claimed": {
        "category": "model_checking",
        "text": "TLC decides the design question exhaustively: for 1-3 proxies, every placement of ok/fail/timeout-after-apply "
                "outcomes over all prepare attempts (3 per proxy) and commit / delete attempts (1 per proxy), for modify "
                "(existing and new namespace) and delete, and for two concurrent operations on one namespace under all "
                "interleavings of their store accesses and RPCs.  TLC proves atomicity for placements whose faults are confined "
                "to the prepare phase and produces counterexamples otherwise; every placement (bounded-exhaustive for 1-2 "
                "proxies, sampled / thorough: large sample for 3) and seeded samples of concurrent schedules are replayed on "
                "the real ModifyNamespace / DelNamespace; the final coordinator content and every proxy's active version are "
                "compared with the specification's final state and judged by the property.",
        "design_ref": "DESIGN.md section 5 C32, section 4.1 ControlPlane",
    },
    "level_note": "The proxies are the specification's P-level behind the real admin HTTP API (prepare loads the namespace "
                  "with the real models.Store; the real reload Manager is the subject of C31, not of this check).  The "
                  "coordinator is an in-process server speaking the etcd v2 keys API, driven through the repository's real "
                  "etcd client: the repository's file client cannot write (Update/Delete are no-ops) and no etcd binary is "
                  "available offline; coordinator failures are not injected (the property's fault model is the proxy "
                  "exchange).  'timeout after apply' is delivered as a closed connection after the effect (the caller sees "
                  "an error at once instead of after 30 s).  DelNamespace visits proxies in Go map order, which the harness "
                  "cannot choose: the specification supplies the set of final states over all orders.",
    "technique": "TLA+ spec + TLC exhaustive check (design-level decision); TLC-generated fault placements and schedules "
                 "replayed on the real cc/service code with fake coordinator and proxies",
}

CFG = """SPECIFICATION %(spec)s
CONSTANTS
  Proxies = %(proxies)s
  KindA = "%(kinda)s"
  VerA = 2
  KindB = "%(kindb)s"
  VerB = 3
  Old = %(old)d
  PrepareTries = 3
  CommitTries = 1
  Outcomes = %(outs)s
  CommitOutcomes = %(couts)s
  MaxFaults = %(maxf)d
INVARIANTS %(inv)s
CHECK_DEADLOCK FALSE
"""
ALL = ["ok", "fail", "tapply"]
HARNESS = ["cc/service/controlplane_test.go"]
PKG = "cc/service"
RUN = "^TestVerifControlPlane$"


def cfg(spec="Spec", n=2, kinda="modify", kindb="none", old=1, outs=ALL, couts=ALL, maxf=100, inv="TypeOK Atomic AtomicConcurrent",
        ints=False):
    prox = "{" + ", ".join(str(i + 1) for i in range(n)) + "}" if ints else K.tla_set(["p%d" % (i + 1) for i in range(n)])
    return CFG % dict(spec=spec, proxies=prox, kinda=kinda, kindb=kindb, old=old, outs=K.tla_set(outs), couts=K.tla_set(couts),
                      maxf=maxf, inv=inv)


def placements(ctx, n, kind, old, label):
    """all fault placements of one operation, with the final states of the protocol model"""
    r = ctx.tlc("ControlPlane_gen", "cp_gen.cfg", workers=1, timeout=900,
                extra_files={"cp_gen.cfg": cfg(spec="GenSpec", n=n, kinda=kind, old=old, inv="Emit", ints=True)},
                label="fault placements %s n=%d old=%d" % (kind, n, old))
    out = []
    if kind == "modify":
        for c in r.cases:
            c["mode"] = "single"
            c["allowed"] = [c.pop("final")]
            out.append(c)
    else:
        groups = {}
        for c in r.cases:
            groups.setdefault(json.dumps(c["script"]), []).append(c)
        for k in sorted(groups):
            cs = groups[k]
            c = dict(cs[0])
            c["mode"] = "single"
            c["allowed"] = [x["final"] for x in cs]
            c["atomic"] = all(x["atomic"] for x in cs)
            c["placement"] = [{"pre": [], "com": [o]} for o in c["script"]]
            c.pop("final")
            out.append(c)
    if not out:
        raise vlib.Inconclusive("no placements generated for %s" % label)
    return out


def nontrivial(c):
    """a placement is non-trivial when it contains a fault and the operation still reaches the commit / delete phase"""
    faults = sum(1 for p in c["placement"] for o in p["pre"] + p["com"] if o != "ok")
    reached = any(p["com"] for p in c["placement"])
    return faults > 0 and reached


def replay(ctx, cases, label, rng):
    for c in cases:
        c.setdefault("variant", rng.randrange(2))
    res, summ, out = ctx.harness(PKG, HARNESS, RUN, cases, timeout=2400)
    K.require_counts(summ, len(cases), label)
    K.report(ctx, res, wrap=lambda obs: {"kind": "case", "case": obs})
    ctx.cov["evaluations"] += summ["cases"]
    ctx.cov["traces_validated_against_impl"] += summ["cases"]
    ctx.cov.setdefault("rpc_attempts_replayed", 0)
    ctx.cov["rpc_attempts_replayed"] += summ["rpcs"]
    ctx.cov.setdefault("non_atomic_outcomes_matching_the_protocol_model", 0)
    ctx.cov["non_atomic_outcomes_matching_the_protocol_model"] += summ["non_atomic_as_predicted"]
    K.drift_note(ctx, summ, label)
    return res, summ


def schedules(ctx, rng, kinda, kindb, n, outs, maxf, num):
    r = ctx.tlc("ControlPlane_sched", "cp_sched.cfg", workers=1, mode="sim", sim="num=%d" % num, depth=60,
                seed=rng.randrange(1, 2 ** 31), timeout=300,
                extra_files={"cp_sched.cfg": cfg(spec="SchedSpec", n=n, kinda=kinda, kindb=kindb, outs=outs, couts=outs, maxf=maxf,
                                                 inv="Emit", ints=True)},
                label="sampled schedules %s+%s" % (kinda, kindb))
    seen = set()
    out = []
    for c in r.cases:
        k = json.dumps(c["steps"], sort_keys=True)
        if k in seen:
            continue
        seen.add(k)
        c["mode"] = "schedule"
        out.append(c)
    if not out:
        raise vlib.Inconclusive("no schedules sampled")
    return out


def run(ctx):
    thorough = ctx.thorough
    rng = K.rng_for(ctx, "c32")
    ctx.assumptions += [
        "coordinator reads and writes succeed (the property's fault model is the prepare/commit exchange with the proxies)",
        "a proxy is its P-level: active version + prepared slot per namespace; prepare reads the namespace from the coordinator",
    ]
    if ctx.replay:
        rec = ctx.read_ndjson(ctx.replay)[0]
        replay(ctx, [rec["case"]["case"]], "replay", rng)
        return

    import os
    stages = set((os.environ.get("VERIF_STAGES") or "mc,g,selftest").split(","))  # development aid
    # 1. TLC decides the design question
    design = {}
    nomc = "mc" not in stages
    # (a) no faults: the protocol is atomic (must hold)
    quick_a = [(3, "modify", 1), (3, "delete", 1)]
    all_a = [(n, k, o) for n in (1, 2, 3) for k, o in (("modify", 1), ("modify", 0), ("delete", 1))]
    for n, kind, old in [] if nomc else (all_a if thorough else quick_a):
        ctx.tlc("ControlPlane", "cp.cfg", extra_files={"cp.cfg": cfg(n=n, kinda=kind, old=old, outs=["ok"], couts=["ok"])},
                timeout=600, label="no faults %s n=%d old=%d" % (kind, n, old))
    # (b) faults confined to the prepare phase, every placement: atomic (must hold)
    for n, old in [] if nomc else ([(1, 1), (2, 1), (3, 1), (1, 0), (2, 0), (3, 0)] if thorough else [(3, 1), (2, 0)]):
        r = ctx.tlc("ControlPlane", "cp.cfg", extra_files={"cp.cfg": cfg(n=n, kinda="modify", old=old, outs=ALL, couts=["ok"])},
                    timeout=900, label="prepare-phase faults only n=%d old=%d" % (n, old), coverage=(n == 3 and old == 1))
        ctx.log("mc prepare-phase faults n=%d old=%d" % (n, old), r.stats())
        if r.zero_actions:
            # the delete actions cannot occur in a modify configuration
            unexpected = [a for a in r.zero_actions if a not in ("DelStore", "DelRPC", "DelNoProxies")]
            if unexpected:
                ctx.notes.append("vacuous actions (prepare-phase faults n=%d): %s" % (n, unexpected))
    # (c) commit / delete faults: counterexamples = candidates (confirmed or not by the replay below)
    for n, kind, old in [] if nomc else (all_a if thorough else [(3, "modify", 1), (2, "modify", 0), (3, "delete", 1)]):
        r = ctx.tlc("ControlPlane", "cp.cfg", extra_files={"cp.cfg": cfg(n=n, kinda=kind, old=old, inv="Atomic")},
                    allow_violation=True, timeout=900, label="all faults %s n=%d old=%d" % (kind, n, old))
        design["%s n=%d old=%d" % (kind, n, old)] = r.violated or "holds"
    # (d) two concurrent operations: all interleavings
    for kinda, kindb in () if nomc else (("modify", "modify"), ("modify", "delete")):
        for maxf in ((0, 1) if thorough else (0,)):
            r = ctx.tlc("ControlPlane", "cp.cfg", extra_files={"cp.cfg": cfg(n=2, kinda=kinda, kindb=kindb, maxf=maxf, inv="AtomicConcurrent")},
                        allow_violation=True, timeout=900, label="concurrent %s+%s maxfaults=%d" % (kinda, kindb, maxf))
            design["concurrent %s+%s faults<=%d" % (kinda, kindb, maxf)] = r.violated or "holds"
        if thorough:
            r = ctx.tlc("ControlPlane", "cp.cfg", extra_files={"cp.cfg": cfg(n=2, kinda=kinda, kindb=kindb, maxf=2, inv="TypeOK")},
                        timeout=1500, label="concurrent %s+%s full state space maxfaults=2" % (kinda, kindb))
            ctx.log("mc concurrent full", kinda, kindb, r.stats())
    ctx.cov["design_level_results"] = design
    ctx.log("design-level:", design)

    # 2. G: fault placements of one operation + sampled schedules of two operations, on the real code (one harness run)
    nontriv = set()
    allcases = [copy.deepcopy(c["case"]) for c in K.stored_finding_cases("C32", "case")]
    plans = [("modify", 2, 1, None), ("modify", 2, 0, 100), ("modify", 3, 1, 150), ("delete", 2, 1, None), ("delete", 3, 1, None)]
    if thorough:
        plans = [("modify", 1, 1, None), ("modify", 1, 0, None), ("modify", 2, 1, None), ("modify", 2, 0, None), ("modify", 3, 1, 4000),
                 ("modify", 3, 0, 1500), ("delete", 1, 1, None), ("delete", 2, 1, None), ("delete", 3, 1, None)]
    first = None
    for kind, n, old, sample in plans:
        cases = placements(ctx, n, kind, old, "%s n=%d old=%d" % (kind, n, old))
        total = len(cases)
        if sample and len(cases) > sample:
            cases = rng.sample(cases, sample)
        ctx.log("placements %s n=%d old=%d: %d generated, %d replayed" % (kind, n, old, total, len(cases)))
        ctx.cov.setdefault("placements", {})["%s n=%d old=%d" % (kind, n, old)] = {"generated": total, "replayed": len(cases)}
        for c in cases:
            if nontrivial(c):
                nontriv.add(json.dumps([kind, n, old, c["placement"]]))
        ctx.sample(cases[len(cases) // 2])
        first = first or cases[len(cases) // 2]
        allcases += cases
    ctx.cov["distinct_nontrivial"] = len(nontriv)
    ctx.cov["rule"] = ("cases = fault placements (outcome of every prepare / commit / delete attempt on every proxy) of one "
                       "ModifyNamespace / DelNamespace enumerated by TLC; non-trivial = at least one fault and the operation "
                       "reaches the commit / delete phase")
    num = 8 if not thorough else 60
    scheds = []
    scheds += schedules(ctx, rng, "modify", "modify", 2, ["ok"], 0, num)
    scheds += schedules(ctx, rng, "modify", "delete", 2, ["ok"], 0, num)
    if thorough:
        scheds += schedules(ctx, rng, "modify", "modify", 3, ["ok"], 0, num // 2)
        scheds += schedules(ctx, rng, "modify", "modify", 2, ["ok", "fail"], 1, num)
    ctx.sample(scheds[0])
    ctx.cov["concurrent_schedules_replayed"] = len(scheds)
    replay(ctx, allcases + scheds, "fault placements and concurrent schedules", rng)

    # 4. binding self-test: a corrupted expectation must be noticed
    bad = copy.deepcopy(first)
    for f in bad["allowed"]:
        f["store"] = 7
    sub = K.sub_ctx(ctx)
    try:
        res, summ, _ = sub.harness(PKG, HARNESS, RUN, [bad])
        caught = summ.get("drift", 0) > 0 or any("unpredicted" in d["sig"] for r in res for d in r.get("devs", []))
    finally:
        sub.cleanup()
    ctx.cov["binding_selftest"] = {"corrupted_expectation_detected": caught}
    if not caught:
        raise vlib.Inconclusive("binding self-test failed: a corrupted expected final state was accepted")
