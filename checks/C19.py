"""C19 - Backend connections are returned exactly once and never leaked.

Specification: spec/SessionConn.tla, SessionConn_gen.tla, SessionConn_trace.tla (shared with the other two properties of
the family; see checks/_sessionconn.py).  Binding: G (TLC behaviours replayed on the real Session / SessionExecutor over
fake pools, projection compared after every command, ledger monitors) and V (ledgers validated by TLC).
Only deviations whose signature starts with "C19" are verdicts of this check.
"""
import _sessionconn as sc

MANIFEST = sc.manifest("C19", "C19: every connection taken is returned (or discarded) exactly once, nothing is held that the session does not need, nothing is held and no backend transaction is open after the session's end.")


def run(ctx):
    sc.Family(ctx).run()
