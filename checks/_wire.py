"""Shared helpers of the Wire / Auth family (C11, C12, C13, C30, C35)."""
import json
import random

import vlib


def b8(n):
    """64-bit value as 8 little-endian bytes (the specification's representation of 64-bit integers)."""
    n &= (1 << 64) - 1
    return [(n >> (8 * i)) & 255 for i in range(8)]


def tla_seq(xs):
    return "<<" + ", ".join(str(x) for x in xs) + ">>"


def tla_set(xs):
    return "{" + ", ".join(xs) + "}"


def tla_str(s):
    return '"' + s.replace("\\", "\\\\").replace('"', '\\"') + '"'


def replay(ctx, pkg, files, run, cases, env=None, want_cases=None, timeout=1200, case_of=None):
    """Run TLC-generated cases through an in-package harness; every reported deviation goes to ctx.deviation.
    Returns (results, summary)."""
    res, summ, out = ctx.harness(pkg, files, run, cases, env=env or {}, timeout=timeout)
    n = want_cases if want_cases is not None else (len(cases) if not isinstance(cases, str) else None)
    if n is not None and summ["cases"] != n:
        raise vlib.Inconclusive("harness %s replayed %d of %d cases" % (run, summ["cases"], n))
    for r in res:
        for d in r.get("devs", []):
            c = r.get("obs")
            if case_of:
                c = case_of(r)
            ctx.deviation(d["sig"], d["what"], c)
    # deviations beyond the first few per signature are only counted by the harness
    ctx.cov["evaluations"] += summ.get("calls", summ["cases"])
    return res, summ


def selftest(ctx, pkg, files, run, good_case, corrupt, env=None, name="corrupted_expectation_detected"):
    """Binding self-test: the harness must accept good_case and must report a deviation for corrupt(good_case)."""
    bad = corrupt(json.loads(json.dumps(good_case)))
    res, summ, out = ctx.harness(pkg, files, run, [good_case, bad], env=env or {})
    devs_good = [d for r in res if r["case"] == 0 for d in r.get("devs", [])]
    devs_bad = [d for r in res if r["case"] == 1 for d in r.get("devs", [])]
    # deviations of the good case that are known findings do not count
    fresh_good = [d for d in devs_good if ctx.known_match(d["sig"]) is None]
    fresh_bad = [d for d in devs_bad if ctx.known_match(d["sig"]) is None]
    ok = (not fresh_good) and bool(fresh_bad)
    st = ctx.cov.setdefault("binding_selftest", {})
    st[name] = ok
    if not ok:
        raise vlib.Inconclusive("binding self-test %s failed: good case deviations %s, corrupted case deviations %s"
                                % (name, fresh_good[:2], fresh_bad[:2]))
    return ok
