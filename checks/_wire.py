"""Shared helpers of the Wire / Auth family (C11, C12, C13, C30, C35)."""
import json
import random

import vlib


def b8(n):
    """64-bit value as 8 little-endian bytes (the specification's representation of 64-bit integers)."""
    n &= (1 << 64) - 1
    return [(n >> (8 * i)) & 255 for i in range(8)]


def tla_seq(xs):
    return "<<" + ", ".join(str(x) for x in xs) + ">>"


def tla_set(xs):
    return "{" + ", ".join(xs) + "}"


def tla_str(s):
    return '"' + s.replace("\\", "\\\\").replace('"', '\\"') + '"'


def replay(ctx, pkg, files, run, cases, env=None, want_cases=None, timeout=1200, selftests=None):
    """Run TLC-generated cases through an in-package harness; every reported deviation goes to ctx.deviation.
    cases: list of case objects, or the path of an NDJSON file (then want_cases = number of lines).
    selftests: [(name, good_case, corrupt_fn)] - binding self-test riding on the same harness run: the pair
    (good_case, corrupt_fn(copy)) is appended after the real cases; the harness must accept the good one (apart from
    listed known findings) and must report a fresh deviation for the corrupted one.
    Returns (results of the real cases, summary)."""
    st_cases = []
    for name, good, corrupt in (selftests or []):
        st_cases.append(good)
        st_cases.append(corrupt(json.loads(json.dumps(good))))
    if isinstance(cases, str):
        if want_cases is None:
            raise vlib.Inconclusive("replay from a file needs the number of cases")
        nmain = want_cases
        with open(cases, "a") as f:
            for c in st_cases:
                f.write(json.dumps(c, separators=(",", ":")))
                f.write("\n")
        feed = cases
    else:
        nmain = len(cases)
        feed = list(cases) + st_cases
    res, summ, out = ctx.harness(pkg, files, run, feed, env=env or {}, timeout=timeout)
    if summ["cases"] != nmain + len(st_cases):
        raise vlib.Inconclusive("harness %s replayed %d of %d cases" % (run, summ["cases"], nmain + len(st_cases)))
    summ["cases"] = nmain
    main = [r for r in res if r["case"] < nmain]
    for r in main:
        for d in r.get("devs", []):
            ctx.deviation(d["sig"], d["what"], r.get("obs"))
    ctx.cov["evaluations"] += summ.get("calls", summ["cases"])
    # binding self-test
    st = ctx.cov.setdefault("binding_selftest", {}) if selftests else None
    for i, (name, good, corrupt) in enumerate(selftests or []):
        fresh = {}
        for k in (nmain + 2 * i, nmain + 2 * i + 1):
            fresh[k] = [d for r in res if r["case"] == k for d in r.get("devs", []) if ctx.known_match(d["sig"]) is None]
        if fresh[nmain + 2 * i]:
            # the real code deviates on the reference case itself (a finding; reported here too) - cannot be evaluated
            for d in fresh[nmain + 2 * i]:
                ctx.deviation(d["sig"], d["what"], good)
            st[name] = "not evaluated: the reference case itself deviates on this tree"
        elif fresh[nmain + 2 * i + 1]:
            st[name] = True
        elif ctx.violations:
            # harnesses cap the reports per signature: with violations around, a missing report proves nothing
            st[name] = "not evaluated: violations reported on this tree"
        else:
            st[name] = False
            raise vlib.Inconclusive("binding self-test %s failed: the corrupted case was accepted" % name)
    return main, summ
