"""Shared driver of the SessionConn family (C18, C19, C23).

Specification: spec/SessionConn.tla (ground state + P-level invariants + command level), SessionConn_gen.tla
(behaviour generation with the expected abstract state after every command), SessionConn_trace.tla (event level:
the ledger of the fake pools validated by TLC).
Binding: harness/proxy/server/sessionconn_test.go - a real Manager / Namespace / Session / SessionExecutor with
every slice's ConnPool replaced by a fake pool that keeps a ledger.

One pipeline, three verdicts: every check runs the pipeline for the modes its property speaks about; a deviation
carries the id of the property whose statement it breaks (prefix of the signature) and is a verdict only in that
property's check - the other checks count it under coverage.other_property_deviations.
"""
import copy
import json
import math
import random

FAMILY = ("C18", "C19", "C23")
HARNESS = ["proxy/server/sessionconn_test.go"]
RUN = "^TestVerifSessionConnReplay$"

INVARIANTS = ("TypeOK C18_TxStatementOnTxMaster C18_OneConnPerSlice C18_EndReachesExactlyTx C18_ReleasedAfterEnd C18_SavepointOnTxOnly "
              "C19_NoLeak C19_NoDangling C19_NothingHeldOutsideTx C19_NoOpenTxInPool C19_EndClean "
              "C23_Pinned C23_PinnedRole C23_NsChange C23_NoSpuriousClose ModeSeparation")
STATE_INVARIANTS = "TypeOK C19_NoLeak C19_NoDangling C19_NothingHeldOutsideTx C19_NoOpenTxInPool C19_EndClean C23_PinnedRole ModeSeparation"

ALL_FOPS = '{"get", "sync", "begin", "setac", "init", "exec", "commit", "rollback", "ping"}'
END_FOPS = '{"commit", "rollback", "setac"}'
CORE_FOPS = '{"get", "begin", "setac", "exec", "commit", "rollback", "ping"}'

CONSTS = """CONSTANTS
  KSModes = %(ks)s
  Users = %(users)s
  MaxCmds = %(cmds)d
  MaxFaults = %(faults)d
  MaxNs = %(ns)d
  MaxPerPool = %(pool)d
  FOps = %(fops)s
"""

MC_CFG = "SPECIFICATION Spec\n" + CONSTS + "INVARIANTS " + INVARIANTS + "\nCHECK_DEADLOCK FALSE\n"
MC_VIEW_CFG = "SPECIFICATION Spec\n" + CONSTS + "VIEW View\nINVARIANTS " + STATE_INVARIANTS + "\nCHECK_DEADLOCK FALSE\n"
GEN_CFG = "SPECIFICATION GenSpec\n" + CONSTS + "  GenLen = %(len)d\nINVARIANTS Emit " + INVARIANTS + "\nCHECK_DEADLOCK FALSE\n"
TRACE_CFG = ("SPECIFICATION TraceSpec\n" + CONSTS % dict(ks="{FALSE, TRUE}", users='{"rw", "rws", "ro"}', cmds=100000,
                                                        faults=100000, ns=100000, pool=12, fops="{}")
             + "INVARIANTS " + INVARIANTS + " EndsClosed\nPOSTCONDITION TraceAccepted\nCHECK_DEADLOCK FALSE\n")

ALL_USERS = '{"rw", "rws", "ro"}'


def modes_of(pid):
    # C23 speaks about keep-session clients only; C18 / C19 quantify over both modes
    return "{TRUE}" if pid == "C23" else "{FALSE, TRUE}"


def manifest(pid, title_text):
    return {
        "engine": "tla-sessionconn",
        "level_claimed": {
            "category": "model_checking",
            "text": "TLC exhaustively checks the session/connection model (status flags, transaction and keep-session "
                    "connection maps, per-connection pool state, every command path of the executor with at most one "
                    "backend fault) against the P-level invariants of %s for all command sequences within small bounds; "
                    "every behaviour TLC enumerates up to a length bound plus seeded longer ones is replayed on the real "
                    "Session / SessionExecutor over fake connection pools, comparing the projected state after every "
                    "command with the state TLC emitted and running ledger monitors; the recorded ledgers are validated "
                    "by TLC against the event-level trace specification with all invariants on. %s" % (pid, title_text),
            "design_ref": "DESIGN.md section 5 C18/C19/C23, section 3.3, Appendix A.2",
        },
        "level_note": "One session; the other users of a pool are represented by 'not held by this session'. Backend faults "
                      "are of three kinds (statement error, protocol error = connection discarded on return, connection "
                      "closed under the session); execution timeouts are represented by the third kind, real timers are "
                      "not driven. The real Session.Run loop is driven packet by packet over a fake client socket (no handshake); "
                      "streamed results are exercised for unsharded reads (one extra chunk); SAVEPOINT / ROLLBACK TO / RELEASE "
                      "SAVEPOINT (one name, fault-free, sessions without keep-session) are exercised including the replay of the "
                      "recorded savepoint on connections that join the transaction later; multi-result streaming, "
                      "COM_FIELD_LIST and prepared statements are not "
                      "exercised. Read-only users in keep-session mode are pinned to a replica by design of "
                      "getBackendKsConn; C18's master clause is not applied to them.",
        "technique": "TLA+ spec + TLC exhaustive check; TLC-generated behaviours replayed on the real session executor with "
                     "fake pools; recorded ledgers validated by TLC",
    }


def prop_of(sig):
    return sig.split(" ", 1)[0]


def nontrivial(c):
    """a behaviour is non-trivial when a backend fault fires or the namespace changes in it, and at least one statement
    runs inside a transaction or on a pinned connection"""
    ev = any(x["f"]["op"] != "none" or x["k"] == "nschange" or x.get("mid") for x in c["cmds"])
    stmt = False
    intx = False
    for x in c["cmds"]:
        if x["k"] in ("unshard", "shard") and (c["ks"] or intx):
            stmt = True
        e = x.get("exp")
        if e:
            intx = e["intx"] or not e["ac"]
    return ev and stmt


def key_of(c):
    return json.dumps([c["ks"], c["user"], [[x["k"], x["sl"], x["kind"], x["first"], x["f"], x.get("mid", False)] for x in c["cmds"]]], sort_keys=True)


class Family:
    def __init__(self, ctx):
        import vlib
        self.vlib = vlib
        self.ctx = ctx
        self.pid = ctx.pid
        self.rng = random.Random(ctx.seed)
        self.nontriv = set()
        self.other = {}
        self.drift = 0
        self.clean_traces = []   # ledger lines of behaviours the monitors accepted
        self.bad_traces = []     # ... rejected
        c = ctx.cov
        c.setdefault("behaviours_replayed", 0)
        c.setdefault("commands_replayed", 0)
        c.setdefault("conformance_drift_after_fault", 0)
        c.setdefault("order_retries", 0)
        c.setdefault("order_unexamined", 0)
        c.setdefault("impl_traces_validated_by_tlc", 0)
        c.setdefault("other_property_deviations", {})

    # ---------------------------------------------------------------- deviations
    def report(self, sig, what, case):
        p = prop_of(sig)
        if p == self.pid:
            self.ctx.deviation(sig, what, case)
        else:
            o = self.ctx.cov["other_property_deviations"]
            o[sig] = o.get(sig, 0) + 1

    # ---------------------------------------------------------------- G: replay + collect ledgers
    def replay(self, cases, label, trace_budget):
        ctx = self.ctx
        if not cases:
            return
        cases = sorted(cases, key=lambda c: (c["ks"], c["user"]))   # fewer namespace reloads
        every = max(1, int(math.ceil(len(cases) / float(max(trace_budget, 1)))))
        tp = ctx.path("trace-%s.ndjson" % label)
        res, summ, out = ctx.harness("proxy/server", HARNESS, RUN, cases,
                                     env={"VERIF_TRACE_OUT": tp if trace_budget > 0 else "", "VERIF_SC_TRACE_EVERY": every,
                                          "VERIF_SC_LOGDIR": ctx.path("gaea-logs")})
        if summ["cases"] != len(cases):
            raise self.vlib.Inconclusive("harness replayed %d of %d cases" % (summ["cases"], len(cases)))
        ctx.cov["behaviours_replayed"] += summ["cases"]
        ctx.cov["commands_replayed"] += summ.get("commands", 0)
        ctx.cov["evaluations"] += summ.get("commands", 0)
        ctx.cov["order_retries"] += summ.get("order_retries", 0)
        ctx.cov["order_unexamined"] += summ.get("order_unexamined", 0)
        ctx.cov["conformance_drift_after_fault"] += summ.get("drift_cases", 0)
        for r in res:
            obs = r.get("obs") or {}
            case = {"ks": obs.get("ks"), "user": obs.get("user"), "cmds": obs.get("cmds")}
            for d in r.get("devs", []):
                self.report(d["sig"], d["what"], case)
        for c in cases:
            if nontrivial(c):
                self.nontriv.add(key_of(c))
        if trace_budget > 0:
            for e in ctx.read_ndjson(tp):
                if e.get("summary"):
                    continue
                (self.clean_traces if e["t"] >= 0 else self.bad_traces).append(e)
        ctx.log("replayed", len(cases), label, "behaviours;", summ.get("commands", 0), "commands; drift", summ.get("drift_cases", 0))

    # ---------------------------------------------------------------- V: TLC validates the ledgers
    def reject_prop(self, rj):
        e = rj["event"]
        ks = rj["events"][0].get("ks", False)
        if e["ev"] == "op" and e.get("op") in ("exec", "init"):
            return "C23" if ks else "C18"
        if e["ev"] == "reply" and ks and any(x["ev"] == "nschange" for x in rj["events"]):
            return "C23"
        return "C19"

    def validate(self, lines, limit, label):
        ctx = self.ctx
        ids = []
        for e in lines:
            if not ids or ids[-1] != e["t"]:
                ids.append(e["t"])
        if len(ids) > limit:
            keep = set(self.rng.sample(ids, limit))
            lines = [e for e in lines if e["t"] in keep]
        if not lines:
            return 0, []
        ok, rejected = ctx.validate_traces("SessionConn_trace", "sc_trace.cfg", lines, cfg_text=TRACE_CFG, timeout=900,
                                           max_rejects=4)
        ctx.log("TLC validated", ok, label, "ledgers,", len(rejected), "rejected")
        return ok, rejected

    def validate_clean(self, limit):
        ctx = self.ctx
        ok, rejected = self.validate(self.clean_traces, limit, "clean")
        ctx.cov["impl_traces_validated_by_tlc"] += ok
        ctx.cov["traces_validated_against_impl"] += ok
        for rj in rejected:
            p = self.reject_prop(rj)
            e = rj["event"]
            sig = "%s trace-rejected-by-TLC at=%s%s" % (p, e["ev"], ("/" + e["op"]) if e["ev"] == "op" else "")
            self.report(sig, "TLC rejects the recorded ledger at event %d (%s): %s" % (rj["index"], rj["why"], json.dumps(e)),
                        {"trace": rj["events"]})

    def validate_rejected_sample(self, limit):
        """ledgers the Go monitors rejected must be rejected by TLC as well (the two judges agree)"""
        ctx = self.ctx
        if not self.bad_traces:
            return
        ids = []
        for e in self.bad_traces:
            if not ids or ids[-1] != e["t"]:
                ids.append(e["t"])
        keep = set(ids[:limit])
        lines = [e for e in self.bad_traces if e["t"] in keep]
        ok, rejected = ctx.validate_traces("SessionConn_trace", "sc_trace.cfg", lines, cfg_text=TRACE_CFG, timeout=600,
                                           max_rejects=len(keep) + 1)
        agree = len(rejected)
        ctx.cov["monitor_rejected_ledgers_also_rejected_by_tlc"] = "%d of %d" % (agree, len(keep))
        if agree != len(keep):
            ctx.notes.append("TLC accepted %d ledger(s) the Go monitors rejected (monitor stricter than the trace "
                             "specification)" % (len(keep) - agree))

    # ---------------------------------------------------------------- TLC runs
    def mc(self, cmds, fops, users=ALL_USERS, ns=1, coverage=False, view=False, timeout=900):
        ctx = self.ctx
        cfg = (MC_VIEW_CFG if view else MC_CFG) % dict(ks=modes_of(self.pid), users=users, cmds=cmds, faults=1, ns=ns, pool=7, fops=fops)
        # TLC's -coverage cannot be used on this module: its cost-model builder inlines the nested operator
        # applications of the command layer and does not terminate in reasonable time/memory.  Action coverage is
        # counted from the emitted behaviours instead (see action_counts / generate()).
        r = ctx.tlc("SessionConn", "sc_mc.cfg", extra_files={"sc_mc.cfg": cfg}, coverage=False, timeout=timeout,
                    label="exhaustive: <=%d commands, <=1 fault, fault ops %s%s" % (cmds, fops, ", VIEW hiding observation variables" if view else ""))
        ctx.log("mc", cmds, r.stats(), "%.1fs" % r.wall)
        if coverage and r.zero_actions:
            ctx.notes.append("actions with zero coverage (mc %d commands): %s" % (cmds, r.zero_actions))
        return r

    def generate(self, length, fops, sample=None, sim=None, depth=None, users=ALL_USERS, ns=1, faults=1, timeout=900):
        """bounded-exhaustive (sample = None or a keep-probability) or simulated behaviours"""
        ctx = self.ctx
        cfg = GEN_CFG % dict(ks=modes_of(self.pid), users=users, cmds=length + 1, faults=faults, ns=ns, pool=7, fops=fops, len=length)
        cases = []
        seen = set()
        rng = self.rng

        counts = ctx.cov.setdefault("action_counts", {})

        def sink(c):
            for x in c["cmds"]:
                a = x["k"] if x["k"] not in ("unshard", "shard", "savepoint") else "%s/%s" % (x["k"], x["kind"])
                counts[a] = counts.get(a, 0) + 1
                if x["f"]["op"] != "none":
                    fa = "fault:%s/%s" % (x["f"]["op"], x["f"]["kind"])
                    counts[fa] = counts.get(fa, 0) + 1
                if x.get("ord"):
                    counts["order-dependent"] = counts.get("order-dependent", 0) + 1
                if x.get("mid"):
                    counts["nschange-during-command"] = counts.get("nschange-during-command", 0) + 1
            if sample is not None:
                pr = sample(c) if callable(sample) else sample
                if rng.random() >= pr:
                    return
            k = key_of(c)
            if k in seen:
                return
            seen.add(k)
            cases.append(c)

        if sim:
            r = ctx.tlc("SessionConn_gen", "sc_gen.cfg", extra_files={"sc_gen.cfg": cfg}, mode="sim", sim="num=%d" % sim,
                        depth=length + 2, workers=1, seed=rng.randrange(1, 2 ** 31), timeout=timeout, case_sink=sink,
                        keep_cases=False, label="simulate behaviours of %d commands" % length)
        else:
            r = ctx.tlc("SessionConn_gen", "sc_gen.cfg", extra_files={"sc_gen.cfg": cfg}, timeout=timeout, case_sink=sink,
                        keep_cases=False, label="all behaviours of <=%d commands + session end, <=%d fault%s" %
                        (length, faults, "" if sample is None else ", sampled for replay" if callable(sample) else
                         ", %.0f%% sampled for replay" % (100 * sample)))
        ctx.log("generated", len(cases), "behaviours (length %d%s)" % (length, ", simulated" if sim else ""), r.stats())
        if not cases:
            raise self.vlib.Inconclusive("generation produced no behaviours")
        return cases

    # ---------------------------------------------------------------- binding self-test
    def selftest(self, cases):
        ctx = self.ctx
        # 1. a corrupted expectation must be noticed by the replay
        victim = None
        for c in cases:
            if all(x["f"]["op"] == "none" for x in c["cmds"]) and any(x["exp"]["held"] for x in c["cmds"]) \
                    and (self.pid != "C23" or c["ks"]):
                victim = copy.deepcopy(c)
                break
        caught_g = False
        if victim:
            for x in victim["cmds"]:
                if x["exp"]["held"]:
                    x["exp"]["held"] = []
                    break
            res, summ, _ = ctx.harness("proxy/server", HARNESS, RUN, [victim], env={"VERIF_SC_LOGDIR": ctx.path("gaea-logs")})
            caught_g = any("state-differs-from-specification" in d["sig"] for r in res for d in r.get("devs", []))
        # 2. a corrupted ledger must be rejected by TLC: drop the first `put`
        caught_v = False
        ids = []
        for e in self.clean_traces:
            if not ids or ids[-1] != e["t"]:
                ids.append(e["t"])
        sub = None
        for t in ids[:400]:
            tr = [e for e in self.clean_traces if e["t"] == t]
            if any(e["ev"] == "put" for e in tr):
                i = next(i for i, e in enumerate(tr) if e["ev"] == "put")
                sub = tr[:i] + tr[i + 1:]
                break
        if sub:
            s2 = self.vlib.Ctx(ctx.pid, ctx.tier, ctx.seed, replay="selftest")
            try:
                ok, rej = s2.validate_traces("SessionConn_trace", "sc_trace.cfg", sub, cfg_text=TRACE_CFG, max_rejects=1)
                caught_v = len(rej) > 0
            finally:
                s2.cleanup()
        ctx.cov["binding_selftest"] = {"corrupted_expectation_detected": caught_g, "ledger_without_put_rejected_by_tlc": caught_v}
        if not (caught_g and caught_v):
            raise self.vlib.Inconclusive("binding self-test failed: a corrupted case/ledger was accepted (%s, %s)" % (caught_g, caught_v))

    # ---------------------------------------------------------------- the pipeline
    def run(self):
        ctx = self.ctx
        vlib = self.vlib
        ctx.assumptions += [
            "one session against fake pools; 'another session may own the connection' is represented by 'not handed out to "
            "this session'",
            "backend faults: statement error / protocol error (connection discarded on return) / connection closed under the "
            "session (what an execution timeout does); at most one per behaviour",
            "the real Session.Run loop runs on a fake client socket (one packet per command, the harness observes when the loop "
            "asks for the next packet); the handshake is skipped, the session is set up as Server.onConn does; namespace "
            "changes go through ReloadNamespacePrepare/Commit with the fake pools re-installed",
            "after a backend fault has fired, a difference between the expected and the observed projection is counted as "
            "conformance drift only; the verdict then comes from the ledger monitors and the TLC trace validation",
        ]
        if ctx.replay:
            rec = ctx.read_ndjson(ctx.replay)[0]
            c = rec["case"]
            if c.get("cmds"):
                self.replay([c], "replay", 1)
                self.validate_clean(1)
            elif c.get("trace"):
                ok, rej = ctx.validate_traces("SessionConn_trace", "sc_trace.cfg", c["trace"], cfg_text=TRACE_CFG)
                for rj in rej:
                    self.report(rec.get("signature", self.pid + " trace-rejected-by-TLC"), "replayed ledger rejected", c)
            return

        known_cases = [copy.deepcopy(k) for k in vlib.known_replay_cases(self.pid)]
        if not ctx.thorough:
            self.mc(3, ALL_FOPS)
            cases = self.generate(2, CORE_FOPS)
            ctx.sample(cases[len(cases) // 3])
            # behaviours one command longer (begin / statement / commit ...), fault-free or with a fault in the command that
            # ends the transaction (COMMIT / ROLLBACK / SET autocommit).  In the fault-free ones the expected state is fully
            # determined by the property texts and every difference is a verdict.
            nf3 = self.generate(3, END_FOPS, sample=lambda c: 0.3 if any(x["f"]["op"] != "none" for x in c["cmds"]) else 0.15)
            ctx.sample(nf3[len(nf3) // 2])
            sims = self.generate(5, ALL_FOPS, sim=80, ns=2)
            ctx.sample(sims[0])
            sp3 = []
            if self.pid != "C23":
                # transaction + SAVEPOINT + a statement with a statement-level fault: the fault hits the replay of the recorded
                # savepoint on a connection that joins the transaction, or the statement itself
                sp3 = self.generate(3, '{"exec", "init"}', users='{"rw"}', ns=0,
                                    sample=lambda c: 1.0 if any(x["k"] == "savepoint" for x in c["cmds"]) and
                                    any(x["f"]["op"] != "none" for x in c["cmds"]) else 0.0)
            self.replay(cases + known_cases + nf3 + sims + sp3, "bfs2+bfs3endfault+sim5+savepointfault3", 800)
            self.validate_clean(700)
            self.validate_rejected_sample(2)
        else:
            self.mc(4, ALL_FOPS)
            self.mc(5, CORE_FOPS, timeout=1500)
            self.mc(6, CORE_FOPS, view=True, ns=2, timeout=1500)
            cases = self.generate(2, ALL_FOPS)
            ctx.sample(cases[len(cases) // 3])
            self.replay(cases + known_cases, "bfs2", 2500)
            c3 = self.generate(3, CORE_FOPS, sample=0.12, timeout=1500)
            ctx.sample(c3[len(c3) // 2])
            self.replay(c3, "bfs3", 4000)
            nf4 = self.generate(4, "{}", sample=0.05, faults=0, ns=0, timeout=1500)
            ctx.sample(nf4[len(nf4) // 2])
            sims = self.generate(6, ALL_FOPS, sim=1500, ns=2)
            ctx.sample(sims[0])
            sp4 = []
            if self.pid != "C23":
                sp4 = self.generate(3, '{"exec", "init", "get", "begin", "setac", "sync"}', ns=0, timeout=1500,
                                    sample=lambda c: 1.0 if any(x["k"] == "savepoint" for x in c["cmds"]) and
                                    any(x["f"]["op"] != "none" for x in c["cmds"]) else 0.0)
            self.replay(nf4 + sims + sp4, "bfs4nofault+sim6+savepointfault3", 3500)
            self.validate_clean(10000)
            self.validate_rejected_sample(12)
        want = ["begin", "commit", "rollback", "setac0", "setac1", "unshard/read", "unshard/write", "unshard/lockread", "unshard/stream", "shard/read",
                "shard/write", "ping", "quit", "disconnect", "nschange", "nschange-during-command", "order-dependent"] + \
               ([] if self.pid == "C23" else ["savepoint/sp", "savepoint/rollbackto", "savepoint/release"]) + \
               ["fault:%s" % f for f in ("get/err", "begin/broken", "setac/broken", "exec/err", "exec/broken", "exec/closed",
                                         "commit/broken", "rollback/broken", "ping/broken", "sync/broken", "init/broken")]
        if self.pid == "C23":
            want.remove("fault:sync/broken")   # SyncSessionVariables is only called by getTransactionConn (no keep-session)
        zero = [a for a in want if not ctx.cov.get("action_counts", {}).get(a)]
        ctx.cov["zero_actions"] = zero
        if zero:
            ctx.notes.append("command paths / faults never enabled in the generated behaviours: %s" % zero)
        ctx.cov["distinct_nontrivial"] = len(self.nontriv)
        ctx.cov["rule"] = ("behaviours = command sequences (BEGIN/COMMIT/ROLLBACK/SET autocommit/SAVEPOINT forms/unsharded and sharded statements/"
                           "PING/QUIT/disconnect/namespace change, each with at most one fault that fires) enumerated by TLC for "
                           "every user kind and keep-session mode; non-trivial = a fault fires or the namespace changes, and at "
                           "least one statement runs inside a transaction or on a pinned connection")
        self.selftest(cases)
