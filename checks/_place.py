"""Shared driver code of the placement / routing-table family (C08, C09, C10).

Specification: spec/RoutingPlace.tla (placement operators), RoutingPlace_gen.tla (case generation + the
properties TLC checks on the specification itself), RoutingConfig*.tla (C10).
Harness: harness/proxy/router/place_test.go, routecfg_test.go (package router, injected by overlay).
"""
import json
import random

import vlib

GEN_CFG = """SPECIFICATION Spec
CONSTANTS
  Types = {%(types)s}
  Wide = %(wide)s
  TZs = {%(tzs)s}
INVARIANTS PlaceTotal SpellingsAgree RangePartition LayoutSane SegmentsPartition HashCarryOK Emit
CHECK_DEADLOCK FALSE
"""

EXTRA_TLA = """--------------------------- MODULE RoutingPlaceExtra ---------------------------
EXTENDS Integers
ExtraStrings == {%(strings)s}
ExtraInts    == {%(ints)s}
ExtraInstants == {%(instants)s}
ExtraMurmur  == {%(murmur)s}
================================================================================
"""

HARNESS = ["proxy/router/place_test.go"]
PKG = "proxy/router"
RUN = "^TestVerifPlace$"

ZONES = [0, 28800, -18000, 19800, 3600, -34200, 43200, -39600, 20700, 32400]


def tla_tuple(xs):
    return "<<" + ", ".join(str(x) for x in xs) + ">>"


def text_of(cps):
    return "".join(chr(c) for c in cps)


def show_key(k):
    if k["kind"] == "str":
        return json.dumps(text_of(k["cps"]), ensure_ascii=True)
    if k["kind"] == "int":
        return ("-" if k["neg"] else "") + "".join(str(d) for d in k["digits"])
    return "ts(day=%d,sec=%d)=%d" % (k["day"], k["sec"], k["day"] * 86400 + k["sec"])


def days_from_civil(y, m, d):
    """only used to pick seed-dependent instants (input data); the oracle is the TLA+ calendar"""
    import datetime
    return (datetime.date(y, m, d) - datetime.date(1970, 1, 1)).days


def extra_for(fam, rng, n):
    """seed-dependent additions to the key universe (data only; TLC computes every expectation)"""
    strings, ints, instants, murmur = [], [], [], []
    if fam == "date":
        for _ in range(n):
            y, m, d = rng.randint(1900, 2100), rng.randint(1, 12), rng.randint(1, 28)
            instants.append((days_from_civil(y, m, d), rng.randrange(86400)))
        base = "%04d-%02d-%02d %02d:%02d:%02d"
        for _ in range(n):
            s = list(base % (rng.randint(1000, 9999), rng.randint(0, 13), rng.randint(0, 32), rng.randint(0, 25),
                             rng.randint(0, 61), rng.randint(0, 61)))
            how = rng.randrange(5)
            if how == 0:
                s = s[:rng.randint(0, 19)]
            elif how == 1:
                s[rng.randrange(len(s))] = rng.choice("x-+ :/T9中\U0001f600")
            elif how == 2:
                s = s[:10]
            elif how == 3:
                s.insert(rng.randrange(len(s)), rng.choice("0- é"))
            strings.append([ord(c) for c in s])
    else:
        pools = [list(range(32, 127)), list(range(0xA1, 0x100)), list(range(0x4E00, 0x4E80)),
                 [0x1F600, 0x1F601, 0x20000, 0x10000, 0x10FFFF], [0xFFFF, 0xD7FF, 0xE000, 0x7FF, 0x800]]
        for _ in range(n):
            ln = rng.randint(0, 7)
            weights = rng.choice([[8, 0, 0, 0, 0], [4, 1, 2, 1, 1], [1, 0, 3, 2, 0], [2, 1, 1, 3, 1]])
            s = []
            for _ in range(ln):
                pool = rng.choices(pools, weights)[0]
                s.append(rng.choice(pool))
            strings.append(s)
        for _ in range(n):
            v = rng.choice([rng.randrange(-2 ** 63, 2 ** 63), rng.randrange(-5000, 5000), rng.randrange(-2 ** 33, 2 ** 33)])
            ints.append(("TRUE" if v < 0 else "FALSE", [int(c) for c in str(abs(v))]))
        if fam == "mycat":
            for _ in range(2):
                murmur.append((rng.randrange(-2 ** 31, 2 ** 31), rng.choice([1, 2, 3, 5]), rng.randint(1, 9)))
    return {"strings": strings, "ints": ints, "instants": instants, "murmur": murmur}


def merge_extra(a, b):
    return {k: a[k] + b[k] for k in a}


def render_extra(x):
    return EXTRA_TLA % {
        "strings": ", ".join(tla_tuple(s) for s in x["strings"]),
        "ints": ", ".join("<<%s, %s>>" % (neg, tla_tuple(ds)) for neg, ds in x["ints"]),
        "instants": ", ".join(tla_tuple(p) for p in x["instants"]),
        "murmur": ", ".join(tla_tuple(p) for p in x["murmur"]),
    }


FAMILIES = {"range": ["range"], "date": ["date_year", "date_month", "date_day"],
            "mycat": ["mycat_mod", "mycat_long", "mycat_string", "mycat_murmur"]}


def generate(ctx, fam, prop, wide, tzs, extra, timeout=900, label=None, xss=None):
    """TLC enumerates (rule, zone, item) states of RoutingPlace_gen, checks the specification's own properties on each
    and prints the cases with the expected placement.  Returns the flattened case list."""
    types = FAMILIES.get(fam) or fam.split("+")
    cfg = GEN_CFG % {"types": ", ".join('"%s"' % t for t in types), "wide": "TRUE" if wide else "FALSE", "tzs": ", ".join(str(z + 86400) for z in tzs)}
    r = ctx.tlc("RoutingPlace_gen", "place_gen.cfg",
                extra_files={"place_gen.cfg": cfg, "RoutingPlaceExtra.tla": render_extra(extra)}, workers=1, timeout=timeout,
                heap="4g", xss=xss, label=label or ("generate %s cases (wide=%s)" % (fam, wide)))
    if not r.cases:
        raise vlib.Inconclusive("TLC generated no %s cases" % fam)
    if len(r.cases) != r.distinct:
        raise vlib.Inconclusive("TLC printed %d case records for %d distinct states" % (len(r.cases), r.distinct))
    out = []
    for v in r.cases:
        if v["item"] == "layout":
            out.append({"prop": prop, "rule": v["rule"], "tz": v["tz"], "item": "layout", "layout": v["layout"]})
        else:
            for c in v["cases"]:
                out.append({"prop": prop, "rule": v["rule"], "tz": v["tz"], "item": v["item"], "key": c["key"],
                            "exp": c["exp"], "cls": c["cls"], "slice": c["slice"], "db": c["db"]})
    ctx.log("TLC: %s family, %d states, %d cases, %.1fs" % (fam, r.distinct, len(out), r.wall))
    return out


def case_of_result(cases, res):
    return cases[res["case"]] if 0 <= res.get("case", -1) < len(cases) else None


def corrupted(cases):
    """binding self-test input: copies of real cases with a corrupted expectation"""
    import copy
    bad = []
    for c in cases:
        if c.get("item") != "layout" and c["exp"]["t"] == "table" and c["key"]["kind"] != "str":
            x = copy.deepcopy(c)
            x["exp"]["idx"] += 1
            bad.append(x)
            break
    for c in cases:
        if c.get("item") != "layout" and c["exp"]["t"] == "table":
            x = copy.deepcopy(c)
            x["exp"] = {"t": "reject"}
            bad.append(x)
            break
    for c in cases:
        if c.get("item") == "layout" and len(c["layout"]["subtables"]) > 1:
            x = copy.deepcopy(c)
            x["layout"]["subtables"] = x["layout"]["subtables"][:-1]
            bad.append(x)
            break
    return bad


def replay(ctx, cases, selftest=False):
    """G: run the cases on the real code; every disagreement becomes a deviation classified by its signature.
    With selftest, corrupted copies of three cases ride along (same process, same harness): each must be reported
    by the harness, and they are kept out of the verdict."""
    bad = corrupted(cases) if selftest else []
    allc = cases + bad
    for i, c in enumerate(allc):
        c["id"] = i
    res, summ, out = ctx.harness(PKG, HARNESS, RUN, allc)
    if summ["cases"] != len(allc):
        raise vlib.Inconclusive("harness replayed %d of %d cases" % (summ["cases"], len(allc)))
    flagged = set()
    for r in res:
        if r.get("case", -1) >= len(cases):
            if r.get("devs"):
                flagged.add(r["case"])
            continue
        c = case_of_result(cases, r)
        mini = None
        if c is not None:
            mini = {k: c[k] for k in c if k != "id"}
        for d in r.get("devs", []):
            ctx.deviation(d["sig"], d["what"], {"kind": "place", "case": mini, "obs": r.get("obs")})
    if selftest:
        ctx.cov["binding_selftest"] = {"corrupted_expectations": len(bad), "detected": len(flagged)}
        if len(bad) < 2 or len(flagged) != len(bad):
            raise vlib.Inconclusive("binding self-test failed: %d corrupted expectations, %d detected" % (len(bad), len(flagged)))
    ctx.cov["traces_validated_against_impl"] += len(cases)
    ctx.cov["evaluations"] += summ.get("evaluations", 0)
    for k, v in summ.items():
        if k.startswith("n_") or k == "rules_built":
            ctx.cov[k] = ctx.cov.get(k, 0) + v
    return summ


def sample(ctx, c):
    if c.get("item") == "layout":
        ctx.sample({"rule": c["rule"], "layout": c["layout"]})
    else:
        ctx.sample({"rule": c["rule"], "tz": c["tz"], "key": show_key(c["key"]), "key_class": c["cls"],
                    "expected": c["exp"], "slice": c["slice"], "db": c["db"]})


def run_replay_file(ctx):
    rec = ctx.read_ndjson(ctx.replay)[0]
    c = rec["case"]
    if c.get("kind") == "place":
        replay(ctx, [dict(c["case"])])
        return True
    return False


def parallel(jobs, max_workers=3):
    """run independent TLC jobs (callables) concurrently; results in job order; the first failure is re-raised"""
    from concurrent.futures import ThreadPoolExecutor
    with ThreadPoolExecutor(max_workers=max_workers) as ex:
        futs = [ex.submit(j) for j in jobs]
        return [f.result() for f in futs]
