"""C18 - A transaction stays on one master connection per slice.

Specification: spec/SessionConn.tla, SessionConn_gen.tla, SessionConn_trace.tla (shared with the other two properties of
the family; see checks/_sessionconn.py).  Binding: G (TLC behaviours replayed on the real Session / SessionExecutor over
fake pools, projection compared after every command, ledger monitors) and V (ledgers validated by TLC).
Only deviations whose signature starts with "C18" are verdicts of this check.
"""
import _sessionconn as sc

MANIFEST = sc.manifest("C18", "C18: statements inside a transaction run on the transaction's master connection of their slice, COMMIT/ROLLBACK reach exactly the transaction's connections, which are then released.")


def run(ctx):
    sc.Family(ctx).run()
