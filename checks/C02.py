"""C02 - a cross-shard SELECT returns what one database holding all shards would return.

Specification: spec/Relational.tla (Answer, Conforms, Place, the query grammar), Relational_gen.tla.
Binding: G.  TLC enumerates the SELECT grammar (projection, DISTINCT, WHERE, COUNT/SUM/MAX/MIN [DISTINCT],
GROUP BY, ORDER BY, LIMIT [OFFSET], UNION [ALL]) x table contents x rule configurations and prints every case with
Answer(q, AllRows); the harness renders the query, runs plan.BuildPlan + Plan.ExecuteIn on a fake backend that
evaluates every rewritten per-shard statement on that physical table's rows, and compares the merged result with
TLC's answer (bag, and order wherever ORDER BY determines it).
"""
import copy
import json

import _relational as rel

MANIFEST = {
    "engine": "tla-relational",
    "level_claimed": {
        "category": "model_checking",
        "text": "TLC evaluates the single-database semantics Answer(q, rows) of spec/Relational.tla (three-valued WHERE, "
                "aggregates incl. DISTINCT forms, GROUP BY, ORDER BY with NULL first, LIMIT/OFFSET, SELECT DISTINCT, UNION [ALL]) "
                "for every query of a finite grammar it enumerates, on hand-made and seeded table contents placed by the rule's "
                "Place over 2-4 tables on 1-2 slices (mod, hash, range), checks properties of the specification itself on every "
                "case (placement partitions the rows, a canonical answer conforms to itself, LIMIT bound, DISTINCT has no "
                "duplicates, one row per group, a pure filter query decomposes over the tables, and the table-by-table merge recipe "
                "MergePlain / MergeGrouped - per-table top rows, partial aggregates for select list and ORDER BY items, NULL-aware "
                "combination - yields the answer for every query without COUNT/SUM(DISTINCT)) and emits the case; each case is "
                "replayed on the real plan.BuildPlan / SelectPlan.ExecuteIn / UnionPlan.ExecuteIn / MergeSelectResult with a fake "
                "backend and the merged mysql.Result must conform to TLC's answer.",
        "design_ref": "DESIGN.md section 5 C02, section 4.1 Relational",
    },
    "level_note": "Schema t(id, g, v) only; collation is byte order (binary); numbers are fixed point in tenths (exactly representable "
                  "decimals), the value column is DECIMAL(10,1), DOUBLE, VARCHAR or BIGINT by configuration (BIGINT values of extreme magnitude are handled by rank, so no SUM on them); rules mod / hash / range with "
                  "1-2 slices and 2-4 tables (date and mycat rules: placement is C08/C09's subject and is not repeated here); no "
                  "joins, no subqueries, no HAVING, no aliases and no positional ORDER BY, WHERE of at most two leaves (comparison, IS [NOT] NULL, [NOT] IN of two values, [NOT] BETWEEN) joined by AND / OR; the final result is handed back to mysql.ResultPool after it is read, as the client connection does; the "
                  "backend is an environment model (per-shard SQL parsed by the repository's parser and evaluated by a Go "
                  "transliteration of Answer that is compared with TLC's Answer on every case); where MySQL leaves the result open "
                  "(row order without ORDER BY, ties, LIMIT without a total order) every admissible result is accepted; a statement "
                  "rejected with an error conforms (counted in the evidence; more than 20% rejections make the run inconclusive).",
    "technique": "TLA+ spec of the relational semantics + TLC-enumerated cases with the specification's answer, replayed on the "
                 "real planner and merger through a fake plan.Executor",
}

FAMS_SMALL = ["plain", "agg", "union"]


def nontrivial(c):
    if c["fam"] not in ("plain", "agg", "group", "union"):
        return False
    q = c["q"]
    if len(set(c["place"])) < 2 or not c["want"]["pool"]:
        return False
    if q["kind"] == "union":
        return True
    return bool(q["distinct"] or q["group"] or q["order"] or q["cnt"] >= 0 or any(it["f"] != "col" for it in q["sel"]))


def check_summary(ctx, summ, total):
    import vlib
    ok = summ.get("n_ok", 0)
    dev = summ.get("n_deviation", 0)
    rej = summ.get("n_rejected-plan", 0) + summ.get("n_rejected-exec", 0)
    ctx.cov["evaluations"] += ok + dev
    ctx.cov["traces_validated_against_impl"] += total
    ctx.cov["compared_with_answer"] = ctx.cov.get("compared_with_answer", 0) + ok + dev
    ctx.cov["conforming"] = ctx.cov.get("conforming", 0) + ok
    ctx.cov["rejected_by_proxy"] = ctx.cov.get("rejected_by_proxy", 0) + rej
    if total > 50 and rej > 0.2 * total:
        raise vlib.Inconclusive("%d of %d statements were rejected by the proxy: too few comparisons to mean anything" % (rej, total))


def run(ctx):
    import vlib
    ctx.assumptions += [
        "collation is byte order; numbers are exact decimals in tenths; backend delivers DECIMAL as decimal.Decimal, DOUBLE as float64, "
        "integers as int64, strings as string (mysql.RowData.ParseText of the repository)",
        "the fake backend returns rows of unordered queries in table order and breaks ORDER BY ties in table order; results of the "
        "physical tables are handed to the merger in slice / table order",
        "placement of the specification is compared with the rule's FindTableIndex on every row (a disagreement is inconclusive here)",
    ]
    if ctx.replay:
        case = rel.load_replay(ctx)
        # twice: a deviation that needs state left behind by an earlier statement (pooled result objects) shows on the second run
        p = ctx.write_ndjson("replay.ndjson", [case, case])
        rel.replay(ctx, "C02", p, 2)
        return

    thorough = ctx.thorough
    # 1. the specification alone: properties of Answer on a slice of the grammar, with coverage
    #    (thorough tier only: -coverage is slow on this module; the generation runs below check the same properties on every case)
    if thorough:
        r = rel.generate(ctx, None, ["plain", "agg", "group", "union"], 199, 1, 12, "SpecProps only, with coverage",
                         inv="SpecProps", coverage=True, module="Relational", timeout=1500)
        if r.zero_actions:
            ctx.notes.append("vacuous actions: %s" % r.zero_actions)

    # 2. generation
    gen = rel.Gen(ctx, "c02-cases.ndjson", nontrivial)
    if thorough:
        plans = [(FAMS_SMALL, 1, 12, 60), (["group"], 1, 2, 60)]
    else:
        plans = [(FAMS_SMALL, 1, 2, 30), (["group"], 8, 1, 30)]
    for fams, mod, reps, ngen in plans:
        rel.generate(ctx, gen, fams, mod, reps, ngen, "generate " + "+".join(fams), timeout=2400)
    generated = gen.n
    known = vlib.known_replay_cases("C02")
    for k in known:
        gen.add(k)
    gen.close()
    if generated < 500:
        raise vlib.Inconclusive("only %d cases generated" % generated)
    ctx.cov["cases_by_family"] = dict(gen.by_fam)
    ctx.cov["distinct_nontrivial"] = len(gen.nontriv)
    ctx.cov["rule"] = ("case = (rule configuration, table content, query record) enumerated by TLC with Answer; non-trivial = rows on at "
                       "least two physical tables, a non-empty answer and at least one of DISTINCT / GROUP BY / aggregate / ORDER BY / "
                       "LIMIT / UNION; distinct by (configuration, rows, query, spelling)")
    for s in gen.samples[:4]:
        ctx.sample(s)

    # 3. replay on the real planner / merger
    summ, _ = rel.replay(ctx, "C02", gen.path, gen.n)
    ctx.log("harness:", {k: v for k, v in summ.items() if k.startswith("n_")})
    check_summary(ctx, summ, gen.n)
    ctx.cov["known_finding_cases_replayed"] = len(known)

    # 4. binding self-test
    base = None
    for c in ctx.read_ndjson(gen.path)[:4000]:
        q = c["q"]
        if c["fam"] == "plain" and q["cnt"] < 0 and len(c["want"]["pool"]) >= 1 and c["cfg"]["vt"] != "decimal":
            base = c
            break
    if base is None:
        raise vlib.Inconclusive("no case suitable for the binding self-test")
    # (a) the statement sent to the proxy differs from the one the expectation belongs to
    c1 = copy.deepcopy(base)
    c1["sql"] = "SELECT %s%s FROM tbl_r WHERE id < 0" % ("DISTINCT " if c1["q"]["distinct"] else "", ", ".join(it["c"] for it in c1["q"]["sel"]))
    # (b) a corrupted expectation is noticed by the environment-model cross-check
    c2 = copy.deepcopy(base)
    c2["want"]["pool"][0][0] += 10
    got = rel.selftest(ctx, [c1, c2])
    caught_a = any(s.startswith("C02 row-count") for s in got[0][0])
    caught_b = "model-mismatch" in got[1][1]
    ctx.cov["binding_selftest"] = {"changed_statement_detected": caught_a, "corrupted_expectation_detected": caught_b}
    if not (caught_a and caught_b):
        raise vlib.Inconclusive("binding self-test failed: %s" % ctx.cov["binding_selftest"])
