"""C06 - the fast unsharded path never bypasses sharding.

Specification: spec/StmtPolicy.tla part 2 (ParserSaysSharded, FastPathAllowed), spec/StmtPolicy_unshard_gen.tla.
Binding: G.  TLC enumerates statement descriptors (kind, session database: rule database / other / none, 1..3 table references with class,
letter case, qualification, back-quotes, glued comment / line break, alias, position) and prints ParserSaysSharded(d);
the Go harness renders the statement, asks the real parser based analysis (parser + plan.Checker / plan.BuildPlan, the
reference the property names), calls SessionExecutor.preBuildUnshardPlan on the same text / db / router and also
sends the text through ExecuteCommand to see whether it is forwarded unrewritten to the default slice.
"""
import _policy as P

MANIFEST = {
    "engine": "tla-stmtpolicy",
    "level_claimed": {
        "category": "model_checking",
        "text": "TLC enumerates every statement descriptor over SELECT/DELETE/UPDATE/INSERT/REPLACE with up to three table "
                "references, exactly one of which names a table with a routing rule (sharded, linked or global) in every "
                "combination of letter case, qualification (none / rule database / other database), back-quotes, glued comment "
                "/ tab / line break before or after the name, alias and syntactic position (first, after comma, JOIN, "
                "subquery, second FROM / INSERT..SELECT), for sessions in the rule database, in another database and without a database (three references: at most one "
                "decoration; quick: at most one decoration and two references plus a seeded sample); TLC checks that decorations, "
                "order and unsharded references do not change ParserSaysSharded and emits it with each descriptor; each "
                "descriptor is rendered to SQL and on the real code plan.Checker / plan.BuildPlan (reference) is compared "
                "with preBuildUnshardPlan and with what ExecuteCommand forwards to the fake default slice.",
        "design_ref": "DESIGN.md section 5 C06, section 4.1 StmtPolicy",
    },
    "level_note": "Rendering descriptor -> SQL is done in Go and is not an oracle. The specification's ParserSaysSharded is "
                  "cross-checked against the real plan.Checker on every case (a disagreement makes the run inconclusive, "
                  "not a violation). One routing configuration (mod rule, linked child, global table, two slices).",
    "technique": "TLA+ descriptor model + TLC enumeration; TLC-emitted descriptors replayed on preBuildUnshardPlan, "
                 "plan.Checker/BuildPlan and SessionExecutor.ExecuteCommand with fake pools",
}


def run(ctx):
    import vlib
    ctx.assumptions += [
        "the parser based decision is plan.Checker.IsShard() on the parsed statement (what plan.BuildPlan uses)",
        "fast path taken = preBuildUnshardPlan returns true, or ExecuteCommand sends the original text to a backend",
        "one routing configuration: db_ks.tbl_ks (mod), tbl_ks_child (linked), tbl_global (global); t1..t3 unsharded",
    ]
    if ctx.replay:
        rec = ctx.read_ndjson(ctx.replay)[0]
        P.un_check(ctx, [P.un_clean(rec["case"])])
        return
    r = P.un_generate(ctx, "thorough", 0) if ctx.thorough else P.un_generate(ctx, "quick", 150)
    cases = [P.un_clean(c) for c in r.cases]
    seen = set(vlib.json.dumps(c, sort_keys=True) for c in cases)
    for c in vlib.known_replay_cases("C06"):
        k = vlib.json.dumps(P.un_clean(c), sort_keys=True)
        if k not in seen:
            seen.add(k)
            cases.append(P.un_clean(c))
    sharded = [c for c in cases if c["sharded"]]
    ctx.log("TLC emitted", len(r.cases), "descriptors;", len(sharded), "are sharded by the parser based analysis")
    plain = next(c for c in cases if c["sharded"] and len(c["refs"]) == 1 and not P.un_view(c)[2] and c["kind"] == "select")
    devs, summ = P.un_check(ctx, cases, selftest=next(c for c in cases if not c["sharded"] and len(c["refs"]) == 1))
    ctx.cov["distinct_nontrivial"] = len(set(P.un_view(c) for c in sharded if P.un_view(c)[2]))
    ctx.cov["rule"] = ("distinct (kind, session db, target class, target decorations, arrangement of references) of descriptors "
                       "the parser based analysis plans as sharded, with at least one decoration or more than one reference")
    ctx.cov["sharded_cases"] = len(sharded)
    for c in sharded[:: max(1, len(sharded) // 5)][:5]:
        ctx.sample(c)
    oc = ctx.cov.get("outcomes", {})
    if not oc.get("sharded/full") or not oc.get("unsharded/fast"):
        raise vlib.Inconclusive("vacuous run: no sharded statement went through full planning or no unsharded one took the fast path")
