"""C34 - global sequence values are never issued twice (proxy/sequence/mysql.go).

Specification: spec/Sequence.tla (sequence row + stored function, 1-3 allocators with curr/max/mutex, fetch outcome
classes; P-level monitors Distinct / Increasing / BadFetchFails), Sequence_gen.tla (schedules), Sequence_trace.tla
(P-level trace validation).
Binding: G = TLC-generated schedules (who calls NextSeq where, in which order the database serves outstanding block
fetches, with which outcome) imposed on real MySQLSequence objects that share one fake sequence row behind fake
master pools; V = free-running goroutines on the real objects, call/fetch/ret events validated by TLC.
"""
import copy
import json

import vlib

import _control as K

MANIFEST = {
    "engine": "tla-sequence",
    "level_claimed": {
        "category": "model_checking",
        "text": "TLC exhaustively checks, for 1-3 allocators, 1-2 concurrent sessions per allocator, block sizes 1-3 "
                "(thorough 5), up to 8 NextSeq calls and 15 fetch outcome classes, that the allocation algorithm with the "
                "intended reply handling never issues a value twice, issues increasing values per allocator and fails on "
                "every bad fetch (the reply handling of the code since fix d955582); a deliberately weaker algorithm "
                "(mutex not held across the fetch) yields counterexamples that are imposed as probe schedules, which the "
                "real allocator must refuse.  All schedules TLC enumerates up to a request bound plus seeded "
                "simulated longer ones are imposed on real MySQLSequence objects sharing one fake sequence row (fetches "
                "parked inside ConnPool.Get and served in the schedule's order); recorded goroutine runs are validated "
                "by TLC against the property-level trace specification.",
        "design_ref": "DESIGN.md section 5 C34, section 4.1 Sequence",
    },
    "level_note": "The database is the specification's model of the stored function mycat_seq_nextval of docs/sequence-id.md "
                  "(one atomic UPDATE+SELECT, '-999999999,null' default), implemented by the harness' fake and cross-checked "
                  "reply by reply against TLC's; a real MySQL server is not involved.  The increment column is constant "
                  "during a run (the block layout of the algorithm is only collision-free for a non-decreasing increment; "
                  "changes of the increment are outside the property's quantifier).  Mutex waiting is modelled as 'Begin "
                  "not yet enabled'; schedules keep at most one waiter per allocator.  64-bit overflow is not modelled "
                  "(TLC integers are 32 bit; replay adds a seeded base offset up to 2^40).  plan_insert.go's use of NextSeq "
                  "is covered only through NextSeq's contract (an error aborts the insert).",
    "technique": "TLA+ spec + TLC exhaustive check; TLC-generated schedules replayed on the real MySQLSequence; "
                 "recorded goroutine traces validated by TLC",
}

ALL_OUTCOMES = ["ok", "err_get", "err_usedb", "err_exec", "err_applied", "missing", "nan_cur", "nan_inc", "nan_both",
                "zero_inc", "neg_inc", "fields1", "fields3", "norows", "null"]
HANDLED = ["ok", "err_get", "err_usedb", "err_exec", "err_applied", "fields1", "fields3", "norows", "null"]
BAD_PARSE = ["missing", "nan_cur", "nan_inc", "nan_both", "zero_inc", "neg_inc"]
REPR = ["ok", "err_exec", "err_applied", "missing", "nan_cur", "nan_inc", "zero_inc", "neg_inc", "fields1"]

CFG = """SPECIFICATION %(spec)s
CONSTANTS
  Allocs = %(allocs)s
  K = %(k)d
  Inc = %(inc)d
  Start = %(start)d
  MaxReq = %(req)d
  MaxLimit = %(limit)d
  Strict = %(strict)s
  HoldLock = %(hold)s
  Outcomes = %(outcomes)s
%(extra)s
INVARIANTS %(inv)s
%(post)s
CHECK_DEADLOCK FALSE
"""

HARNESS = ["proxy/sequence/sequence_test.go"]
PKG = "proxy/sequence"
NAN_TEXTS = ["abc", "", "null", "1e3", "12abc", " 7", "0x1F", "NaN", "9223372036854775808"]


def cfg(spec="Spec", allocs=2, k=1, inc=2, start=10, req=4, limit=0, strict=True, outcomes=ALL_OUTCOMES,
        inv="TypeOK Distinct Increasing BadFetchFails BlocksDisjoint", extra="", post="", hold=True):
    return CFG % dict(spec=spec, allocs=K.tla_set(["a%d" % (i + 1) for i in range(allocs)]), k=k, inc=inc, start=start,
                      req=req, limit=limit, strict="TRUE" if strict else "FALSE", hold="TRUE" if hold else "FALSE",
                      outcomes=K.tla_set(outcomes),
                      inv=inv, extra=extra, post=post)


def nontrivial(c):
    """a schedule is non-trivial when two allocators have fetches outstanding at the same time or a session waits
    for an allocator's mutex, and at least one fetch is not plain ok"""
    out = set()
    overlap = False
    waits = False
    notok = False
    held = set()
    for e in c["events"]:
        k = (e["a"], e["g"])
        if e["ev"] == "begin":
            held.add(e["a"])
            if e["to"] == "fetch":
                out.add(k)
                if len({x[0] for x in out}) > 1:
                    overlap = True
        elif e["ev"] == "start":
            if e["a"] in held:
                waits = True
        elif e["ev"] == "fetch":
            if e["o"] != "ok":
                notok = True
        elif e["ev"] == "ret":
            out.discard(k)
            held.discard(e["a"])
    return (overlap or waits) and notok


def concretise(ctx, cases, rng):
    bases = [0, 0, 1000, 1 << 33, 1 << 40]
    for c in cases:
        c["base"] = rng.choice(bases)
        c["nantext"] = rng.sample(NAN_TEXTS, 3)
        c["asbytes"] = rng.random() < 0.5
    return cases


def replay(ctx, cases, label):
    """G: impose the schedules on the real allocators."""
    if not cases:
        return None
    res, summ, out = ctx.harness(PKG, HARNESS, "^TestVerifSequenceReplay$", cases)
    K.require_counts(summ, len(cases), label)
    K.report(ctx, res, wrap=lambda obs: {"kind": "schedule", "case": obs})
    ctx.cov["evaluations"] += summ["cases"]
    ctx.cov.setdefault("schedules_replayed", 0)
    ctx.cov.setdefault("nextseq_calls_replayed", 0)
    ctx.cov.setdefault("fetches_served", 0)
    ctx.cov["schedules_replayed"] += summ["cases"]
    ctx.cov["traces_validated_against_impl"] += summ["cases"]  # TLC behaviours replayed on the real allocators, every result compared
    ctx.cov["nextseq_calls_replayed"] += summ["calls"]
    ctx.cov["fetches_served"] += summ["fetches"]
    K.drift_note(ctx, summ, label)
    return summ


def trace_cfg():
    return cfg(spec="TraceSpec", allocs=3, k=4, inc=1, start=0, req=0, outcomes=ALL_OUTCOMES,
               inv="TypeOK", post="POSTCONDITION TraceAccepted")


def trace_sig(rj, reasons):
    """classify a rejected trace by the reason the trace specification printed and the fetch outcome the call had seen"""
    ev = rj["event"]
    why = reasons.get((str(rj["trace"]), str(ev.get("a")), str(ev.get("g"))), rj["why"])
    cls = "none"
    evs = rj["events"]
    idx = rj["index"]
    for e in reversed(evs[:idx + 1]):
        if e["ev"] == "fetch" and e["a"] == ev.get("a") and e["g"] == ev.get("g"):
            cls = e["o"]
            break
        if e["ev"] == "call" and e["a"] == ev.get("a") and e["g"] == ev.get("g"):
            break
    if ev.get("ev") == "ret" and why == "BadFetchFails":
        return "C34 value issued after bad fetch: %s" % cls, why
    if ev.get("ev") == "ret" and why == "Distinct":
        return "C34 trace: duplicate value (last fetch of the call: %s)" % cls, why
    if ev.get("ev") == "ret" and why == "Increasing":
        return "C34 trace: value not increasing (last fetch of the call: %s)" % cls, why
    if ev.get("ev") == "fetch":
        return "C34 harness fake-database-differs (trace)", why
    return "C34 trace rejected at %s (%s)" % (ev.get("ev"), why), why


def run_traces(ctx, runs, label, max_rejects=5):
    """V: free-running goroutines on the real allocators; TLC validates the recorded events."""
    tp = ctx.path("trace-%s.ndjson" % label)
    res, summ, out = ctx.harness(PKG, HARNESS, "^TestVerifSequenceRun$", runs, env={"VERIF_TRACE_OUT": tp})
    K.require_counts(summ, len(runs), label)
    lines = [e for e in ctx.read_ndjson(tp) if not e.get("summary")]
    cap = K.capture_tlc(ctx)
    del cap[:]
    ok, rejected = ctx.validate_traces("Sequence_trace", "seq_trace.cfg", lines, cfg_text=trace_cfg(),
                                       max_rejects=max_rejects, timeout=600)
    reasons = K.reject_reasons(cap)
    ctx.cov["traces_validated_against_impl"] += ok + len(rejected)
    ctx.cov.setdefault("trace_events_validated", 0)
    ctx.cov["trace_events_validated"] += len(lines)
    ctx.cov.setdefault("goroutine_calls_recorded", 0)
    ctx.cov["goroutine_calls_recorded"] += summ["calls"]
    byid = {r["t"]: r for r in runs}
    for rj in rejected:
        sig, why = trace_sig(rj, reasons)
        if " harness " in sig:
            raise vlib.Inconclusive("%s: %s" % (sig, json.dumps(rj["event"], sort_keys=True)))
        ctx.deviation(sig, "TLC rejects the recorded run at event %d (%s): %s" % (
            rj["index"], why, json.dumps(rj["event"], sort_keys=True)),
            {"kind": "trace", "run": byid.get(rj["trace"]), "trace": rj["events"][:rj["index"] + 1]})
    return lines


def mk_runs(ctx, rng, n, thorough, bad=None, t0=0):
    runs = []
    for i in range(n):
        na = rng.choice([1, 2, 2, 3, 3])
        gor = rng.choice([2, 3, 4]) if na < 3 else rng.choice([2, 3])
        calls = rng.randint(10, 22) if not thorough else rng.randint(15, 40)
        w = {"ok": 70, "err_exec": 6, "err_get": 3, "err_usedb": 3, "err_applied": 6, "fields1": 3, "fields3": 2,
             "norows": 2, "null": 1}
        if bad:
            w = {"ok": 60, bad: 40}
        runs.append({"t": t0 + i, "allocs": ["a%d" % (j + 1) for j in range(na)], "gor": gor, "calls": calls,
                     "inc": rng.choice([1, 1, 2, 3]) if not thorough else rng.choice([1, 2, 3, 5]),
                     "start": rng.choice([0, 10, 1000]), "seed": rng.randrange(1, 2 ** 31),
                     "weights": w, "order": sorted(w), "yield": rng.random() < 0.5})
    return runs


def run(ctx):
    import vlib
    thorough = ctx.thorough
    rng = K.rng_for(ctx, "c34")
    ctx.assumptions += [
        "the stored function executes atomically (one UPDATE + SELECT in one statement) and the increment column does "
        "not change during a run",
        "the fake database behind ConnPool.Get/UseDB/Execute is the specification's database; each reply is compared "
        "with the reply TLC computed",
    ]
    if ctx.replay:
        rec = ctx.read_ndjson(ctx.replay)[0]
        c = rec["case"]
        if c.get("kind") == "schedule":
            replay(ctx, [c["case"]], "replay")
        elif c.get("kind") == "trace":
            if c.get("run"):
                # a goroutine run is not deterministic: execute the recorded run configuration several times
                for attempt in range(6):
                    rr = dict(c["run"])
                    rr["t"] = attempt
                    rr["seed"] = c["run"]["seed"] + attempt
                    run_traces(ctx, [rr], "replay%d" % attempt)
                    if ctx.violations or ctx.known_hits:
                        break
                else:
                    ctx.log("the recorded run configuration was executed 6 times without reproducing the rejection")
            else:
                ok, rej = ctx.validate_traces("Sequence_trace", "seq_trace.cfg", c["trace"], cfg_text=trace_cfg())
                for rj in rej:
                    ctx.deviation(trace_sig(rj, {})[0], "replayed trace rejected", c)
        return

    import os
    stages = set((os.environ.get("VERIF_STAGES") or "mc,asis,bfs,sim,trace,selftest").split(","))  # development aid
    # 1. exhaustive model check of the design with the intended reply handling (Strict)
    mcs = [dict(allocs=2, k=2, inc=2, req=4), dict(allocs=3, k=1, inc=1, req=3), dict(allocs=1, k=2, inc=3, req=8, limit=19)]
    if thorough:
        mcs = [dict(allocs=2, k=2, inc=2, req=6), dict(allocs=3, k=1, inc=1, req=5), dict(allocs=3, k=1, inc=2, req=6),
               dict(allocs=1, k=2, inc=3, req=8), dict(allocs=2, k=1, inc=3, req=8), dict(allocs=2, k=1, inc=5, req=8),
               dict(allocs=2, k=2, inc=1, req=5), dict(allocs=2, k=1, inc=3, req=7, limit=17),
               dict(allocs=3, k=2, inc=2, req=4)]
    for m in mcs if "mc" in stages else []:
        r = ctx.tlc("Sequence", "seq_mc.cfg", extra_files={"seq_mc.cfg": cfg(**m)}, coverage=(m is mcs[0]), timeout=1500,
                    label="exhaustive strict %s" % m)
        ctx.log("mc", m, r.stats(), "%.1fs" % r.wall)
        if r.zero_actions:
            ctx.notes.append("vacuous actions in %s: %s" % (m, r.zero_actions))

    # 2. the weaker algorithm (mutex not held across the fetch) violates the property: its counterexamples are the probes
    weak = {}
    for inv in (("Distinct", "Increasing") if thorough else ("Distinct Increasing",)) if "asis" in stages else ():
        r = ctx.tlc("Sequence", "seq_weak.cfg", extra_files={"seq_weak.cfg": cfg(allocs=1, k=2, inc=2, req=4, hold=False, outcomes=["ok"], inv=inv)},
                    allow_violation=True, timeout=600, label="mutex not held across the fetch, %s" % inv)
        weak[inv] = r.violated
    ctx.cov["weaker_algorithm_violates"] = weak
    ctx.log("weaker algorithm (HoldLock = FALSE):", weak)

    # 3. G: schedules
    nontriv = set()
    plans = [dict(allocs=2, k=1, inc=2, req=3, outcomes=["ok", "err_applied", "missing", "nan_cur", "zero_inc", "neg_inc"]),
             dict(allocs=2, k=2, inc=1, req=3, outcomes=["ok", "nan_inc"])]
    sims = [dict(allocs=3, k=2, inc=2, req=8, outcomes=ALL_OUTCOMES, num=80, limit=60)]
    if thorough:
        plans = [dict(allocs=2, k=1, inc=2, req=3, outcomes=[o for o in ALL_OUTCOMES if o not in ("err_get", "err_usedb", "null")]),
                 dict(allocs=2, k=1, inc=2, req=4, outcomes=["ok", "missing", "zero_inc"]),
                 dict(allocs=2, k=2, inc=1, req=3, outcomes=["ok", "missing", "err_exec"]), dict(allocs=3, k=1, inc=1, req=4, outcomes=["ok", "err_applied"]),
                 dict(allocs=1, k=2, inc=3, req=6, outcomes=["ok", "err_exec"]), dict(allocs=2, k=1, inc=3, req=6, outcomes=["ok"]),
                 dict(allocs=2, k=1, inc=5, req=6, outcomes=["ok", "fields1"], limit=27)]
        sims = [dict(allocs=3, k=2, inc=2, req=8, outcomes=HANDLED, num=900), dict(allocs=2, k=2, inc=3, req=8, outcomes=ALL_OUTCOMES, num=600),
                dict(allocs=3, k=1, inc=1, req=8, outcomes=HANDLED, num=600, limit=16), dict(allocs=3, k=2, inc=5, req=8, outcomes=HANDLED, num=600),
                dict(allocs=2, k=2, inc=1, req=8, outcomes=REPR, num=600)]
    stored = [c["case"] for c in K.stored_finding_cases("C34", "schedule")]
    pending = []          # quick tier: one harness run for all schedules (saves go test start-ups)

    def submit(cases, label):
        if thorough:
            replay(ctx, cases, label)
        else:
            pending.extend(cases)
    if stored:
        submit(copy.deepcopy(stored), "stored finding cases")
    sample_case = None
    for p in plans if "bfs" in stages else plans[:1]:
        lim = p.get("limit", 0)
        r = ctx.tlc("Sequence_gen", "seq_gen.cfg", workers=1, timeout=1200,
                    extra_files={"seq_gen.cfg": cfg(spec="GenSpec", allocs=p["allocs"], k=p["k"], inc=p["inc"], req=p["req"], limit=lim,
                                                   outcomes=p["outcomes"], inv="Emit Distinct Increasing BadFetchFails",
                                                   extra="  GenReq = %d" % p["req"])},
                    label="all schedules with %d calls %s" % (p["req"], p))
        cases = concretise(ctx, r.cases, rng)
        if not cases:
            raise vlib.Inconclusive("generation produced no schedules for %s" % p)
        ctx.log("generated", len(cases), "schedules", p)
        for c in cases:
            if nontrivial(c):
                nontriv.add(json.dumps(c["events"], sort_keys=True))
        ctx.sample(cases[len(cases) // 2])
        sample_case = sample_case or cases[len(cases) // 3]
        submit(cases, "bfs %s" % p)
    for s in sims if "sim" in stages else []:
        lim = s.get("limit", 0)
        r = ctx.tlc("Sequence_gen", "seq_gen.cfg", workers=1, mode="sim", sim="num=%d" % s["num"], depth=4 * s["req"] + 2,
                    seed=rng.randrange(1, 2 ** 31), timeout=600,
                    extra_files={"seq_gen.cfg": cfg(spec="GenSpec", allocs=s["allocs"], k=s["k"], inc=s["inc"], req=s["req"], limit=lim,
                                                   outcomes=s["outcomes"], inv="Emit Distinct Increasing BadFetchFails",
                                                   extra="  GenReq = %d" % s["req"])},
                    label="simulated schedules with %d calls" % s["req"])
        seen = set()
        cases = []
        for c in r.cases:
            k = json.dumps(c["events"], sort_keys=True)
            if k not in seen:
                seen.add(k)
                cases.append(c)
        if not cases:
            raise vlib.Inconclusive("simulation produced no schedules for %s" % s)
        cases = concretise(ctx, cases, rng)
        ctx.log("simulated", len(cases), "distinct schedules", s)
        for c in cases:
            if nontrivial(c):
                nontriv.add(json.dumps(c["events"], sort_keys=True))
        ctx.sample(cases[0])
        submit(cases, "sim %s" % {k: v for k, v in s.items() if k != "outcomes"})
    # probe schedules: behaviours of the weaker algorithm that end in a property violation.  The implementation must
    # refuse them (the second session of an allocator waits for the mutex); where it lets them happen the property
    # is judged on the values it returns.
    probes = []
    for pp in ([dict(allocs=2, k=2, inc=rng.choice([1, 2]), req=3)] if not thorough else
               [dict(allocs=1, k=2, inc=2, req=3), dict(allocs=1, k=2, inc=1, req=4), dict(allocs=2, k=2, inc=1, req=3), dict(allocs=2, k=2, inc=3, req=4)]):
        r = ctx.tlc("Sequence_gen", "seq_probe.cfg", workers=1, timeout=600,
                    extra_files={"seq_probe.cfg": cfg(spec="GenSpec", hold=False, outcomes=["ok"], inv="Emit", extra="  GenReq = %d" % pp["req"], **pp)},
                    label="probe schedules %s" % pp)
        cs = concretise(ctx, r.cases, rng)
        for c in cs:
            c["probe"] = True
        if not cs:
            raise vlib.Inconclusive("no probe schedules for %s" % pp)
        probes += rng.sample(cs, min(len(cs), 40 if thorough else 10))  # a refused probe costs a mutex-wait detection (~0.1 s)
    ctx.sample(probes[0])
    summ = None
    if thorough:
        summ = replay(ctx, probes, "probe schedules")
    else:
        pending.extend(probes)
    if pending:
        summ = replay(ctx, pending, "all generated schedules")
    ctx.cov["probe_schedules"] = {"replayed": summ.get("probes", 0), "refused_by_the_implementation": summ.get("probes_refused", 0),
                                  "imposed": summ.get("probes_imposed", 0)}
    if summ.get("probes", 0) != len(probes):
        raise vlib.Inconclusive("harness replayed %s of %d probe schedules" % (summ.get("probes"), len(probes)))
    ctx.cov["distinct_nontrivial"] = len(nontriv)
    ctx.cov["rule"] = ("schedules = event sequences start/begin/fetch(outcome)/ret over allocators and sessions enumerated by TLC "
                       "(all with a bounded number of calls, plus seeded simulation); non-trivial = two allocators have fetches "
                       "outstanding at the same time or a session waits for an allocator's mutex, and some fetch outcome is not ok")

    # 4. V: goroutine runs recorded and validated by TLC
    runs = mk_runs(ctx, rng, 10 if not thorough else 60, thorough)
    lines = run_traces(ctx, runs, "free")
    bad_classes = BAD_PARSE if thorough else rng.sample(BAD_PARSE, 1)
    bad_runs = []
    for i, b in enumerate(bad_classes):
        bad_runs += mk_runs(ctx, rng, 1, False, bad=b, t0=1000 + i)
    for c in K.stored_finding_cases("C34", "trace"):
        if c.get("run"):
            rr = dict(c["run"])
            rr["t"] = 2000 + len(bad_runs)
            bad_runs.append(rr)
    run_traces(ctx, bad_runs, "badfetch", max_rejects=len(bad_runs) + 1)

    # 5. binding self-test: a corrupted expectation and a corrupted trace must both be noticed
    bad = copy.deepcopy(sample_case)
    for e in bad["events"]:
        if e["ev"] == "ret" and e.get("ok"):
            e["v"] += 1
            break
    else:
        for e in bad["events"]:
            if e["ev"] == "ret":
                e["ok"] = True
                e["v"] = 5
                break
    sub = K.sub_ctx(ctx)
    try:
        res, summ, _ = sub.harness(PKG, HARNESS, "^TestVerifSequenceReplay$", [bad])
        caught_g = summ.get("drift", 0) > 0 or any(r.get("devs") for r in res)
        t2 = copy.deepcopy([e for e in lines if e["t"] == lines[0]["t"]])
        first = None
        caught_v = False
        for e in t2:
            if e["ev"] == "ret" and e["ok"]:
                if first is None:
                    first = e["v"]
                else:
                    e["v"] = first  # the same value handed out twice
                    break
        if first is not None:
            ok, rej = sub.validate_traces("Sequence_trace", "seq_trace.cfg", t2, cfg_text=trace_cfg(), max_rejects=1)
            caught_v = len(rej) > 0
    finally:
        sub.cleanup()
    ctx.cov["binding_selftest"] = {"corrupted_expectation_detected": caught_g, "corrupted_trace_rejected": caught_v}
    if not (caught_g and caught_v):
        raise vlib.Inconclusive("binding self-test failed: a corrupted case/trace was accepted (%s, %s)" % (caught_g, caught_v))
