"""C29 - credentials authenticate into exactly their own namespace, across reloads (UserManager / Manager / Session).

Specification: spec/Reload.tla, user-directory part: reference set of triples (namespace, user, password) derived from
the active configurations (P-level, PAuth), the abstract directory of the double buffer (udir) and the directory as the
code keeps it (cdir: password list per user + map "user:password" -> namespace, keys split on every ':').
Binding: G = TLC behaviours (well-formed reloads and deletes over credential scenarios whose names and passwords contain
':') replayed on a real Manager and on a bare UserManager; after every step every pair of the universe is probed through
CheckUser/CheckPassword/GetNamespaceByUser and through Session.handleHandshakeResponse + IsAllowConnect.
"""
import json
import random
import re

import _reload as R

MANIFEST = {
    "engine": "tla-reload",
    "level_claimed": {
        "category": "model_checking",
        "text": "TLC checks exhaustively, for every credential scenario of the run (hand-picked ones around ':' plus seeded random "
                "ones over the alphabet {a, a:b, b, :, a:, b:a}, user names shared between namespaces, pairs unique per "
                "namespace), that well-formed reloads and deletes keep the abstract user directory equal to the reference "
                "triples and change only the touched namespace's triples, and whether the directory as the code keeps it "
                "(joined keys split on every ':') answers like the reference; its counterexample is a candidate confirmed on "
                "the real code.  Every behaviour TLC enumerates up to a length bound (plus seeded longer random ones) is "
                "replayed on a real Manager and a bare UserManager, all pairs of the universe probed after every step and "
                "compared with the reference directory TLC printed.",
        "design_ref": "DESIGN.md section 5 C29, section 6",
    },
    "level_note": "SHA-1 scrambles are computed with the repository's mysql.CalcPassword on both sides of the probe (only the "
                  "native-password path is exercised; C30 covers the proofs themselves); Go's string join / split on ':' is an "
                  "abstract function in TLA+ instantiated as a table over the credentials of the run; 'authenticates' is what "
                  "Session.Handshake concludes: handleHandshakeResponse succeeds and IsAllowConnect finds the namespace.",
    "technique": "TLA+ spec + TLC exhaustive check; TLC-generated behaviours replayed on the real Manager / UserManager / Session",
}

INVS_ABS = ["TypeOK", "OneGeneration", "Refines", "OutcomeAllowed", "UsersRefine"]
PROPS = ["C31Step", "OnlyOwnTriples"]


def parse_candidate(trace_text):
    """TLC error trace -> (scenario, [(op, n, v)]).  TLC wraps long records over several lines."""
    sc = None
    m = re.search(r"/\\ sc = (\d+)", trace_text)
    if m:
        sc = int(m.group(1))
    ops = []
    for m in re.finditer(r"last =\s*\[(.*?)\]", trace_text, re.S):
        f = dict((x.group(1), x.group(2).strip('"')) for x in re.finditer(r'(\w+) \|-> ("[^"]*"|\w+)', m.group(1)))
        if f.get("op") and f["op"] != "init":
            ops.append((f["op"], f["n"], int(f["v"])))
    return sc, ops


def colon_case(case, table):
    """non-trivial: the behaviour loads, in two different namespaces, credentials of which at least one contains ':'"""
    sc = table["scenarios"][str(case["sc"])]
    touched = set()
    colon = False
    for s in case["steps"]:
        if s[0] == "prepare":
            touched.add(s[1])
            colon = colon or any(":" in u or ":" in p for u, p in sc[s[1]][str(s[2])])
    return colon and len(touched) > 1


def step_of(what):
    m = re.search(r"step (\d+)", what or "")
    return int(m.group(1)) if m else None


def _run(ctx):
    import vlib
    thorough = ctx.thorough
    rng = random.Random(ctx.seed)
    nv = 2
    # namespace names are opaque, case-sensitive keys: two differ only in letter case, one is a prefix of another
    names2, names3 = ["n1", "N1"], ["n1", "N1", "n10"]
    cov = ctx.cov
    ctx.assumptions += [
        "reload = ReloadNamespacePrepare followed by ReloadNamespaceCommit of the same namespace with nothing in between except "
        "submissions the proxy rejects (failing prepares of any namespace); C31 covers other orders",
        "a pair (user, password) belongs to at most one namespace at a time (the control plane's uniqueness rule): a configuration is "
        "submitted only when its pairs are free; pairs may move to another namespace after their owner dropped them or was deleted; "
        "user names are shared between namespaces; every configuration passes models.Namespace.Verify",
        "authentication = Session.Handshake's conclusion: CheckUser, CheckPassword (native), GetNamespaceByUser, namespace exists",
    ]

    if ctx.replay:
        rec = ctx.read_ndjson(ctx.replay)[0]["case"]
        res, summ = R.replay(ctx, "C29", [rec["case"]], rec["creds"], handshake_every=1, use_ptr=True)
        for x in res:
            x["_creds"] = rec["creds"]
        report(ctx, res, summ["sig_count"], rec["names"], rec["nv"])
        return

    def empty(names):
        return [[0] * len(names)]

    # ------------------------------------------------------------------ 1. model checking
    table = R.c29_table(rng, names2, 6 if thorough else 3)
    nsc = len(table["scenarios"])
    r1 = R.mc(ctx, names2, nv, table, empty(names2), True, False, INVS_ABS + ["CodeUsersRefine"], PROPS,
              "abstract and code-shaped (pair-keyed) user directory of the double buffer vs reference triples, %d credential "
              "scenarios" % nsc, allow_violation=True, exact_keys=True, with_bad=True)
    candidate = None
    if r1.violated:
        sc, ops = parse_candidate(r1.trace_text)
        candidate = {"violated": r1.violated, "sc": sc, "ops": ops}
        ctx.log("I-level counterexample (candidate): scenario", sc, table["scenarios"][str(sc)], ops)
    elif r1.zero_actions:
        ctx.notes.append("vacuous actions: %s" % r1.zero_actions)
    cov["model_checking"] = {"user_directory": {"violated": r1.violated, "distinct": r1.distinct}, "scenarios": nsc}
    if thorough:
        core3 = {"scenarios": {str(i + 1): sc for i, sc in enumerate(R.core_scenarios(names3))}, "extra": []}
        r3 = R.mc(ctx, names3, nv, core3, empty(names3), True, False, INVS_ABS + ["CodeUsersRefine"], PROPS,
                  "the same with 3 namespaces, hand-picked scenarios", exact_keys=True, with_bad=True)
        rh = R.mc(ctx, names2, nv, table, empty(names2), True, False, ["TypeOK", "CodeUsersRefine"], [],
                  "for the record: the directory as it was before fix f8962a4 (keys joined with ':' and split again)",
                  allow_violation=True)
        cov["model_checking"]["three_namespaces"] = r3.distinct
        cov["model_checking"]["joined_key_model_before_fix"] = {"violated": rh.violated, "distinct": rh.distinct}

    # ------------------------------------------------------------------ 2. G
    plans = [dict(names=names2, len=3, nrandom=3)]
    sims = []
    if thorough:
        plans = [dict(names=names2, len=4, nrandom=8), dict(names=names3, len=3, nrandom=4)]
        sims = [dict(names=names3, len=8, num=1500, nrandom=12)]
    known = [k for k in vlib.load_known("C29") if isinstance(k.get("case"), dict)]
    nontriv = 0
    total = 0
    first = True
    selftest = {}
    for p in plans + sims:
        sim = "num" in p
        names = p["names"]
        tb = table if (first and names == names2) else R.c29_table(rng, names, p["nrandom"])
        control = str(len(R.core_scenarios(names)))          # the last hand-picked scenario: no ':' anywhere
        label = ("simulate %d operations" if sim else "all behaviours of %d operations") % p["len"] + \
            ", %d namespaces, %d scenarios" % (len(names), len(tb["scenarios"]))
        kw = dict(mode="sim", sim="num=%d" % p["num"], depth=2 * p["len"] + 1, seed=rng.randrange(1, 2 ** 31)) if sim else {}
        path, n, _ = R.generate(ctx, names, nv, tb, empty(names), True, p["len"], True, label, exact_keys=True, with_bad=True, **kw)
        cand_at = None
        sab = None
        with open(path) as f:
            for line in f:
                c = json.loads(line)
                if colon_case(c, tb):
                    nontriv += 1
                if first and candidate and cand_at is None and c["sc"] == candidate["sc"]:
                    k = len(candidate["ops"])
                    if len(c["steps"]) >= k and all(tuple(c["steps"][j][:3]) == candidate["ops"][j] for j in range(k)):
                        cand_at = dict(c, steps=c["steps"][:k])
                if first and sab is None and str(c["sc"]) == control and c["steps"][0][:3] == ["prepare", "n1", 1] and \
                        c["steps"][1][0] == "commit":
                    sab = dict(c, steps=c["steps"][:2], sabotage="n1/1")
        if first:
            ctx.sample({"scenario_1": tb["scenarios"]["1"], "behaviour": json.loads(open(path).readline())})
        # appended to the first replay: TLC's candidate, the stored finding cases (each brings its scenario), the self-test case
        extra = []
        roles = []
        tbx = json.loads(json.dumps(tb))
        if first:
            if cand_at is not None:
                extra.append(cand_at)
                roles.append(("candidate", None))
            nxt = len(tbx["scenarios"]) + 1
            for k in known:
                kc = k["case"]
                tbx["scenarios"][str(nxt)] = kc["creds"]["scenarios"][str(kc["case"]["sc"])]
                extra.append(dict(kc["case"], sc=nxt))
                roles.append(("stored", k))
                nxt += 1
            if sab is not None:
                extra.append(sab)
                roles.append(("selftest", None))
        with open(path, "a") as f:
            for c in extra:
                f.write(json.dumps(c, separators=(",", ":")) + "\n")
        cp = ctx.write_ndjson("creds-%d.json" % len(cov["go_runs"]), [tbx])
        res, summ, _ = ctx.harness(R.PKG, R.HARNESS, R.RUN_REPLAY, path, env={
            "VERIF_RELOAD_CREDS": cp, "VERIF_RELOAD_PROP": "C29", "VERIF_RELOAD_HANDSHAKE_EVERY": 10 if thorough else 8,
            "VERIF_RELOAD_USE_PTR": 1, "VERIF_RELOAD_KEEP_FROM": n})
        if summ["cases"] != n + len(extra):
            raise vlib.Inconclusive("harness replayed %d of %d behaviours" % (summ["cases"], n + len(extra)))
        ctx.log(label, "->", n, "behaviours,", summ["deviating_cases"], "deviate; drift", summ["drift"], summ["auth_drift"])
        total += n
        cov["traces_validated_against_impl"] += n
        cov["evaluations"] += summ["probes"]
        for k in ("steps", "probes", "handshake_probes"):
            cov[k] = cov.get(k, 0) + summ.get(k, 0)
        if summ["drift"] or summ["auth_drift"]:
            ctx.notes.append("MODEL-DRIFT: the code left the I-level prediction (%d map, %d authentication answers), e.g. %s %s" % (
                summ["drift"], summ["auth_drift"], summ["drift_example"], summ["auth_drift_example"]))
            cov["model_drift"] = cov.get("model_drift", 0) + summ["drift"] + summ["auth_drift"]
        kept = sorted([x for x in res if "kept" in (x.get("tags") or [])], key=lambda x: x["case"])
        plainres = [x for x in res if "kept" not in (x.get("tags") or [])]
        if len(kept) != len(extra):
            raise vlib.Inconclusive("harness reported %d of %d appended behaviours" % (len(kept), len(extra)))
        counts = dict(summ["sig_count"])
        reportable = list(plainres)
        still = 0
        for x, (role, k) in zip(kept, roles):
            if role == "selftest":
                selftest["wrong_expectation_detected"] = any(
                    "configured pair of the changed namespace rejected" in d["sig"] for d in x.get("devs", []))
                for d in x.get("devs", []):
                    counts[d["sig"]] -= 1
                continue
            if role == "stored":
                x["obs"] = k["case"]["case"]
                x["_creds"] = k["case"]["creds"]
                still += 1 if x.get("devs") else 0
            elif role == "candidate":
                confirmed = bool(x.get("devs"))
                cov["ilevel_counterexample"] = {"invariant": candidate["violated"], "scenario": table["scenarios"][str(candidate["sc"])],
                                                "operations": ["%s(%s%s)" % (o[0], o[1], ",%d" % o[2] if o[2] else "") for o in candidate["ops"]],
                                                "confirmed_on_real_code": confirmed}
                if not confirmed:
                    ctx.notes.append("MODEL-DRIFT: TLC's counterexample for the code-shaped directory %s was replayed and the real code "
                                     "does NOT show it (cdir of spec/Reload.tla no longer describes UserManager)" % (candidate["ops"],))
            reportable.append(x)
        if first and candidate and not any(r == "candidate" for r, _ in roles):
            ctx.notes.append("TLC's counterexample was not among the generated behaviours and could not be replayed")
        for x in reportable:
            st = min([s for s in (step_of(d["what"]) for d in x.get("devs", [])) if s is not None] or [None], default=None)
            if st is not None and isinstance(x.get("obs"), dict):
                x["obs"] = dict(x["obs"], steps=x["obs"]["steps"][:st + 1])
            if isinstance(x.get("obs"), dict) and "_creds" not in x:
                x["_creds"] = {"scenarios": {str(x["obs"]["sc"]): tbx["scenarios"][str(x["obs"]["sc"])]}, "extra": tb["extra"]}
        report(ctx, reportable, {k: v for k, v in counts.items() if v > 0}, names, nv)
        if first and known:
            cov["stored_finding_cases"] = {"replayed": len(known), "still_deviating": still,
                                           "fixed_entries": sum(1 for k in known if k.get("status") == "fixed")}
            stale = [k["signature"] for k, x in zip(known, [x for x, (r, _) in zip(kept, roles) if r == "stored"])
                     if k.get("status", "known") == "known" and not x.get("devs")]
            if stale:
                ctx.notes.append("stored cases of findings still listed as known no longer deviate: %s" % stale)
        first = False

    cov["distinct_nontrivial"] = nontriv
    cov["rule"] = ("behaviours = sequences of reload(n, configuration) / rejected submission(n) / delete(n) enumerated by TLC per credential scenario (all of a "
                   "bounded length, plus seeded simulation in the thorough tier); non-trivial = two different namespaces are loaded and "
                   "at least one loaded credential contains ':'")
    cov["behaviours_replayed"] = total
    cov["binding_selftest"] = selftest
    if not selftest.get("wrong_expectation_detected"):
        raise vlib.Inconclusive("binding self-test failed: a proxy configured with another password than the reference believes was "
                                "not reported (%s)" % selftest)


def report(ctx, res, sig_count, names, nv):
    first = {}
    for r in res:
        for d in r.get("devs", []):
            if d["sig"] not in first:
                first[d["sig"]] = (d["what"], r.get("obs"), r.get("_creds"))
    for sig, n in sorted(sig_count.items()):
        what, case, creds = first.get(sig, ("", None, None))
        ctx.deviation(sig, what, {"kind": "behaviour", "names": names, "nv": nv, "creds": creds, "case": case})
        if n > 1:
            k = ctx.known_match(sig)
            if k is not None:
                ctx.known_hits[k["signature"]][1] += n - 1
            else:
                for v in ctx.violations:
                    if v["sig"] == sig:
                        v["count"] += n - 1


def run(ctx):
    """A violation already observed on the real code stands even when a later stage cannot be completed (e.g. the driver of
    the next stage dies on the same defect): the later failure is recorded as a note instead of turning the verdict into
    INCONCLUSIVE."""
    import vlib
    try:
        _run(ctx)
    except vlib.Inconclusive as e:
        if not ctx.violations:
            raise
        ctx.notes.append("a later stage was inconclusive after violations had been observed: %s" % str(e)[:600])
