"""C29 - credentials authenticate into exactly their own namespace, across reloads (UserManager / Manager / Session).

Specification: spec/Reload.tla, user-directory part: reference set of triples (namespace, user, password) derived from
the active configurations (P-level, PAuth), the abstract directory of the double buffer (udir) and the directory as the
code keeps it (cdir: password list per user + map "user:password" -> namespace, keys split on every ':').
Binding: G = TLC behaviours (well-formed reloads and deletes over credential scenarios whose names and passwords contain
':') replayed on a real Manager and on a bare UserManager; after every step every pair of the universe is probed through
CheckUser/CheckPassword/GetNamespaceByUser and through Session.handleHandshakeResponse + IsAllowConnect.
"""
import json
import random
import re

import _reload as R

MANIFEST = {
    "engine": "tla-reload",
    "level_claimed": {
        "category": "model_checking",
        "text": "TLC checks exhaustively, for every credential scenario of the run (hand-picked ones around ':' plus seeded random "
                "ones over the alphabet {a, a:b, b, :, a:, b:a}, user names shared between namespaces, pairs unique per "
                "namespace), that well-formed reloads and deletes keep the abstract user directory equal to the reference "
                "triples and change only the touched namespace's triples, and whether the directory as the code keeps it "
                "(joined keys split on every ':') answers like the reference; its counterexample is a candidate confirmed on "
                "the real code.  Every behaviour TLC enumerates up to a length bound (plus seeded longer random ones) is "
                "replayed on a real Manager and a bare UserManager, all pairs of the universe probed after every step and "
                "compared with the reference directory TLC printed.",
        "design_ref": "DESIGN.md section 5 C29, section 6",
    },
    "level_note": "SHA-1 scrambles are computed with the repository's mysql.CalcPassword on both sides of the probe (only the "
                  "native-password path is exercised; C30 covers the proofs themselves); Go's string join / split on ':' is an "
                  "abstract function in TLA+ instantiated as a table over the credentials of the run; 'authenticates' is what "
                  "Session.Handshake concludes: handleHandshakeResponse succeeds and IsAllowConnect finds the namespace.",
    "technique": "TLA+ spec + TLC exhaustive check; TLC-generated behaviours replayed on the real Manager / UserManager / Session",
}

INVS_ABS = ["TypeOK", "OneGeneration", "Refines", "OutcomeAllowed", "UsersRefine"]
PROPS = ["C31Step", "OnlyOwnTriples"]


def parse_candidate(trace_text):
    sc = None
    ops = []
    for line in trace_text.splitlines():
        m = re.match(r"^/\\ sc = (\d+)", line.strip())
        if m:
            sc = int(m.group(1))
        if "last = [" in line:
            f = dict((m.group(1), m.group(2).strip('"')) for m in re.finditer(r'(\w+) \|-> ("[^"]*"|\w+)', line))
            if f.get("op") and f["op"] != "init":
                ops.append((f["op"], f["n"], int(f["v"])))
    return sc, ops


def colon_case(case, table):
    """non-trivial: the behaviour loads, in two different namespaces, credentials of which at least one contains ':'"""
    sc = table["scenarios"][str(case["sc"])]
    touched = set()
    colon = False
    for s in case["steps"]:
        if s[0] == "prepare":
            touched.add(s[1])
            colon = colon or any(":" in u or ":" in p for u, p in sc[s[1]][str(s[2])])
    return colon and len(touched) > 1


def step_of(what):
    m = re.search(r"step (\d+)", what or "")
    return int(m.group(1)) if m else None


def run(ctx):
    import vlib
    thorough = ctx.thorough
    rng = random.Random(ctx.seed)
    nv = 2
    names2, names3 = ["n1", "n2"], ["n1", "n2", "n3"]
    cov = ctx.cov
    ctx.assumptions += [
        "reload = ReloadNamespacePrepare immediately followed by ReloadNamespaceCommit of the same namespace (C31 covers other orders)",
        "a pair (user, password) belongs to at most one namespace at a time (the control plane's uniqueness rule); user names are "
        "shared between namespaces; every configuration passes models.Namespace.Verify",
        "authentication = Session.Handshake's conclusion: CheckUser, CheckPassword (native), GetNamespaceByUser, namespace exists",
    ]

    if ctx.replay:
        rec = ctx.read_ndjson(ctx.replay)[0]["case"]
        res, summ = R.replay(ctx, "C29", [rec["case"]], rec["creds"], handshake_every=1, use_ptr=True)
        for x in res:
            x["_creds"] = rec["creds"]
        report(ctx, res, summ, rec["names"], rec["nv"])
        return

    def empty(names):
        return [[0] * len(names)]

    # ------------------------------------------------------------------ 1. model checking
    mc_names = names2
    table = R.c29_table(rng, mc_names, 6 if thorough else 3)
    nsc = len(table["scenarios"])
    plain = {"scenarios": {"1": R.core_scenarios(mc_names)[-1]}, "extra": []}
    r1 = R.mc(ctx, mc_names, nv, table, empty(mc_names), True, False, INVS_ABS, PROPS,
              "abstract directory of the double buffer vs reference triples, %d credential scenarios" % nsc)
    if thorough:
        core3 = {"scenarios": {str(i + 1): sc for i, sc in enumerate(R.core_scenarios(names3))}, "extra": []}
        R.mc(ctx, names3, nv, core3, empty(names3), True, False, INVS_ABS, PROPS,
             "abstract directory vs reference triples, 3 namespaces, hand-picked scenarios")
    r2 = R.mc(ctx, mc_names, nv, table, empty(mc_names), True, False, ["TypeOK", "CodeUsersRefine"], [],
              "directory as the code keeps it (keys joined and split on ':') vs reference", allow_violation=True)
    candidate = None
    if r2.violated:
        sc, ops = parse_candidate(r2.trace_text)
        candidate = {"violated": r2.violated, "sc": sc, "ops": ops}
        ctx.log("I-level counterexample (candidate): scenario", sc, table["scenarios"][str(sc)], ops)
    else:
        ctx.notes.append("the code-shaped directory answers like the reference in TLC for all scenarios: no candidate")
    r3 = R.mc(ctx, mc_names, nv, plain, empty(mc_names), True, False, ["TypeOK", "CodeUsersRefine", "UsersRefine"], PROPS,
              "control: credentials without ':' - the code-shaped directory must answer like the reference")
    r4 = R.mc(ctx, mc_names, nv, table, empty(mc_names), True, False, ["TypeOK", "CodeUsersRefine", "UsersRefine"], PROPS,
              "proposed repair (the key is the pair, nothing is split) vs reference", exact_keys=True)
    for rr in (r1, r3, r4):
        if rr.zero_actions:
            ctx.notes.append("vacuous actions: %s" % rr.zero_actions)
    cov["model_checking"] = {"abstract_directory": r1.distinct, "code_shaped_directory": {"violated": r2.violated, "distinct": r2.distinct},
                             "no_colon_control": r3.distinct, "proposed_fix": r4.distinct, "scenarios": nsc}

    # ------------------------------------------------------------------ 2. G
    plans = [dict(names=names2, len=4, nrandom=4)]
    sims = [dict(names=names3, len=6, num=60, nrandom=6)]
    if thorough:
        plans = [dict(names=names2, len=5, nrandom=8), dict(names=names3, len=3, nrandom=6)]
        sims = [dict(names=names3, len=8, num=1500, nrandom=12)]
    known_cases = [k["case"] for k in vlib.load_known("C29") if isinstance(k.get("case"), dict)]
    nontriv = 0
    total = 0
    first = True
    for p in plans + sims:
        sim = "num" in p
        names = p["names"]
        if first and names == mc_names:
            tb = table                      # the scenarios TLC just model-checked (so that the candidate can be looked up)
        else:
            tb = R.c29_table(rng, names, p["nrandom"])
        label = ("simulate %d operations" if sim else "all behaviours of %d operations") % p["len"] + \
            ", %d namespaces, %d scenarios" % (len(names), len(tb["scenarios"]))
        kw = dict(mode="sim", sim="num=%d" % p["num"], depth=2 * p["len"] + 1, seed=rng.randrange(1, 2 ** 31)) if sim else {}
        path, n, _ = R.generate(ctx, names, nv, tb, empty(names), True, p["len"], True, label, **kw)
        cand_at = None
        with open(path) as f:
            for line in f:
                c = json.loads(line)
                if colon_case(c, tb):
                    nontriv += 1
                if first and candidate and cand_at is None and c["sc"] == candidate["sc"]:
                    k = len(candidate["ops"])
                    if len(c["steps"]) >= k and all(tuple(c["steps"][j][:3]) == candidate["ops"][j] for j in range(k)):
                        cand_at = dict(c, steps=c["steps"][:k])
        if first:
            ctx.sample({"scenario_1": tb["scenarios"]["1"], "behaviour": json.loads(open(path).readline())})
        extra = [cand_at] if (first and cand_at is not None) else []
        n_extra_same_table = len(extra)
        with open(path, "a") as f:
            for c in extra:
                f.write(json.dumps(c, separators=(",", ":")) + "\n")
        cp = ctx.write_ndjson("creds-%d.json" % len(cov["go_runs"]), [tb])
        res, summ, _ = ctx.harness(R.PKG, R.HARNESS, R.RUN_REPLAY, path, env={
            "VERIF_RELOAD_CREDS": cp, "VERIF_RELOAD_PROP": "C29", "VERIF_RELOAD_HANDSHAKE_EVERY": 10 if thorough else 5,
            "VERIF_RELOAD_USE_PTR": 1, "VERIF_RELOAD_KEEP_FROM": n})
        if summ["cases"] != n + n_extra_same_table:
            raise vlib.Inconclusive("harness replayed %d of %d behaviours" % (summ["cases"], n + n_extra_same_table))
        ctx.log(label, "->", n, "behaviours,", summ["deviating_cases"], "deviate; drift", summ["drift"], summ["auth_drift"])
        total += n
        cov["traces_validated_against_impl"] += n
        cov["evaluations"] += summ["probes"]
        for k in ("steps", "probes", "handshake_probes"):
            cov[k] = cov.get(k, 0) + summ.get(k, 0)
        if summ["drift"] or summ["auth_drift"]:
            ctx.notes.append("MODEL-DRIFT: the code left the I-level prediction (%d map, %d authentication answers), e.g. %s %s" % (
                summ["drift"], summ["auth_drift"], summ["drift_example"], summ["auth_drift_example"]))
            cov["model_drift"] = cov.get("model_drift", 0) + summ["drift"] + summ["auth_drift"]
        kept = [x for x in res if "kept" in (x.get("tags") or [])]
        plainres = [x for x in res if "kept" not in (x.get("tags") or [])]
        for x in plainres + kept:
            st = min([s for s in (step_of(d["what"]) for d in x.get("devs", [])) if s is not None] or [None], default=None)
            if st is not None and isinstance(x.get("obs"), dict):
                x["obs"] = dict(x["obs"], steps=x["obs"]["steps"][:st + 1])
        # the stored case carries only its own scenario
        for x in plainres + kept:
            if isinstance(x.get("obs"), dict):
                x["_creds"] = {"scenarios": {str(x["obs"]["sc"]): tb["scenarios"][str(x["obs"]["sc"])]}, "extra": tb["extra"]}
        report(ctx, plainres + kept, summ, names, nv)
        if first and candidate:
            confirmed = bool(kept and kept[0].get("devs")) if cand_at is not None else False
            cov["ilevel_counterexample"] = {"invariant": candidate["violated"], "scenario": table["scenarios"][str(candidate["sc"])],
                                            "operations": ["%s(%s%s)" % (o[0], o[1], ",%d" % o[2] if o[2] else "") for o in candidate["ops"]],
                                            "confirmed_on_real_code": confirmed}
            if not confirmed:
                ctx.notes.append("MODEL-DRIFT: TLC's counterexample for the code-shaped directory %s was replayed and the real code does "
                                 "NOT show it (cdir of spec/Reload.tla no longer describes UserManager)" % (candidate["ops"],))
        first = False

    # ------------------------------------------------------------------ 3. stored finding cases + binding self-test
    # (one harness call: every stored case brings its own scenario, renumbered; plus the behaviours of a clean scenario)
    sc_clean = {"n1": {"1": [["a", "x"]], "2": [["a", "y"]]}, "n2": {"1": [["b", "x"]], "2": [["b", "y"]]}}
    tb_clean = {"scenarios": {"1": sc_clean}, "extra": []}
    path, n, _ = R.generate(ctx, names2, nv, tb_clean, empty(names2), True, 2, True, "self-test behaviours")
    clean_cases = ctx.read_ndjson(path)
    merged = {"scenarios": {"1": sc_clean}, "extra": [[u, p] for u in R.ALPHABET for p in R.ALPHABET]}
    batch = list(clean_cases)
    for i, kc in enumerate(known_cases):
        old = str(kc["case"]["sc"])
        merged["scenarios"][str(i + 2)] = kc["creds"]["scenarios"][old]
        batch.append(dict(kc["case"], sc=i + 2))
    cp = ctx.write_ndjson("creds-merged.json", [merged])
    res, summ, _ = ctx.harness(R.PKG, R.HARNESS, R.RUN_REPLAY, batch, env={
        "VERIF_RELOAD_CREDS": cp, "VERIF_RELOAD_PROP": "C29", "VERIF_RELOAD_HANDSHAKE_EVERY": 1, "VERIF_RELOAD_USE_PTR": 1,
        "VERIF_RELOAD_KEEP_FROM": 0})
    hit = 0
    for x in res:
        if x["case"] < len(clean_cases):
            x["_creds"] = tb_clean           # a clean scenario: any deviation here is an observation like any other
        else:
            kc = known_cases[x["case"] - len(clean_cases)]
            x["_creds"] = kc["creds"]
            x["obs"] = kc["case"]
            hit += 1 if x.get("devs") else 0
    if len(res) != len(batch):
        raise vlib.Inconclusive("harness reported %d of %d kept behaviours" % (len(res), len(batch)))
    report(ctx, res, summ, names2, nv)
    if known_cases:
        cov["stored_finding_cases"] = {"replayed": len(known_cases), "still_deviating": hit}
        if hit < len(known_cases):
            ctx.notes.append("%d of %d stored finding cases no longer deviate (fixed?)" % (len(known_cases) - hit, len(known_cases)))
    # the real proxy is configured with another password for configuration n1/1 than the reference believes
    res_bad, summ_bad = R.replay(ctx, "C29", path, tb_clean, use_ptr=True, extra_env={"VERIF_RELOAD_SABOTAGE": "n1/1"})
    st = {"wrong_expectation_detected": any("configured pair of the changed namespace rejected" in k for k in summ_bad["sig_count"])}
    cov["binding_selftest"] = st
    cov["distinct_nontrivial"] = nontriv
    cov["rule"] = ("behaviours = sequences of reload(n, configuration)/delete(n) enumerated by TLC per credential scenario (all of a "
                   "bounded length, plus seeded simulation); non-trivial = two different namespaces are loaded and at least one loaded "
                   "credential contains ':'")
    cov["behaviours_replayed"] = total
    if not all(st.values()):
        raise vlib.Inconclusive("binding self-test failed: %s" % st)


def report(ctx, res, summ, names, nv):
    sig_count = summ.get("sig_count", {})
    first = {}
    for r in res:
        for d in r.get("devs", []):
            if d["sig"] not in first:
                first[d["sig"]] = (d["what"], r.get("obs"), r.get("_creds"))
    for sig, n in sorted(sig_count.items()):
        what, case, creds = first.get(sig, ("", None, None))
        ctx.deviation(sig, what, {"kind": "behaviour", "names": names, "nv": nv, "creds": creds, "case": case})
        if n > 1:
            k = ctx.known_match(sig)
            if k is not None:
                ctx.known_hits[k["signature"]][1] += n - 1
            else:
                for v in ctx.violations:
                    if v["sig"] == sig:
                        v["count"] += n - 1
