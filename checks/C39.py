"""C39 - results are complete or an error, never silently truncated.

Specification: spec/Protocol.tla PART R (result delivery), Protocol_gen.tla, Protocol_trace.tla.
Binding: G - every case TLC enumerates is executed through the real proxy (fake MySQL backends over loopback,
real Server/Session/SessionExecutor/plan/Slice/pool/DirectConnection, a client counting rows);
V - the recorded observations are judged by TLC with the specification's Judge operator.
"""
import json

import _proto

MANIFEST = {
    "engine": "tla-protocol",
    "level_claimed": {
        "category": "model_checking",
        "text": "TLC exhaustively checks that the intended delivery design (read rows up to the limit, stop at the 16 MiB "
                "threshold with the more-rows flag, continue streaming, merge for sharded statements) delivers every produced "
                "row or an error and implements the limit semantics, for all enumerated cases and all interleavings of the "
                "backend readers; every case (row counts limit-1/limit/limit+1/unlimited x row packet lengths from bytes to "
                "17 MiB x unsharded/single shard/two shards x text/binary) is executed on the real proxy between fake MySQL "
                "backends and a client over loopback TCP (sharded statements with one, two and four per-shard results, the latter "
                "two sub-table statements per slice run one after the other), and TLC judges each recorded observation against "
                "the specification.",
        "design_ref": "DESIGN.md section 5 C39, section 4.1 Protocol",
    },
    "level_note": "Backends are in-process fakes that always produce the scripted rows (no backend faults, no multi-statement "
                  "results, one column); rows of one case all have the same length; limits are small (2..20) so that results "
                  "around the limit stay small, the 16 MiB threshold is the real one; 17 MiB-row cases run in the thorough tier "
                  "only; the four-result mode and the two-result-set mode (one unsharded statement answered with two result sets) are "
                  "enumerated for limit 3 and small rows only; the design's terminal state is a "
                  "prediction that is compared with the implementation (model drift) but never produces a verdict; the design "
                  "variant with the three defects repaired by 5a26ea1 / 9502c9e / d751f23 is kept in the specification as "
                  "documentation (constants LimitInclusive / ShardIgnoresMore / LimitPerChunk).",
    "technique": "TLA+ spec + TLC exhaustive check; TLC-enumerated cases executed on the real proxy over loopback; "
                 "recorded observations judged by TLC",
}

HARNESS = _proto.COMMON + ["proxy/server/proto_c39_test.go"]
RUN = "^TestVerifProtoResults$"


def case_id(c):
    return "L%d-%s-%s-s%d-n%s" % (c["limit"], c["mode"], c["proto"], c["rowlen"], "x".join(str(x) for x in c["n"]))


def rel(c, n):
    if c["limit"] == 0:
        return "unlimited"
    d = n - c["limit"]
    return {0: "limit", -1: "limit-1", 1: "limit+1"}.get(d, "below-limit" if d < 0 else "above-limit")


def crosses(c):
    return any(n * c["rowlen"] > _proto.THRESHOLD for n in c["n"])


def signature(c, o, v):
    """signature of a deviation, from the case, the observation and TLC's verdict; None when there is none"""
    mc = {"unsharded": "unsharded", "multi2": "multi-result"}.get(c["mode"], "sharded")
    cr = "above-threshold" if crosses(c) else "below-threshold"
    mr = rel(c, max(c["n"]))
    out = o["outcome"]
    if v["ok"]:
        if out == "complete" and not o.get("intact", True):
            return "C39 delivered rows differ from produced rows: %s %s %s" % (mc, c["proto"], cr)
        return None
    exp = v["info"]["expect"]
    if out == "complete":
        if exp == "error":
            return "C39 over-limit result delivered without error: %s rows=%s %s" % (mc, mr, cr)
        if o["rows"] < v["info"]["total"]:
            return "C39 silent truncation: %s %s" % (mc, cr)
        return "C39 surplus rows: %s %s" % (mc, cr)
    if out in ("error", "closed"):
        return "C39 result within limit answered with error: %s rows=%s %s" % (mc, mr, cr)
    if out == "hang":
        return "C39 no answer: %s %s" % (mc, cr)
    return "C39 malformed answer: %s %s %s" % (mc, c["proto"], cr)


def nontrivial(c):
    return crosses(c) or (c["limit"] > 0 and max(c["n"]) >= c["limit"])


def execute(ctx, cases, label):
    """run cases on the real proxy, let TLC judge the observations, report deviations"""
    import vlib
    tp = ctx.path("c39-trace-%s.ndjson" % label)
    res, summ, out = ctx.harness("proxy/server", HARNESS, RUN, cases, env={"VERIF_TRACE_OUT": tp}, timeout=2400)
    if summ["cases"] != len(cases):
        raise vlib.Inconclusive("harness executed %d of %d cases" % (summ["cases"], len(cases)))
    lines = [e for e in ctx.read_ndjson(tp) if not e.get("summary")]
    if len(lines) != len(cases):
        raise vlib.Inconclusive("harness recorded %d observations for %d cases" % (len(lines), len(cases)))
    go_devs = {}
    drift = []
    for r in res:
        cid = r["obs"]["id"]
        for d in r.get("devs", []):
            if d["sig"].startswith("C39 harness"):
                raise vlib.Inconclusive("harness problem in case %s: %s" % (cid, d["what"]))
            go_devs.setdefault(cid, set()).add(d["sig"])
        if r["obs"].get("drift"):
            drift.append({"case": cid, "what": r["obs"]["drift"]})
    # the client cannot tell a lost connection from an error: both are "error" for the specification
    judged = []
    for e in lines:
        e2 = dict(e)
        if e2["outcome"] == "closed":
            e2["outcome"] = "error"
        judged.append(e2)
    verdicts = _proto.judge(ctx, judged, _proto.RESULT_KEEP)
    ctx.cov["traces_validated_against_impl"] += len(verdicts)
    ctx.cov["evaluations"] += len(cases)
    byid = {c["id"]: c for c in cases}
    ndev = 0
    for e, v in zip(lines, verdicts):
        c = byid[e["t"]]
        sig = signature(c, e, v)
        gsig = go_devs.get(c["id"], set())
        if (sig is None) != (not gsig) or (sig is not None and sig not in gsig):
            raise vlib.Inconclusive("binding disagreement on case %s: TLC verdict gives %r, the harness comparison gives %r"
                                    % (c["id"], sig, sorted(gsig)))
        if sig is None:
            continue
        ndev += 1
        what = ("limit=%d mode=%s proto=%s rowlen=%d produced=%s: specification expects %s (%d rows), the client observed %s "
                "with %d rows %s" % (c["limit"], c["mode"], c["proto"], c["rowlen"], c["n"], v["info"]["expect"],
                                     v["info"]["total"], e["outcome"], e["rows"], e.get("detail", "")))
        ctx.deviation(sig, what, {"case": c})
    return lines, verdicts, drift, ndev


def run(ctx):
    import vlib
    thorough = ctx.thorough
    ctx.assumptions += [
        "fake MySQL backends always deliver the scripted rows; a result's rows all have the same packet length",
        "a connection closed in place of the result terminator counts as an error at the client",
        "row limits are small (the threshold is the real 16 MiB - 1); one column per row",
    ]
    if ctx.replay:
        rec = ctx.read_ndjson(ctx.replay)[0]
        c = rec["case"]["case"]
        execute(ctx, [c], "replay")
        return

    if thorough:
        par = dict(limits=(3, 18, 0), unlim=(0, 1, 4, 18), rowlens=(2, 1027, 1048580, 5592405, 16777215, 16777216, 17825796),
                   maxbytes=72000000, shard4_limit=3, shard4_rowlens=(2, 1027, 1048580))
    else:
        # 16777216-byte rows are their own streaming chunk: limit 3 / 3 rows is the smallest result streamed in three chunks
        par = dict(limits=(3, 18, 0), unlim=(0, 1, 18), rowlens=(2, 1027, 1048580, 16777216), maxbytes=51000000, maxtotal=60000000,
                   shard4_limit=3, shard4_rowlens=(2,))

    # 1. exhaustive check of the delivery design against the property (all cases, all reader interleavings); the terminal
    #    states are the cases, with the specification's expectation and the design's prediction.  Since the fix commits
    #    5a26ea1 / 9502c9e / d751f23 the design as coded is the intended design (all variant switches FALSE).
    text = _proto.cfg("ResultSpec", _proto.constants(as_coded=False, **par),
                      invariants=["RTypeOK", "NoSilentTruncation", "LimitSemantics", "EmitResult"], properties=["RTerminates"])
    r = ctx.tlc("Protocol_gen", "r_mc.cfg", extra_files={"r_mc.cfg": text}, coverage=True, timeout=1500, workers=1,
                label="delivery design satisfies C39 (exhaustive); cases emitted")
    ctx.log("delivery design:", r.stats(), "%.1fs" % r.wall)
    zero = [a for a in r.zero_actions if a in ("ReadRow", "ReadEOF", "WriteChunk", "WriteError", "ContinueShardRead", "Merge")]
    if zero:
        ctx.notes.append("vacuous actions in the design check: %s" % zero)
    cases = {}
    for c in r.cases:
        c["id"] = case_id(c)
        if c["id"] in cases and cases[c["id"]]["pred"] != c["pred"]:
            raise vlib.Inconclusive("the as-coded design is not deterministic for case %s" % c["id"])
        cases[c["id"]] = c
    for c in vlib.known_replay_cases(ctx.pid):
        cc = dict(c["case"])
        cc.setdefault("id", case_id(cc))
        cc.setdefault("pred", {"outcome": "", "sent": 0})
        cases.setdefault(cc["id"], cc)
    cases = sorted(cases.values(), key=lambda c: (c["rowlen"] * max(c["n"] + [1]), c["id"]))
    predicted_dev = [c["id"] for c in cases if c["pred"]["outcome"] and not (
        (c["expect"] == "error" and c["pred"]["outcome"] == "error") or
        (c["expect"] == "full" and c["pred"]["outcome"] == "complete" and c["pred"]["sent"] == c["total"]))]
    ctx.log("cases:", len(cases), "of which the design model predicts a deviation:", len(predicted_dev))
    for c in (cases[0], cases[len(cases) // 2], cases[-1]):
        ctx.sample(c)

    # 3. G + V on the real proxy
    lines, verdicts, drift, ndev = execute(ctx, cases, "main")
    ctx.log("executed", len(lines), "cases;", ndev, "deviate from the specification;", len(drift), "differ from the design model")
    ctx.cov["distinct_nontrivial"] = len({c["id"] for c in cases if nontrivial(c)})
    ctx.cov["rule"] = ("case = (row limit, rows per backend, row packet length, unsharded/single shard/two shards, text/binary) "
                       "enumerated by TLC; non-trivial = some backend produces at least limit rows, or a backend's result exceeds "
                       "the 16 MiB streaming threshold")
    ctx.cov["cases_crossing_threshold"] = len([c for c in cases if crosses(c)])
    ctx.cov["as_coded_model_predicted_deviations"] = len(predicted_dev)
    ctx.cov["observed_deviations"] = ndev
    ctx.cov["model_drift"] = drift[:20]
    if drift:
        ctx.notes.append("MODEL-DRIFT: %d cases where the as-coded design variant of the specification predicts a different "
                         "answer than the implementation gave (not a verdict)" % len(drift))
    outcomes = {}
    for e in lines:
        outcomes[e["outcome"]] = outcomes.get(e["outcome"], 0) + 1
    ctx.cov["observed_outcomes"] = outcomes

    # 4. binding self-test: a corrupted expectation and a corrupted observation must both be noticed
    good = next((c for c, e, v in zip(cases, lines, verdicts) if v["ok"] and e["outcome"] == "complete" and e["rows"] > 0
                 and c["rowlen"] < 5000), None)
    if good is None:
        raise vlib.Inconclusive("no conforming case available for the binding self-test")
    flipped = dict(good, expect="error", id=good["id"] + "-selftest")
    res, summ, _ = ctx.harness("proxy/server", HARNESS, RUN, [flipped])
    caught_g = any(r.get("devs") for r in res)
    e = next(e for e in lines if e["t"] == good["id"])
    bad_line = dict(e, rows=e["rows"] - 1)
    v = _proto.judge(ctx, [bad_line], _proto.RESULT_KEEP, label="self-test: corrupted observation")
    caught_v = not v[0]["ok"]
    ctx.cov["binding_selftest"] = {"corrupted_expectation_detected": caught_g, "corrupted_observation_rejected_by_tlc": caught_v}
    if not (caught_g and caught_v):
        raise vlib.Inconclusive("binding self-test failed (%s, %s)" % (caught_g, caught_v))
