"""C07 - concurrent sessions plan independently of each other.

Specification: spec/PlanIsolation.tla (router written only by Load; every planning action has UNCHANGED router;
plan = F(stmt, db, router)), PlanIsolation_gen.tla (workloads), PlanIsolation_trace.tla (judgement of recorded events).
Binding: V - (a) every real planning call is bracketed by a deep snapshot hash of the shared router, (b) TLC-generated
workloads run on 16 goroutines and each plan is compared with the plan obtained alone, (c, thorough) the same test binary
runs under the race detector and reports located in proxy/router or proxy/plan become SharedWrite events.  TLC judges
every recorded event.
"""
import json
import os
import random
import re
import tempfile

MANIFEST = {
    "engine": "tla-planisolation",
    "level_claimed": {
        "category": "model_checking",
        "text": "TLC exhaustively checks the planning specification (router written only by Load, planning actions leave it "
                "unchanged, plans are a function of statement, database and router) within small constants; events recorded "
                "around every real planning call (getPlan = preBuildUnshardPlan + BuildPlan; the real COM_FIELD_LIST handler, whose "
                "routing is observed at fake MySQL backends: which backend, which current database, which table), with a deep "
                "reflection snapshot of the router before and after, for TLC-generated workloads run sequentially and on 16 "
                "goroutines, are judged by TLC against the frame condition and against the plan obtained alone.",
        "design_ref": "DESIGN.md section 5 C07, section 4.1 PlanIsolation",
    },
    "level_note": "The Go memory model is not modelled: the race detector (thorough tier only) is an auxiliary observer whose "
                  "reports become SharedWrite events that the specification has no action for; the sequential frame check sees "
                  "writes to the router without any race but not writes to shared state outside the router object; plans are "
                  "compared through their rendered per-slice SQL (a recording plan.Executor), statements come from a fixed "
                  "universe of 28 statements (incl. mycat rules, DATABASE() hints, /* !mycat:sql= */ hint statements, linked-to-mycat and global rules) x 3 session databases (reads of global tables, whose slice the planner picks at random, are left out); interleavings are whatever the Go scheduler produces.",
    "technique": "TLA+ spec + TLC exhaustive check; TLC-generated workloads on real planning code; recorded events judged by TLC",
}

HARNESS = ["proxy/server/proto_common_test.go", "proxy/server/planiso_test.go"]
RUN = "^TestVerifPlanIsolation$"
NSTMTS = 28

MC_CFG = """SPECIFICATION Spec
CONSTANTS
  Sessions = {%(sessions)s}
  Stmts = {%(stmts)s}
  Dbs = {d1, d2}
  Routers = {r1, r2}
  MaxSteps = %(steps)d
INVARIANTS TypeOK PlanIsFunction
PROPERTY WrittenOnlyByLoad
PROPERTY PlanningLeavesRouter
PROPERTY PlanUsesCurrentRouter
CHECK_DEADLOCK FALSE
"""

GEN_CFG = """SPECIFICATION GenSpec
CONSTANTS
  Sessions = {%(sessions)s}
  Stmts = {%(stmts)s}
  Dbs = {"d1", "d2", "d3"}
  Routers = {"r"}
  MaxSteps = 100000
  GenLen = %(len)d
INVARIANTS Emit
CHECK_DEADLOCK FALSE
"""

TRACE_CFG = """SPECIFICATION TraceSpec
CONSTANTS
  Sessions = {%(sessions)s}
  Stmts = {}
  Dbs = {}
  Routers = {}
  MaxSteps = 0
INVARIANTS Emit
POSTCONDITION TraceAccepted
CHECK_DEADLOCK FALSE
"""

SESSIONS = ['"s%d"' % i for i in range(1, 17)] + ['"ref"']
KEEP = {"load": ["t", "ev", "router"], "plan": ["t", "ev", "s", "stmt", "db", "role", "before", "after", "plan"],
        "cplan": ["t", "ev", "s", "stmt", "db", "plan"], "cend": ["t", "ev", "before", "after"],
        "sharedwrite": ["t", "ev"]}


def judge(ctx, lines, label):
    import vlib
    slim = [{k: e.get(k, "") for k in KEEP[e["ev"]]} for e in lines]
    tp = ctx.write_ndjson(tempfile.mktemp(prefix="pitrace-", suffix=".ndjson", dir=ctx.scratch), slim)
    r = ctx.tlc("PlanIsolation_trace", "pi_trace.cfg", mode="tv", allow_violation=True, timeout=1200, label=label,
                extra_files={"trace.ndjson": tp, "pi_trace.cfg": TRACE_CFG % {"sessions": ", ".join(SESSIONS)}})
    if r.violated:
        raise vlib.Inconclusive("trace judgement did not consume the whole trace (%s); see %s" % (r.violated, ctx._keep(r.out_path)))
    vs = {c["l"]: c["v"] for c in r.cases if c["l"] >= 1}
    if len(vs) != len(slim):
        raise vlib.Inconclusive("TLC judged %d of %d recorded events; see %s" % (len(vs), len(slim), ctx._keep(r.out_path)))
    return [vs[i + 1] for i in range(len(slim))]


def report(ctx, lines, verdicts):
    n = 0
    for e, v in zip(lines, verdicts):
        if v["ok"]:
            continue
        n += 1
        if e["ev"] == "sharedwrite":
            ctx.deviation("C07 unsynchronized shared write: %s" % e["func"],
                          "race detector: %s at %s, conflicting with %s" % (e["func"], e["where"], e.get("other", "?")),
                          {"event": e})
            continue
        if not v["frame"]:
            for ch in (e.get("changed") or ["?"]):
                ch = re.sub(r'\[[^\]]*\]', '{*}', ch)
                ctx.deviation("C07 router written by planning call: %s" % ch,
                              "router snapshot %s -> %s around %s of %s (%s) under database %s; changed: %s"
                              % (e.get("before"), e.get("after"), e["ev"], e.get("stmt", "concurrent phase"), e.get("class", ""),
                                 e.get("db", ""), e.get("changed")),
                              {"event": e})
        if not v["fun"]:
            kind = {"plan": "sequential", "cplan": "concurrent"}.get(e["ev"], e["ev"])
            if e.get("role") == "ref":
                kind = "alone-twice"
            ctx.deviation("C07 plan differs from the plan obtained alone (%s): %s" % (kind, e.get("class", "?")),
                          "statement %s under %s planned by %s gave plan %s %s" % (e.get("stmt"), e.get("db"), e.get("s"),
                                                                                 e.get("plan"), e.get("text", "")),
                          {"event": e})
    return n


ELSEWHERE = []  # race reports whose accesses are outside proxy/router and proxy/plan (not C07's subject; kept in the evidence)
RACE_BLOCK = re.compile(r"WARNING: DATA RACE\n(.*?)\n==================", re.S)


def race_events(out, repo):
    """SharedWrite events from race detector reports whose accessing frame lies in proxy/router or proxy/plan"""
    evs = []
    total = 0
    for m in RACE_BLOCK.finditer(out):
        total += 1
        block = m.group(1)
        # sections: "Write at 0x.. by goroutine N:" / "Previous write at ..." / "Read at" / "Previous read at"
        secs = re.split(r"\n\n", block)
        tops = []
        for sec in secs:
            ls = sec.strip().split("\n")
            if not ls or not re.match(r"(Previous )?(write|read|atomic write|atomic read)", ls[0], re.I):
                continue
            kind = ls[0].split(" at ")[0].strip()
            fn, loc = None, None
            for i in range(1, len(ls) - 1, 2):
                f = ls[i].strip()
                l = ls[i + 1].strip().split(" ")[0]
                if "/proxy/router/" in l or "/proxy/plan/" in l:
                    fn, loc = f, l
                    break
                if "zz_verif_" in l or "/reflect/" in l or "/internal/verifkit/" in l:
                    continue
                fn, loc = f, l
                break
            tops.append((kind, fn, loc))
        shared = [t for t in tops if t[2] and ("/proxy/router/" in t[2] or "/proxy/plan/" in t[2])]
        if not shared:
            ELSEWHERE.append(" / ".join("%s %s %s" % (t[0], t[1], (t[2] or "").replace(repo + "/", "")) for t in tops)[:400])
            continue
        wr = next((t for t in shared if "rite" in t[0]), shared[0])
        fn = re.sub(r"\(\)$", "", wr[1] or "?").replace("github.com/XiaoMi/Gaea/", "")
        loc = (wr[2] or "?").replace(repo + "/", "")
        other = next((t for t in tops if t is not wr), None)
        evs.append({"t": "race", "ev": "sharedwrite", "func": fn, "where": loc,
                    "other": ("%s %s" % (other[0], (other[2] or "").replace(repo + "/", ""))) if other else ""})
    return evs, total


def run(ctx):
    import vlib
    thorough = ctx.thorough
    rng = random.Random(ctx.seed)
    ctx.assumptions += [
        "a plan is identified by its type and the per-slice/per-database SQL it sends (recording plan.Executor)",
        "router state = everything reachable from *router.Router by reflection (rule table, default rule, shards)",
        "concurrent interleavings are those the Go scheduler happens to produce on 16 goroutines",
    ]
    stmts = ["q%d" % i for i in range(1, NSTMTS + 1)]
    if ctx.replay:
        rec = ctx.read_ndjson(ctx.replay)[0]
        e = rec["case"]["event"]
        if e["ev"] == "sharedwrite":
            steps = [{"s": "s%d" % (i % 16 + 1), "stmt": q, "db": d} for i in range(64) for q, d in
                     [(("q4", "q5", "q7", "q20", "q14", "q22")[i % 6], ("d1", "d2", "d3")[(i // 3) % 3])]]
            race_run(ctx, [{"id": "replay", "steps": steps}])
            return
        steps = [{"s": "s1", "stmt": e.get("stmt", "q4"), "db": e.get("db", "d1")}]
        cases = [{"id": "replay", "steps": steps}]
        lines = observe(ctx, cases, repeats=2)
        report(ctx, lines, judge(ctx, lines, "judge replayed events"))
        return

    # 1. exhaustive check of the specification
    mcs = [dict(sessions="s1, s2", stmts="q1, q2", steps=4)]
    if thorough:
        mcs = [dict(sessions="s1, s2, s3", stmts="q1, q2, q3", steps=5), dict(sessions="s1, s2", stmts="q1, q2, q3, q4", steps=6)]
    for m in mcs:
        r = ctx.tlc("PlanIsolation", "pi_mc.cfg", extra_files={"pi_mc.cfg": MC_CFG % m}, coverage=True, timeout=900,
                    workers="auto" if thorough else 4, label="exhaustive %s" % m)
        ctx.log("mc", m, r.stats(), "%.1fs" % r.wall)
        if r.zero_actions:
            ctx.notes.append("vacuous actions: %s" % r.zero_actions)

    # 2. workloads from TLC (simulation of the planning specification: which session plans which statement)
    nwork, glen, repeats = (6, 48, 150) if not thorough else (40, 96, 300)
    g = dict(sessions=", ".join(SESSIONS[:16]), stmts=", ".join('"%s"' % s for s in stmts), len=glen)
    r = ctx.tlc("PlanIsolation_gen", "pi_gen.cfg", extra_files={"pi_gen.cfg": GEN_CFG % g}, mode="sim", workers=1,
                sim="num=%d" % nwork, depth=glen + 1, seed=rng.randrange(1, 2 ** 31), timeout=600, label="generate workloads")
    seen = set()
    cases = []
    for c in r.cases:
        k = json.dumps(c["steps"][:glen // 2], sort_keys=True)  # simulation also prints non-chosen last steps: one per walk
        if k in seen or len(c["steps"]) != glen:
            continue
        seen.add(k)
        cases.append({"id": "w%d" % (len(cases) + 1), "steps": c["steps"]})
        if len(cases) >= nwork:
            break
    if not cases:
        raise vlib.Inconclusive("TLC generated no workload")
    # the statements of the known findings are always part of the run
    extra = []
    for k in vlib.known_replay_cases(ctx.pid):
        e = k.get("event", {})
        if e.get("stmt"):
            extra.append({"s": "s1", "stmt": e["stmt"], "db": e.get("db", "d1")})
    if extra:
        cases.append({"id": "known", "steps": extra + [{"s": "s2", "stmt": x["stmt"], "db": "d2"} for x in extra]})
    ctx.log("workloads:", len(cases), "of", glen, "planning calls on 16 sessions")
    ctx.sample({"workload": cases[0]["steps"][:12]})

    # 3. (a) sequential frame check + (b) concurrent run, judged by TLC
    lines = observe(ctx, cases, repeats=repeats)
    verdicts = judge(ctx, lines, "TLC judges recorded planning events")
    ndev = report(ctx, lines, verdicts)
    nplan = len([e for e in lines if e["ev"] == "plan"])
    ncplan = sum(e.get("n", 1) for e in lines if e["ev"] == "cplan")
    ctx.cov["traces_validated_against_impl"] += len(cases)
    ctx.cov["events_judged_by_tlc"] = len(lines)
    ctx.cov["evaluations"] += nplan + ncplan
    ctx.cov["planning_calls_bracketed_by_snapshots"] = nplan
    ctx.cov["planning_calls_under_concurrency"] = ncplan
    ctx.cov["nonconforming_events"] = ndev
    distinct = {(e["stmt"], e["db"]) for e in lines if e["ev"] in ("plan", "cplan")}
    ctx.cov["distinct_nontrivial"] = len({(e["s"], e["stmt"], e["db"]) for e in lines if e["ev"] == "cplan"})
    ctx.cov["rule"] = ("distinct (session, statement, database) triples planned while other sessions were planning; statements "
                       "cover sharded by key / scatter / group-by / insert / update / delete / linked / global / date / range / "
                       "explain, mycat rules with DATABASE() and mycat:sql hints, unsharded fast path with and without database qualifier, field-list lookups; %d distinct "
                       "(statement, database) pairs" % len(distinct))
    ctx.log("judged", len(lines), "events:", nplan, "bracketed calls,", ncplan, "concurrent calls,", ndev, "non-conforming")

    # 4. thorough: the same binary under the race detector; reports in proxy/router or proxy/plan are SharedWrite events
    if thorough:
        race_run(ctx, cases[:8])

    # 5. binding self-test: a corrupted snapshot and a corrupted plan must be rejected by TLC
    import copy
    good = [i for i, (e, v) in enumerate(zip(lines, verdicts)) if e["ev"] == "plan" and e.get("role") == "seq" and v["ok"]]
    goodc = [i for i, (e, v) in enumerate(zip(lines, verdicts)) if e["ev"] == "cplan" and v["ok"]]
    if not good or not goodc:
        raise vlib.Inconclusive("no conforming events available for the binding self-test")
    t2 = copy.deepcopy(lines[:max(good[0], goodc[0]) + 1])
    t2[good[0]]["after"] = "deadbeef0000"
    t2[goodc[0]]["plan"] = "deadbeef0000"
    v2 = judge(ctx, t2, "self-test: corrupted snapshot and plan")
    caught_frame = not v2[good[0]]["frame"]
    caught_fun = not v2[goodc[0]]["fun"]
    ctx.cov["binding_selftest"] = {"corrupted_snapshot_rejected": caught_frame, "corrupted_plan_rejected": caught_fun}
    if not (caught_frame and caught_fun):
        raise vlib.Inconclusive("binding self-test failed (%s, %s)" % (caught_frame, caught_fun))


def race_run(ctx, cases):
    """the same test binary under the race detector; reports located in proxy/router or proxy/plan become SharedWrite
    events, which TLC judges (the trace specification has no action for them)"""
    import vlib
    cin = ctx.write_ndjson(tempfile.mktemp(prefix="cases-", suffix=".ndjson", dir=ctx.scratch), cases)
    cout = tempfile.mktemp(prefix="out-", suffix=".ndjson", dir=ctx.scratch)
    tout = tempfile.mktemp(prefix="trace-", suffix=".ndjson", dir=ctx.scratch)
    rc, out = ctx.go_test("proxy/server", HARNESS, RUN, race=True, timeout=2400,
                          env={"VERIF_CASES": cin, "VERIF_OUT": cout, "VERIF_TRACE_OUT": tout, "VERIF_PI_REPEATS": 40,
                               "VERIF_PI_SEQUENTIAL": "0", "GORACE": "halt_on_error=0 history_size=3"})
    if not os.path.exists(cout) or not any(o.get("summary") for o in ctx.read_ndjson(cout)):
        raise vlib.Inconclusive("race-detector run died (rc=%s): %s" % (rc, out[-2000:]))
    evs, total = race_events(out, vlib.REPO)
    ctx.cov["race_reports_total"] = total
    ctx.cov["race_reports_in_router_or_plan"] = len(evs)
    ctx.cov["race_reports_elsewhere"] = sorted(set(ELSEWHERE))[:10]
    uniq = {}
    for e in evs:
        uniq.setdefault(e["func"], e)
    evs = list(uniq.values())
    if evs:
        rv = judge(ctx, evs, "TLC judges SharedWrite events")
        report(ctx, evs, rv)
    ctx.log("race detector:", total, "reports,", len(evs), "distinct functions writing shared state in proxy/router or proxy/plan")


def observe(ctx, cases, repeats):
    import vlib
    tp = ctx.path("c07-trace-%d.ndjson" % len(ctx.cov["go_runs"]))
    res, summ, out = ctx.harness("proxy/server", HARNESS, RUN, cases, env={"VERIF_TRACE_OUT": tp, "VERIF_PI_REPEATS": repeats},
                                 timeout=1800)
    for r in res:
        for d in r.get("devs", []):
            raise vlib.Inconclusive("harness problem: %s" % d["what"])
    if summ["cases"] != len(cases):
        raise vlib.Inconclusive("harness ran %d of %d workloads" % (summ["cases"], len(cases)))
    lines = [e for e in ctx.read_ndjson(tp) if not e.get("summary")]
    bad = [e for e in lines if e.get("text", "").startswith("harness:")]
    if bad:
        raise vlib.Inconclusive("harness problem: %s" % bad[0]["text"])
    return lines
