"""C13 - prepared-statement (binary protocol) rows carry the same values as the backend's text rows.

Specification: spec/Wire_rows.tla (TextOf / BinOf / BinaryRow / Decode per column type, null bitmap at offset 2) with the
numeric constants of spec/Wire_rowtab.tla; lengths via EncLen / DecStr of spec/Wire.tla.
Binding: G - TLC emits rows (types, canonical values, text row, binary row); the real RowData.ParseText ->
BuildBinaryResultset conversion is run on the text row and its output decoded by an independent decoder that is
itself checked against TLC's bytes on every case.
"""
import json
import random

import _wire
import vlib

MANIFEST = {
    "engine": "tla-wire",
    "level_claimed": {
        "category": "model_checking",
        "text": "TLC checks for every row it builds (single column: every column type the code switches on x UNSIGNED flag x the "
                "value table incl. integer extremes of every width, IEEE-754 constants, decimals, strings around the 250/251 "
                "length-prefix limit, zero / partial-zero dates, microseconds, negative and > 24 h times, NULL; rows of up to 3 "
                "columns over one representative per family; NULL patterns in every position for 1..10 columns, result sets of 2..3 rows (thorough: 3 "
                "column kinds up to 8, 2 kinds up to 12 columns)) that the specified binary row decodes to the values of the text "
                "row, that the null bitmap has offset 2 and no stray bits, and that the text row is well-formed. Every row is "
                "replayed through the real ParseText -> BuildBinaryResultset and decoded independently.",
        "design_ref": "DESIGN.md section 5 C13, section 4.1 Wire",
    },
    "level_note": "Numeric values are table constants given in text and byte form (TLC cannot compute IEEE-754 or 64-bit decimal "
                  "conversions); the table was produced once with struct.pack and is part of the specification. 'Same value' for "
                  "DECIMAL is numeric (trailing fraction zeros are ignored), for temporal types the decoded fields (any legal "
                  "length variant). An error returned by the real code is allowed by the property and only counted. The path "
                  "starts at the text row bytes: the backend connection, field packets and the write to the client "
                  "(writeOKResult / streaming variant) are not covered.",
    "technique": "TLA+ spec + TLC exhaustive check; TLC-emitted rows replayed on the real text->binary conversion with an independent decoder",
}

CFG = """SPECIFICATION Spec
CONSTANTS
  Modes = {%(modes)s}
  MaxMixed = %(mixed)d
  MaxBitmap = %(bitmap)d
  MaxBitmap3 = %(bitmap3)d
  MaxSetCols = %(setcols)d
  MaxSetRows = %(setrows)d
  EmitCases = TRUE
INVARIANTS RowRoundTrip RowShape TextRowOK SetRoundTrip Emit EmitSet
CHECK_DEADLOCK FALSE
"""

HARNESS = ["mysql/rows_test.go"]
RUN = "^TestVerifBinaryRows$"


def corrupt(c):
    # claim another value for the first column: 1 instead of 7 in a TINY column
    c["vals"][0]["b"][0] = (c["vals"][0]["b"][0] + 1) % 128
    # keep the specification's row consistent with the claim, so that only the real code disagrees
    bm = (len(c["fields"]) + 9) // 8
    c["bin"][1 + bm] = c["vals"][0]["b"][0]
    return c


def corrupt_bytes(c):
    # the specification's bytes no longer match the claimed value: the decoder self-check must notice
    bm = (len(c["fields"]) + 9) // 8
    c["bin"][1 + bm] = (c["bin"][1 + bm] + 1) % 128
    return c


def run(ctx):
    ctx.assumptions += [
        "the backend's text row is well-formed (one length-encoded string per column, 0xfb for NULL) and holds values of the column's type",
        "numeric text <-> bytes pairs are the constants of Wire_rowtab.tla",
    ]
    if ctx.replay:
        rec = ctx.read_ndjson(ctx.replay)[0]
        _wire.replay(ctx, "mysql", HARNESS, RUN, [rec["case"]])
        return
    plan = {"modes": '"single", "mixed", "bitmap", "sets"', "mixed": 2, "bitmap": 10, "bitmap3": 0, "setcols": 2, "setrows": 3}
    if ctx.thorough:
        plan = {"modes": '"single", "mixed", "bitmap", "bitmap3", "sets"', "mixed": 3, "bitmap": 12, "bitmap3": 8,
                "setcols": 3, "setrows": 3}
    r = ctx.tlc("Wire_rows", "rows.cfg", workers=1, coverage=True, timeout=1500, extra_files={"rows.cfg": CFG % plan},
                label="rows: single column (all types x values), mixed <= %(mixed)d columns, NULL patterns <= %(bitmap)d columns "
                      "(3 kinds <= %(bitmap3)d), result sets of <= %(setrows)d rows x <= %(setcols)d columns" % plan)
    cases = r.cases
    if not cases:
        raise vlib.Inconclusive("TLC emitted no rows")
    singles = [c for c in cases if "vals" in c]
    tlc_sets = [c for c in cases if "set" in c]
    if not singles or not tlc_sets:
        raise vlib.Inconclusive("TLC emitted %d rows and %d result sets" % (len(singles), len(tlc_sets)))
    # result sets out of the emitted rows: rows over the same columns are also sent together, in a seeded order and in
    # the reverse order (the specification encodes a result set row by row: BinaryResultset), so that every column is NULL
    # before non-NULL and non-NULL before NULL somewhere
    rng = random.Random(ctx.seed)
    groups = {}
    for c in singles:
        groups.setdefault(json.dumps(c["fields"]), []).append(c)
    batched = []
    for key, rows in groups.items():
        if len(rows) < 2:
            continue
        rows = list(rows)
        rng.shuffle(rows)
        for i in range(0, len(rows), 48):
            chunk = rows[i:i + 48]
            if len(chunk) < 2:
                chunk = rows[-2:]
            for order in (chunk, chunk[::-1]):
                batched.append({"fields": chunk[0]["fields"],
                                "set": [{"vals": x["vals"], "text": x["text"], "bin": x["bin"]} for x in order]})
    cases = singles + tlc_sets + batched
    ctx.log("rows", len(singles), "result sets from TLC", len(tlc_sets), "result sets batched from the rows", len(batched),
            r.stats(), "%.1fs" % r.wall)
    if r.zero_actions:
        ctx.notes.append("vacuous actions: %s" % r.zero_actions)
    known = vlib.known_replay_cases(ctx.pid)
    good = next(c for c in singles if len(c["fields"]) == 2 and c["fields"][0]["t"] == 1 and c["vals"][0]["k"] == "int"
                and c["vals"][1]["k"] == "null")
    res, summ = _wire.replay(ctx, "mysql", HARNESS, RUN, cases + known,
                             selftests=[("corrupted_value_detected", good, corrupt),
                                        ("decoder_checked_against_specification_bytes", good, corrupt_bytes)])
    ctx.log("replayed", {k: v for k, v in summ.items() if k != "error_kinds"})
    ctx.cov["traces_validated_against_impl"] += summ["cases"]
    ctx.cov["columns_converted"] = summ["columns"]
    ctx.cov["rows_answered_with_an_error"] = summ["errors_returned"]
    ctx.cov["error_kinds"] = summ.get("error_kinds", {})
    types = {(f["t"], f["u"]) for c in cases for f in c["fields"]}
    ctx.cov["column_type_flag_pairs"] = len(types)
    ctx.cov["result_sets_with_several_rows"] = summ["result_sets"]
    ctx.cov["distinct_nontrivial"] = sum(1 for c in singles if any(v["k"] != "null" for v in c["vals"])
                                         and (len(c["vals"]) > 1 or c["vals"][0]["k"] != "str" or len(c["vals"][0]["b"]) > 0)) \
        + len(tlc_sets) + len(batched)
    ctx.cov["rule"] = ("case = row or result set (column types, flags, values) from TLC; non-trivial = a row with at least one "
                       "non-NULL column that is not just a single empty string, or a result set of several rows")
    ctx.sample(next(c for c in singles if len(c["fields"]) == 1 and c["fields"][0]["t"] == 12 and c["vals"][0]["k"] == "dt" and c["vals"][0]["n"][6]))
    ctx.sample(next(c for c in singles if len(c["fields"]) == 2 and c["vals"][0]["k"] == "null" and c["vals"][1]["k"] != "null"))
    ctx.sample(tlc_sets[len(tlc_sets) // 2])
