"""C17 - multi-statement text is split exactly at statement boundaries.

Specification: spec/SqlLex.tla (lexical context automaton; Pieces(text)), SqlLex_gen.tla (emission).
Binding: G - every text TLC enumerates (all strings over small alphabets up to a length bound; statements spliced
from fragments) with the specification's pieces is given to parser.SplitStatementToPieces, and to the real
COM_QUERY path (doMultiStmts, CLIENT_MULTI_STATEMENTS) with a fake backend that records what is executed and can
fail a chosen statement.  The repository's own scanner is run on the same texts as a cross-check of the automaton.
"""
import random

import _stmt
import vlib

MANIFEST = {
    "engine": "tla-sqllex",
    "level_claimed": {
        "category": "model_checking",
        "text": "The TLC state graph is the lexical automaton of MySQL text (normal, '..', \"..\", `..`, -- / # / C "
                "comments, backslash escapes, doubled quotes) unrolled over every string of a small alphabet up to a "
                "length bound; TLC checks the automaton's own consistency properties on every text and emits each text "
                "with Pieces(text) (maximal segments between ';' read in context normal, blank/comment-only segments "
                "dropped). Every emitted text is given to the real parser.SplitStatementToPieces (pieces compared "
                "exactly) and texts spliced from statement fragments are sent through the real COM_QUERY multi-statement "
                "path with a fake backend (order, each statement unchanged, stop at the first failing statement, no "
                "success reported for unexecuted statements). The repository's scanner is cross-checked against the "
                "automaton on every well-formed text.",
        "design_ref": "DESIGN.md section 5 C17, section 4.1 SqlLex",
    },
    "level_note": "Bounded: full 13-symbol alphabet up to 4 (quick) / 5 (thorough) symbols, focused alphabets up to 5-7, "
                  "statements spliced from up to 5 words; /*! and /*+ comments, ANSI_QUOTES and NO_BACKSLASH_ESCAPES "
                  "are outside the enumerated alphabets. A text that ends inside a string, quoted identifier or block comment "
                  "has no grammatical reading and is counted, not judged. A ';' that ends a text inside a line comment may be "
                  "dropped (it changes a comment, not a statement). A text whose every "
                  "segment is blank may be passed through whole (nothing can be executed either way). Refusing a "
                  "text is never counted as a violation.",
    "technique": "TLA+ lexical automaton enumerated by TLC; expected pieces replayed on SplitStatementToPieces and on "
                 "the COM_QUERY multi-statement path with a fake backend",
}

FULL = ["a", "?", "'", '"', "`", "\\", "-", " ", "#", "/", "*", "\n", ";"]
QUOTES = ["a", ";", "'", '"', "`", "\\"]
COMMENTS = ["a", ";", "'", "-", " ", "#", "/", "*", "\n"]
NORULE = ["a", ";", "[", " "]
# complete statements holding a ';' in every kind of context, a separator and a blank
STMTS_Q = ["select 1", "select 2,'x;y'", "select 4,`b;c`", "select 5 /* ; */", "select 8,'it\\';s'", "select 0,'boom'", ";"]
STMTS_T = STMTS_Q + ['select 3,"p;q"', "select 6 -- ;\n", "select 7 # ;\n", "select 9,'d'';e'"]

SPLIT = ["parser/sqllex_test.go"]
SPLIT_RUN = "^TestVerifSqlLexSplit$"
MULTI = [_stmt.FIX, "proxy/server/stmt_lex_test.go"]
MULTI_RUN = "^TestVerifMultiStmts$"


def run(ctx):
    thorough = ctx.thorough
    rng = random.Random(ctx.seed)
    ctx.assumptions += [
        "one symbol = one byte; default sql_mode (backslash escapes on, ANSI_QUOTES off)",
        "executed statements are observed as the texts passed to PooledConnect.Execute, compared after trimming blanks",
    ]
    if ctx.replay:
        rec = ctx.read_ndjson(ctx.replay)[0]["case"]
        if rec.get("target") == "multi":
            _stmt.run_harness(ctx, _stmt.SERVER_PKG, MULTI, MULTI_RUN, [rec["case"]], replay_wrap={"target": "multi"})
        else:
            _stmt.run_harness(ctx, _stmt.PARSER_PKG, SPLIT, SPLIT_RUN, [rec["case"]], replay_wrap={"target": "split"})
        return

    # ---- 1. SplitStatementToPieces on every enumerated text
    cf = _stmt.CaseFile(ctx.path("c17-split.ndjson"))
    multi = _stmt.CaseFile(ctx.path("c17-multi.ndjson"))
    for k in _stmt.known_cases("C17"):
        kc = dict(k["case"])
        kc.setdefault("fail", "")
        (multi if k.get("target") == "multi" else cf).add(kc)
    nontriv = [0]

    def keep(c):
        if len(c["sp"]) and any(ch in c["s"] for ch in "'\"`#/-"):
            nontriv[0] += 1
        return True

    plans = [dict(words=FULL, maxlen=4, sanity=True, label="full alphabet"),
             dict(words=QUOTES, maxlen=6, label="strings and identifiers"),
             dict(words=COMMENTS, maxlen=5, label="comments"),
             dict(words=NORULE, maxlen=4, label="byte without scanner rule")]
    if thorough:
        plans = [dict(words=FULL, maxlen=5, sanity=False, label="full alphabet"),
                 dict(words=FULL, maxlen=3, sanity=True, label="full alphabet, automaton sanity invariants"),
                 dict(words=QUOTES, maxlen=7, label="strings and identifiers"),
                 dict(words=COMMENTS, maxlen=6, label="comments"),
                 dict(words=NORULE, maxlen=5, label="byte without scanner rule")]
    for p in plans:
        r = _stmt.sqllex_generate(ctx, cf, p["words"], p["maxlen"], sanity=p.get("sanity", False), label=p["label"], keep=keep)
        ctx.sample({"alphabet": p["words"], "maxlen": p["maxlen"], "texts": r.distinct})
    res, summ = _stmt.run_harness(ctx, _stmt.PARSER_PKG, SPLIT, SPLIT_RUN, cf, replay_wrap={"target": "split"},
                                  xcheck_is_impl=True)
    _stmt.merge_stats(ctx, "split_counters", summ)
    ctx.log("split: examined", summ["cases"], {k: v for k, v in summ.items() if isinstance(v, int)})

    # ---- 2. the COM_QUERY multi-statement path on spliced statements
    def keep_multi(c):
        return c["wf"] and len(c["pc"]) >= 1
    n0 = len(multi)
    stm = STMTS_T if thorough else STMTS_Q
    _stmt.sqllex_generate(ctx, multi, stm, 100, maxwords=5, label="spliced statements",
                          keep=keep_multi, extra={"fail": "boom"})
    # the short tail: a one-character last statement
    _stmt.sqllex_generate(ctx, multi, ["select 1", ";", "5", " "], 30, maxwords=5, label="short last statement",
                          keep=keep_multi, extra={"fail": ""})
    ctx.sample({"fragments": stm, "texts": len(multi) - n0, "example": multi.get(n0 + (len(multi) - n0) // 2)["s"]})
    res, summ = _stmt.run_harness(ctx, _stmt.SERVER_PKG, MULTI, MULTI_RUN, multi, replay_wrap={"target": "multi"})
    _stmt.merge_stats(ctx, "multi_counters", summ)
    ctx.log("multi: examined", summ["cases"], {k: v for k, v in summ.items() if isinstance(v, int)})
    if (not summ.get("multi_all_executed") or not summ.get("stopped_at_scripted_failure")) and not ctx.violations:
        raise vlib.Inconclusive("multi-statement replay is vacuous: %s" % summ)

    ctx.cov["distinct_nontrivial"] = nontriv[0] + summ.get("multi_statement_texts", 0)
    ctx.cov["rule"] = ("distinct texts enumerated by TLC; non-trivial = contains a ';' read in context normal and at least one "
                       "quote / back-quote / comment character (split harness), or consists of at least two statements "
                       "(multi-statement path)")

    # ---- 3. binding self-test: a corrupted expectation must be flagged by both harnesses
    bad1 = {"s": "aa;bb;cc", "wf": True, "m": [], "sp": [2, 5], "pc": [[0, 2], [3, 8]], "qs": []}
    r1, _, _ = ctx.harness(_stmt.PARSER_PKG, SPLIT, SPLIT_RUN, [bad1])
    c1 = any(d["sig"].startswith("C17") or d["sig"].startswith("XCHECK") for r in r1 for d in r.get("devs", []))
    bad2 = {"s": "select 1;select 1 ,'x'", "wf": True, "pc": [[0, 8], [9, 17]], "fail": ""}
    r2, _, _ = ctx.harness(_stmt.SERVER_PKG, MULTI, MULTI_RUN, [bad2])
    c2 = any(d["sig"].startswith("C17") for r in r2 for d in r.get("devs", []))
    ctx.cov["binding_selftest"] = {"corrupted_pieces_detected_split": c1, "corrupted_pieces_detected_multi": c2}
    if not (c1 and c2) and not ctx.violations:
        raise vlib.Inconclusive("binding self-test failed (%s, %s)" % (c1, c2))
