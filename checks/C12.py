"""C12 - length-encoded wire values round-trip and decoding stays in bounds (mysql/encoding.go).

Specification: spec/Wire.tla part B (EncLen / DecLen / DecStr / ReadFix / ReadNul over byte sequences, 64-bit
integers as 8 little-endian bytes) and spec/Wire_lenenc.tla (the enumeration: the TLC state graph is the input space).
Binding: G - every buffer / offset / 64-bit value TLC enumerates is handed, with the specification's result, to the
real WriteLenEncInt / AppendLenEncInt / LenEncIntSize / ReadLenEncInt / readLenEncString / ReadLenEncStringAsBytes /
skipLenEncString / ReadBytes / ReadBytesCopy / ReadNullString / ReadNullByte and the string encoders.
"""
import json
import random

import _wire
import vlib

MANIFEST = {
    "engine": "tla-wire",
    "level_claimed": {
        "category": "model_checking",
        "text": "TLC checks on every reachable state of Wire_lenenc (all byte strings over the ten protocol-relevant byte "
                "values up to a length bound, structured buffers with every prefix class x declared length below/equal/"
                "above the remainder and 64-bit extremes, all their truncations, every offset 0..len+1; all 64-bit "
                "size-class boundaries +-2 and seeded random values) that the specified codec round-trips, chooses the "
                "shortest size class, is total and never yields anything outside the input. Each of these states is "
                "emitted with the specification's result and replayed on the real encoders/decoders of mysql/encoding.go; "
                "a panic is an out-of-bounds access.",
        "design_ref": "DESIGN.md section 5 C12, section 4.1 Wire",
    },
    "level_note": "Buffers are short (exhaustive part: length <= 3 quick / 4 thorough over 10 byte values; structured part up "
                  "to 14 bytes); long strings are exercised only at the size-class boundaries (250/251, 2^16, 2^24) through "
                  "the encoder round trip. The first byte 0xff of a length-encoded integer is undefined in the protocol: "
                  "the specification tolerates failing or taking it literally. readLenEncString has no NULL result: an "
                  "empty string for the NULL marker is tolerated. Negative offsets are outside the enumerated domain.",
    "technique": "TLA+ spec + TLC exhaustive enumeration; TLC-emitted cases with expected results replayed on the real codec",
}

CFG = """SPECIFICATION Spec
CONSTANTS
  Modes = {%(modes)s}
  Alphabet = {0, 1, 3, 97, 250, 251, 252, 253, 254, 255}
  MaxLen = %(maxlen)d
  Hops = 2
  Extra8 <- ExtraDef
  EmitCases = %(emit)s
VIEW View
INVARIANTS TypeOK EncProps DecProps StrRoundTrip Emit
CHECK_DEADLOCK FALSE
"""

XMOD = """---- MODULE Wire_lenenc_x ----
EXTENDS Wire_lenenc
ExtraDef == %s
====
"""

HARNESS = ["mysql/lenenc_test.go"]
RUN = "^TestVerifLenEnc$"


def extra_values(rng, n):
    """seeded random 64-bit values of every magnitude (uniform in the number of significant bits)"""
    out = set()
    while len(out) < n:
        bits = rng.randrange(1, 65)
        out.add(rng.getrandbits(bits) | (1 << (bits - 1)))
    return sorted(out)


def nontrivial_key(c):
    """decoder case (buffer, offset) whose outcome depends on a bounds comparison"""
    keys = []
    if c["kind"] == "enc":
        return [("enc", tuple(c["v"]))]
    buf = c["buf"]
    for pos, at in enumerate(c["at"]):
        multi = pos < len(buf) and buf[pos] in (252, 253, 254)
        strcmp = at["i"][0] == 1 and at["i"][1] == 0 and pos < len(buf) and buf[pos] != 0
        if multi or strcmp or pos >= len(buf):
            keys.append((tuple(buf), pos))
    return keys


def corrupt_dec(c):
    # claim that a one-byte integer at offset 0 cannot be read
    c["at"][0]["i"][0] = 0
    return c


def corrupt_enc(c):
    c["size"] = 3 if c["size"] != 3 else 4
    return c


def run(ctx):
    ctx.assumptions += [
        "64-bit integers are 8 little-endian bytes in the specification; sizes of fixed reads are 64-bit signed",
        "decoders are called with buffers whose capacity equals their length, so any access past the input panics",
    ]
    if ctx.replay:
        rec = ctx.read_ndjson(ctx.replay)[0]
        _wire.replay(ctx, "mysql", HARNESS, RUN, [rec["case"]])
        return

    rng = random.Random(ctx.seed)
    extra = extra_values(rng, 24 if not ctx.thorough else 200)
    xmod = XMOD % _wire.tla_set([_wire.tla_seq(_wire.b8(v)) for v in extra])

    # 1. thorough: exhaustive check of the specified codec on a larger bound than what is replayed (no emission)
    if ctx.thorough:
        mc_len = 5
        r = ctx.tlc("Wire_lenenc_x", "le_mc.cfg", coverage=True, timeout=1500, workers="auto",
                    extra_files={"Wire_lenenc_x.tla": xmod,
                                 "le_mc.cfg": CFG % {"modes": '"alpha", "struct", "enc"', "maxlen": mc_len, "emit": "FALSE"}},
                    label="codec properties on all byte strings up to length %d + structured + 64-bit boundaries" % mc_len)
        ctx.log("mc", r.stats(), "%.1fs" % r.wall)
        if r.zero_actions:
            ctx.notes.append("vacuous actions: %s" % r.zero_actions)

    # 2. exhaustive check with emission: every state is checked against the codec properties AND printed with the
    #    specification's results, then replayed on the real code (G)
    gen_len = 3 if not ctx.thorough else 4
    cases_path = ctx.path("le_cases.ndjson")
    counts = {"alpha": 0, "struct": 0, "enc": 0}
    nontriv = set()
    keep = {}
    with open(cases_path, "w") as f:
        def sink(c):
            counts[c["kind"]] += 1
            for k in nontrivial_key(c):
                nontriv.add(k)
            keep.setdefault(c["kind"], c)
            if c["kind"] != "enc" and len(c["buf"]) == 1 and c["buf"][0] < 251:
                keep.setdefault("dec1", c)
            f.write(json.dumps(c, separators=(",", ":")))
            f.write("\n")
        r = ctx.tlc("Wire_lenenc_x", "le_gen.cfg", workers=1, timeout=1500, case_sink=sink, keep_cases=False, coverage=True,
                    extra_files={"Wire_lenenc_x.tla": xmod,
                                 "le_gen.cfg": CFG % {"modes": '"alpha", "struct", "enc"', "maxlen": gen_len, "emit": "TRUE"}},
                    label="emit cases: byte strings up to length %d, structured buffers, 64-bit values" % gen_len)
        known = vlib.known_replay_cases(ctx.pid)
        for c in known:
            f.write(json.dumps(c, separators=(",", ":")))
            f.write("\n")
    total = sum(counts.values()) + len(known)
    if r.zero_actions:
        ctx.notes.append("vacuous actions: %s" % r.zero_actions)
    ctx.log("emitted", counts, "+ %d cases stored with findings" % len(known), "%.1fs" % r.wall)
    if not counts["alpha"] or not counts["struct"] or not counts["enc"]:
        raise vlib.Inconclusive("TLC emitted no cases for some kind: %s" % counts)
    # binding self-test (rides on the same harness run): corrupted expectations must be reported
    if "dec1" not in keep:
        raise vlib.Inconclusive("no one-byte decoder case for the self-test")
    res, summ = _wire.replay(ctx, "mysql", HARNESS, RUN, cases_path, want_cases=total,
                             selftests=[("corrupted_decoder_expectation_detected", keep["dec1"], corrupt_dec),
                                        ("corrupted_encoder_expectation_detected", keep["enc"], corrupt_enc)])
    ctx.log("replayed", summ["cases"], "cases;", summ["calls"], "calls of the real codec;", summ["panics"], "panics;",
            "offsets", summ["offsets"])
    ctx.cov["traces_validated_against_impl"] += summ["cases"]
    ctx.cov["decoder_buffers"] = summ["decoder_buffers"]
    ctx.cov["decoder_offsets"] = summ["offsets"]
    ctx.cov["encoder_values"] = summ["encoder_values"]
    ctx.cov["real_codec_calls"] = summ["calls"]
    ctx.cov["deviation_counts"] = summ.get("dev_counts", {})
    ctx.cov["distinct_nontrivial"] = len(nontriv)
    ctx.cov["rule"] = ("case = (buffer, offset) or 64-bit value enumerated by TLC; non-trivial = the offset holds a multi-byte "
                       "prefix (0xfc/0xfd/0xfe), or a string length that must be compared with the remainder, or lies at/after "
                       "the end of the buffer; every encoder value counts")
    ctx.sample({"kind": "enc", "case": keep.get("enc")})
    if "struct" in keep:
        c = keep["struct"]
        ctx.sample({"kind": "struct", "buf": c["buf"], "first_offset": c["at"][0]})
