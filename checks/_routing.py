"""Shared helpers of the routing family (C01, C03, C04): spec/Routing*.tla + harness/proxy/plan/routing_test.go."""
import json
import random

import vlib

PKG = "proxy/plan"
HARNESS = ["proxy/plan/routing_test.go"]
RUN = "^TestVerifRouting$"

SHAPES2 = ["A(L,L)", "O(L,L)", "N(L)"]
SHAPES3 = ["N(N(L))", "N(A(L,L))", "N(O(L,L))", "A(L,N(L))", "O(L,N(L))", "A(N(L),L)", "O(N(L),L)", "A(O(L,L),L)",
           "O(A(L,L),L)", "A(L,O(L,L))", "O(L,A(L,L))", "A(A(L,L),L)", "O(O(L,L),L)", "O(A(L,L),N(L))", "A(N(L),O(L,L))",
           "A(O(L,L),O(L,L))", "O(A(L,L),A(L,L))", "A(O(L,L),A(L,L))", "O(O(L,L),A(L,L))"]

FORMS = ["select", "select-alias", "update", "delete", "linked", "join-on", "join-where"]
GJOIN_FORMS = ["gjoin-where", "gjoin-on"]  # sharded table joined with a global table; the other column is the global table's

RUN_MODULE = """---- MODULE RoutingRun ----
EXTENDS %(base)s, RoutingRules
%(defs)s
====
"""


def tla_set(items):
    return "{" + ", ".join(items) + "}"


def tla_str(s):
    return '"%s"' % s


def gen_module(base, defs):
    return RUN_MODULE % {"base": base, "defs": "\n".join("%s == %s" % kv for kv in defs.items())}


def cond_cfg(invariants, emit):
    return ("SPECIFICATION Spec\nCONSTANTS\n  Rules <- MCRules\n  Modes <- MCModes\n  Sample <- MCSample\n"
            "  EmitCases = %s\nINVARIANTS %s\nCHECK_DEADLOCK FALSE\n" % ("TRUE" if emit else "FALSE", " ".join(invariants)))


def sample_set(rng, shapes, n):
    out = set()
    while len(out) < n:
        s = rng.choice(shapes)
        out.add('<<"%s", %d, %d, %d, %d>>' % (s, rng.randrange(1 << 20), rng.randrange(1 << 20),
                                               rng.randrange(1 << 20), rng.randrange(1 << 20)))
    return tla_set(sorted(out))


def run_cond_tlc(ctx, rules, modes, sample="{}", invariants=("TypeOK", "Emit"), emit=True, label="", allow_violation=False,
                 workers=1, timeout=1500):
    mod = gen_module("Routing_gen", {"MCRules": rules, "MCModes": tla_set(tla_str(m) for m in modes), "MCSample": sample})
    return ctx.tlc("RoutingRun", "routing_run.cfg",
                   extra_files={"RoutingRun.tla": mod, "routing_run.cfg": cond_cfg(invariants, emit)},
                   workers=workers, timeout=timeout, label=label, allow_violation=allow_violation, heap="6g")


def group_by_rule(cases, case_kind):
    """Order TLC's cases as: rule record, then the cases of that rule.  Returns (lines, rules_by_id)."""
    rules = {}
    per = {}
    for c in cases:
        if c.get("kind") == "rule":
            rules[c["id"]] = c
        elif c.get("kind") == case_kind:
            per.setdefault(c["rule"], []).append(c)
    lines = []
    for rid in sorted(per):
        # TLC's workers emit in no fixed order; small cases first, so that the first case of a signature is a minimal one
        per[rid].sort(key=lambda c: (len(json.dumps(c)), json.dumps(c, sort_keys=True)))
        if rid not in rules:
            raise vlib.Inconclusive("TLC emitted cases for rule %s without its rule record" % rid)
        lines.append(rules[rid])
        lines.extend(per[rid])
    return lines, rules


def feed(ctx, lines, pid, rules=None, note=None):
    """Replay ordered case lines on the real planner; classify what comes back.
    Returns the harness summary.  Deviations go to ctx.deviation with a self-contained replay case."""
    if not lines:
        raise vlib.Inconclusive("no cases to replay")
    res, summ, out = ctx.harness(PKG, HARNESS, RUN, lines, timeout=2400)
    if summ["cases"] != len(lines):
        raise vlib.Inconclusive("harness replayed %d of %d cases" % (summ["cases"], len(lines)))
    mism = list(summ.get("placement_mismatches") or [])
    harness_bugs = []
    summ["deviating_cases"] = set()
    summ["selftest_hits"] = 0
    for r in res:
        line = lines[r["case"]]
        if line.get("selftest"):
            # a deliberately corrupted expectation (binding self-test): it must deviate, and is never a verdict
            if any(d["sig"].startswith(pid + " ") for d in r.get("devs", [])):
                summ["selftest_hits"] += 1
            continue
        rule = None
        if line.get("kind") in ("cond", "ins"):
            # the rule record that governs this case is the closest preceding one
            j = r["case"]
            while j >= 0 and lines[j].get("kind") != "rule":
                j -= 1
            rule = lines[j] if j >= 0 else None
        for d in r.get("devs", []):
            sig = d["sig"]
            if sig.startswith("harness"):
                harness_bugs.append("%s: %s" % (sig, d["what"]))
            elif sig.startswith("placement-mismatch"):
                continue  # collected in the summary
            elif not sig.startswith(pid + " "):
                harness_bugs.append("foreign signature %s" % sig)
            else:
                summ["deviating_cases"].add(r["case"])
                ctx.deviation(sig, d["what"], {"rule": rule, "case": line} if rule else {"case": line})
    if harness_bugs:
        raise vlib.Inconclusive("harness could not render / read cases (%d): %s" % (len(harness_bugs), "; ".join(harness_bugs[:5])))
    if mism:
        ctx.notes.append("placement-mismatch (specification vs Rule.FindTableIndex / layout): %s" % mism[:10])
        raise vlib.Inconclusive("placement-mismatch: the specification's placement / layout of a rule instance disagrees with the "
                                "real router (a C08/C09/C10 matter or a specification issue, not a %s verdict): %s" % (pid, "; ".join(mism[:5])))
    return summ


def merge_counts(ctx, summ, key="harness_counts"):
    tot = ctx.cov.setdefault(key, {})
    for k, v in (summ.get("counts") or {}).items():
        tot[k] = tot.get(k, 0) + v
    dr = summ.get("drift") or []
    if dr:
        ctx.cov.setdefault("model_drift_examples", [])
        for d in dr:
            if len(ctx.cov["model_drift_examples"]) < 12:
                ctx.cov["model_drift_examples"].append(d)


def replay_lines(rec):
    c = rec["case"]
    lines = []
    if c.get("rule"):
        lines.append(c["rule"])
    lines.append(c["case"])
    return lines


def known_lines(pid):
    out = []
    for c in vlib.known_replay_cases(pid):
        if c.get("rule"):
            out.append(c["rule"])
        out.append(c["case"])
    return out
