"""C11 - MySQL packets arrive intact and correctly sequenced (mysql/conn.go).

Specification: spec/Wire.tla part A (Split / Reassemble / BadSeq and their properties) and spec/Wire_frames.tla (the
writer loop, the transport with one perturbed sequence id, the reader loop, as a state machine).
Binding: G - the same operators instantiated with M = 2^24-1 emit the expected frame headers, next sequence id and
the reader's verdict for a wrong sequence id at every frame; replayed on Conn.WritePacket / WriteEphemeralPacket /
ReadPacket / ReadEphemeralPacket over in-memory connections with a seeded fragmenting reader.
"""
import random

import _wire
import vlib

MANIFEST = {
    "engine": "tla-wire",
    "level_claimed": {
        "category": "model_checking",
        "text": "TLC checks for frame limit M = 4, every payload length 0..3M+1 and every starting sequence id 0..255 that "
                "Split yields frames <= M with ids increasing by one mod 256, an empty terminator exactly after a positive "
                "multiple of M, one empty frame for the empty payload, contiguous payload slices, that Reassemble inverts it, "
                "that a wrong id at any frame (any of the 255 perturbations in the thorough tier) is rejected at that frame, and "
                "that the writer-loop / transport-fault / reader-loop state machine shaped like mysql/conn.go refines these "
                "operators under all interleavings. The same operators with M = 2^24-1 give the expected headers for the "
                "boundary lengths {0,1,M-1,M,M+1,2M-1,2M,2M+1,3M} and seeded random lengths/ids, replayed on the real writers "
                "and readers through a fragmenting in-memory connection, with a wrong id injected at every frame.",
        "design_ref": "DESIGN.md section 5 C11, section 4.1 Wire",
    },
    "level_note": "The Go constant MaxPacketSize cannot be shrunk, so multi-frame behaviour of the real code is exercised only at "
                  "the listed boundary lengths and a few random lengths (quick: a handful, one writer/reader variant per large "
                  "case in rotation). Transport fragmentation is a seeded schedule, not an exhaustive one. Network errors / short "
                  "writes are not injected. ReadEphemeralPacketDirect (handshake only, single frame) is not covered.",
    "technique": "TLA+ spec + TLC exhaustive check; TLC-emitted expected frame lists replayed on the real packet writer/readers",
}

M_REAL = (1 << 24) - 1

CFG = """SPECIFICATION Spec
CONSTANTS
  M = %(m)d
  Lengths = {%(lengths)s}
  Seqs = {%(seqs)s}
  BadFrames = {%(badframes)s}
  Lengths2 = {%(lengths2)s}
  Seqs2 = {%(seqs2)s}
  BadFrames2 = {%(badframes2)s}
  Deltas = {%(deltas)s}
  PureDeltas = {%(pure)s}
  EmitCases = %(emit)s
INVARIANTS TypeOK Framing WriterConforms ReaderConforms ReaderIsReassemble Emit
CHECK_DEADLOCK FALSE
"""

HARNESS = ["mysql/frames_test.go"]
RUN = "^TestVerifFrames$"


def ints(xs):
    return ", ".join(str(x) for x in xs)


def cfg(m, lengths, seqs, badframes, deltas, pure, emit, group2=None):
    l2, s2, b2 = group2 or ([], [], [0])
    return CFG % {"m": m, "lengths": ints(sorted(set(lengths))), "seqs": ints(sorted(set(seqs))),
                  "badframes": ints(badframes), "deltas": ints(deltas), "pure": ints(pure),
                  "lengths2": ints(sorted(set(l2))), "seqs2": ints(sorted(set(s2))), "badframes2": ints(b2),
                  "emit": "TRUE" if emit else "FALSE"}


def nontrivial(c):
    """more than one frame (a frame boundary is crossed) or a sequence id wrap inside the packet"""
    return len(c["frames"]) > 1 or c["seq"] + len(c["frames"]) > 255


def corrupt(c):
    # claim a wrong sequence id for the last frame
    c["frames"][-1]["seq"] = (c["frames"][-1]["seq"] + 1) % 256
    return c


def run(ctx):
    ctx.assumptions += [
        "payload content is irrelevant to framing: the specification carries offsets, the harness a seeded byte pattern",
        "the transport delivers bytes in order; it may fragment them arbitrarily (seeded schedules incl. one-byte chunks around headers)",
    ]
    if ctx.replay:
        rec = ctx.read_ndjson(ctx.replay)[0]
        _wire.replay(ctx, "mysql", HARNESS, RUN, [rec["case"]], env={"VERIF_C11_LIGHT": 0})
        return
    rng = random.Random(ctx.seed)
    all_seqs = list(range(256))

    # 1. exhaustive check, M = 4, L <= 3M+1
    lengths4 = list(range(0, 14))
    if ctx.thorough:
        runs = [("all ids, transit faults at every frame, all 255 perturbations on the operators",
                 cfg(4, lengths4, all_seqs, [0, 1, 2, 3, 4], [1, 128, 255], range(1, 256), False)),
                ("M = 3 and M = 1, all ids", cfg(3, range(0, 11), all_seqs, [0, 1, 2, 3, 4], [1, 255], [1, 2, 254, 255], False)),
                ("M = 1", cfg(1, range(0, 5), all_seqs, [0, 1, 2, 3, 4, 5], [1, 255], [1, 255], False))]
    else:
        runs = [("all ids without transit fault + ids around the wrap with a transit fault at every frame; 6 perturbations on the operators",
                 cfg(4, lengths4, all_seqs, [0], [1, 128, 255], [1, 2, 127, 128, 254, 255], False,
                     group2=(lengths4, [0, 1, 127, 251, 252, 253, 254, 255], [0, 1, 2, 3, 4])))]
    for label, text in runs:
        r = ctx.tlc("Wire_frames", "fr_mc.cfg", coverage=True, timeout=1500, workers=4 if not ctx.thorough else "auto",
                    extra_files={"fr_mc.cfg": text}, label=label)
        ctx.log("mc", label, r.stats(), "%.1fs" % r.wall)
        if r.zero_actions:
            ctx.notes.append("vacuous actions (%s): %s" % (label, r.zero_actions))

    # 2. G: expected frame lists for the real frame limit
    M = M_REAL
    boundary = [0, 1, M - 1, M, M + 1, 2 * M - 1, 2 * M, 2 * M + 1, 3 * M]
    if ctx.thorough:
        big_lengths = boundary + [rng.randrange(2, 3 * M) for _ in range(3)] + [3 * M + 1 + rng.randrange(0, 1000)]
        big_seqs = [0, 1, 253, 254, 255, rng.randrange(2, 253)]
        deltas = [1, 128, 255]
    else:
        big_lengths = [0, 1, M - 1, M, M + 1, 2 * M, rng.randrange(M + 2, 2 * M - 1)]
        big_seqs = [255, rng.randrange(0, 255)]
        deltas = [1, 255]
    small_lengths = [0, 1, 2, rng.randrange(3, 70000), 16 * 1024 - 4, 16 * 1024, 16 * 1024 + 1]
    gens = [("boundary lengths x a few ids + short packets x every id",
             cfg(M, big_lengths, big_seqs, [0], deltas, [1, 255], True, group2=(small_lengths, all_seqs, [0])))]
    cases = []
    for label, text in gens:
        r = ctx.tlc("Wire_frames", "fr_gen.cfg", workers=1, timeout=600, extra_files={"fr_gen.cfg": text},
                    label="emit expected frames, M = 2^24-1: " + label)
        if not r.cases:
            raise vlib.Inconclusive("TLC emitted no frame cases (%s)" % label)
        cases += r.cases
    cases.sort(key=lambda c: (c["len"] > 1 << 20, c["len"], c["seq"]))
    known = vlib.known_replay_cases(ctx.pid)
    ctx.log("emitted", len(cases), "cases; %d with more than one frame" % sum(1 for c in cases if len(c["frames"]) > 1))
    # binding self-test (rides on the same harness run): a corrupted expected sequence id must be reported
    good = next(c for c in cases if 1 < c["len"] < 70000)
    res, summ = _wire.replay(ctx, "mysql", HARNESS, RUN, cases + known,
                             env={"VERIF_C11_LIGHT": 0 if ctx.thorough else 1},
                             selftests=[("corrupted_expected_sequence_id_detected", good, corrupt)])
    ctx.log("replayed", summ)
    ctx.cov["traces_validated_against_impl"] += summ["cases"]
    for k in ("frames", "writes", "reads", "wrong_seq_reads", "bytes_read"):
        ctx.cov[k] = summ[k]
    ctx.cov["distinct_nontrivial"] = len({(c["len"], c["seq"]) for c in cases if nontrivial(c)})
    ctx.cov["rule"] = ("case = (payload length, starting sequence id) with the frame list from TLC; non-trivial = more than one "
                       "frame or the sequence id wraps inside the packet")
    multi = [c for c in cases if len(c["frames"]) > 2]
    ctx.sample(cases[0])
    if multi:
        ctx.sample(multi[0])
