"""Helpers shared by the Protocol family (C38, C39): TLC configurations of spec/Protocol*.tla and the
TLC-side judgement of recorded observations (spec/Protocol_trace.tla)."""
import json
import os
import tempfile

ALL_KINDS = ["hs_plain", "hs_db_plugin", "query", "initdb", "fieldlist", "fieldlist_nodb", "prepare", "execute", "execute_rebound", "execute0",
             "longdata", "stmtclose", "stmtreset", "ping", "setoption", "unknown"]

THRESHOLD = 16777215  # mysql.MaxPayloadLen

COMMON = ["proxy/server/proto_common_test.go"]


def tla_set(xs, strings=False):
    if strings:
        return "{" + ", ".join('"%s"' % x for x in xs) + "}"
    return "{" + ", ".join(str(x) for x in xs) + "}"


def constants(limits=(3,), unlim=(0,), rowlens=(2,), maxbytes=30000000, as_coded=False, kinds=("ping",), maxops=1,
              shard4_limit=0, shard4_rowlens=(), maxtotal=2000000000):
    b = "TRUE" if as_coded else "FALSE"
    return """CONSTANTS
  Limits = %s
  UnlimCounts = %s
  RowLens = %s
  Threshold = %d
  MaxBytes = %d
  MaxTotalBytes = %d
  LimitInclusive = %s
  ShardIgnoresMore = %s
  LimitPerChunk = %s
  Shard4MaxLimit = %d
  Shard4RowLens = %s
  Kinds = %s
  MaxOps = %d
""" % (tla_set(limits), tla_set(unlim), tla_set(rowlens), THRESHOLD, maxbytes, maxtotal, b, b, b, shard4_limit,
       tla_set(shard4_rowlens), tla_set(kinds, True), maxops)


def cfg(spec, consts, invariants=(), properties=(), post=None):
    t = "SPECIFICATION %s\n%s" % (spec, consts)
    if invariants:
        t += "INVARIANTS " + " ".join(invariants) + "\n"
    for p in properties:
        t += "PROPERTY %s\n" % p
    if post:
        t += "POSTCONDITION %s\n" % post
    t += "CHECK_DEADLOCK FALSE\n"
    return t


def judge(ctx, lines, keep, label="TLC judges recorded observations", timeout=900):
    """Let TLC (Protocol_trace) judge recorded observation lines.  `keep` = the fields TLC needs per event kind.
    Returns the list of verdict records, one per line, in order: {"t","ev","ok","info"}."""
    import vlib
    if not lines:
        return []
    slim = []
    for e in lines:
        slim.append({k: e[k] for k in keep[e["ev"]]})
    tp = ctx.write_ndjson(tempfile.mktemp(prefix="ptrace-", suffix=".ndjson", dir=ctx.scratch), slim)
    text = cfg("TraceSpec", constants(), invariants=["Emit"], post="TraceAccepted")
    r = ctx.tlc("Protocol_trace", "p_trace.cfg", mode="tv", extra_files={"trace.ndjson": tp, "p_trace.cfg": text},
                allow_violation=True, timeout=timeout, label=label)
    if r.violated:
        raise vlib.Inconclusive("trace judgement did not consume the whole trace (%s); see %s" % (r.violated, ctx._keep(r.out_path)))
    vs = {}
    for c in r.cases:
        if c["l"] >= 1:
            vs[c["l"]] = c["v"]
    if len(vs) != len(slim):
        raise vlib.Inconclusive("TLC judged %d of %d recorded lines; see %s" % (len(vs), len(slim), ctx._keep(r.out_path)))
    out = []
    for i, e in enumerate(slim):
        v = vs[i + 1]
        if v["t"] != e["t"] or v["ev"] != e["ev"]:
            raise vlib.Inconclusive("verdict %d does not belong to its line: %s vs %s" % (i + 1, v, e))
        out.append(v)
    return out


RESULT_KEEP = {"result": ["t", "ev", "limit", "mode", "proto", "rowlen", "n", "outcome", "rows"]}
MALFORM_KEEP = {"case": ["t", "ev", "kind", "ops"], "offender": ["t", "ev", "saw"],
                "healthy": ["t", "ev", "ok"], "accept": ["t", "ev", "ok"]}
