"""Shared helpers of the statement family (C14, C15, C16, C17): spec/SqlLex.tla, spec/StmtLifecycle.tla."""
import json
import os
import random

import vlib

SERVER_PKG = "proxy/server"
PARSER_PKG = "parser"
FIX = "proxy/server/stmtfix_test.go"

# ---------------------------------------------------------------------------------------------
# symbols of SqlLex <-> bytes

SYM2CH = {"SQ": "'", "DQ": '"', "BQ": "`", "BS": "\\", "DASH": "-", "HASH": "#", "SL": "/", "ST": "*", "QM": "?",
          "SEMI": ";", "SP": " ", "NL": "\n", "TAB": "\t", "LB": "[", "COMMA": ",", "EQ": "=", "NUL": "\x00", "CR": "\r",
          "SUB": "\x1a"}
CH2SYM = {v: k for k, v in SYM2CH.items()}


def sym(ch):
    """symbol name of a one-byte character (letters and digits stand for themselves)"""
    if ch in CH2SYM:
        return CH2SYM[ch]
    if ch.isalnum() or ch in "_.()<>":
        return ch
    raise ValueError("no symbol for %r" % ch)


def syms(s):
    return [sym(c) for c in s]


def text_of(symbols):
    return "".join(SYM2CH.get(s, s) for s in symbols)


def tla_seq(symbols):
    return "<<" + ", ".join('"%s"' % s for s in symbols) + ">>"


def tla_words(words):
    """words: iterable of strings (each a word of characters) -> TLA+ set of symbol sequences"""
    return "{" + ", ".join(tla_seq(syms(w)) for w in words) + "}"


SQLLEX_RUN = """---- MODULE %(name)s ----
EXTENDS SqlLex_gen
GenWords == %(words)s
GenPrefix == %(prefix)s
====
"""

SQLLEX_CFG = """SPECIFICATION Spec
CONSTANTS
  Words <- GenWords
  Prefix <- GenPrefix
  MaxLen = %(maxlen)d
  MaxWords = %(maxwords)d
  MinLen = %(minlen)d
  NoBackslash = %(nbs)s
INVARIANTS %(invs)s
CHECK_DEADLOCK FALSE
"""

SQLLEX_SANITY = "TypeOK Incremental MarkersAreQuestionMarks EveryQuestionMarkClassified PiecesPartition"


class CaseFile:
    """NDJSON case file written incrementally; cases can be fetched back by index."""

    def __init__(self, path):
        self.path = path
        self.f = open(path, "w")
        self.offsets = []
        self.pos = 0

    def add(self, case):
        line = json.dumps(case, separators=(",", ":"), sort_keys=True) + "\n"
        self.offsets.append(self.pos)
        self.f.write(line)
        self.pos += len(line.encode())
        return len(self.offsets) - 1

    def close(self):
        self.f.close()

    def __len__(self):
        return len(self.offsets)

    def get(self, i):
        with open(self.path, "rb") as f:
            f.seek(self.offsets[i])
            return json.loads(f.readline())


def lex_case(v):
    """TLC record of SqlLex_gen -> harness case"""
    qs = [[q["p"], q["c"], ",".join(q["t"]) or "none"] for q in v["qs"]]
    return {"s": text_of(v["text"]), "wf": v["wf"], "qs": qs, "m": [q[0] for q in qs if q[1] == "N"],
            "pc": [list(p) for p in v["pieces"]], "sp": list(v["seps"])}


def sqllex_generate(ctx, cf, words, maxlen, prefix="", minlen=0, nbs=False, sanity=False, label="", keep=None,
                    timeout=900, workers=4, maxwords=None, extra=None):
    """Enumerate with TLC every text over `words` (appended to prefix) up to maxlen symbols; every text with the
    specification's markers/pieces is appended to CaseFile cf (optionally filtered by keep(case))."""
    name = "SqlLex_run"
    mod = SQLLEX_RUN % {"name": name, "words": tla_words(words), "prefix": tla_seq(syms(prefix))}
    cfg = SQLLEX_CFG % {"maxlen": maxlen, "minlen": minlen, "maxwords": maxwords or maxlen, "nbs": "TRUE" if nbs else "FALSE",
                        "invs": "Emit" + (" " + SQLLEX_SANITY if sanity else "")}
    n0 = len(cf)

    def sink(v):
        c = lex_case(v)
        if extra:
            c.update(extra)
        if keep is None or keep(c):
            cf.add(c)

    r = ctx.tlc(name, "sqllex_run.cfg", extra_files={name + ".tla": mod, "sqllex_run.cfg": cfg}, workers=workers,
                timeout=timeout, case_sink=sink, keep_cases=False, coverage=False,
                label=label or "enumerate texts over %d words up to %d symbols" % (len(words), maxlen))
    ctx.log("SqlLex", label, "texts:", r.distinct, "kept:", len(cf) - n0, "%.1fs" % r.wall)
    return r


def run_harness(ctx, pkg, files, run, cf, env=None, on_dev=None, replay_wrap=None, timeout=2400, xcheck_is_impl=False):
    """Run a harness over a CaseFile (or a list); every deviation goes to ctx.deviation with the original case.
    Signatures starting with XCHECK are disagreements between the specification and the repository's own scanner:
    a defect of the specification, never a verdict."""
    if isinstance(cf, CaseFile):
        cf.close()
        path, n, get = cf.path, len(cf), cf.get
    else:
        path, n, get = ctx.write_ndjson("cases-%d.ndjson" % random.randrange(1 << 30), cf), len(cf), (lambda i: cf[i])
    if n == 0:
        raise vlib.Inconclusive("no cases generated for %s" % run)
    res, summ, out = ctx.harness(pkg, files, run, path, env=env, timeout=timeout)
    if summ["cases"] != n:
        raise vlib.Inconclusive("harness %s examined %d of %d cases" % (run, summ["cases"], n))
    xc = []
    summ["selftest_devs"] = []
    for r in res:
        case = get(r["case"])
        if case.get("selftest"):
            summ["selftest_devs"] += r.get("devs", [])
            continue
        for d in r.get("devs", []):
            if d["sig"].startswith("XCHECK"):
                xc.append((d, case))
                continue
            rc = {"case": case, "obs": r.get("obs")}
            if replay_wrap:
                rc.update(replay_wrap)
            if on_dev:
                on_dev(d, case, r)
            ctx.deviation(d["sig"], d["what"], rc)
    if xc and xcheck_is_impl and ctx.violations:
        # the scanner is part of the implementation under test here and the implementation's own result already deviates
        # from the specification on real code: report that; the disagreement of the scanner is recorded as a note
        ctx.notes.append("scanner/specification disagreement on %d texts (scanner is part of the implementation under test), "
                         "first: %s %s" % (len(xc), xc[0][0]["sig"], xc[0][0]["what"]))
    elif xc:
        d, case = xc[0]
        raise vlib.Inconclusive("specification and repository scanner disagree on %d texts (specification defect to "
                                "resolve, not a verdict), first: %s %s case=%s" % (len(xc), d["sig"], d["what"], json.dumps(case)))
    ctx.cov["evaluations"] += n
    ctx.cov["traces_validated_against_impl"] += n
    return res, summ


def merge_stats(ctx, key, summ):
    d = ctx.cov.setdefault(key, {})
    for k, v in summ.items():
        if k in ("summary",):
            continue
        if isinstance(v, (int, float)):
            d[k] = d.get(k, 0) + v


def known_cases(pid):
    out = []
    for c in vlib.known_replay_cases(pid):
        if isinstance(c, dict) and "case" in c and isinstance(c["case"], dict):
            out.append(c)
    return out
