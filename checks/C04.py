"""C04 - global tables: writes reach every copy, reads touch one copy.

Specification: spec/Routing.tla (Copies, WriteOK, ReadOK), Routing_glob.tla, RoutingRules.tla (layouts).
Binding: G.  TLC enumerates global-table layouts x statement forms with the set of physical copies; the harness builds
a real namespace/router for the layout, plans the statement with plan.BuildPlan and compares the per-slice,
per-database SQL map: a write must produce exactly one statement per copy, a read exactly one statement at a copy
(the copy is chosen at random: set-membership oracle, repeated), database names must be those of the copy.
"""
import json
import random

import _routing as rt

MANIFEST = {
    "engine": "tla-routing",
    "level_claimed": {
        "category": "model_checking",
        "text": "TLC enumerates 5 (quick) / 9 (thorough) global-table layouts (1-3 namespace slices, 1-2 copies per slice, explicit "
                "and implicit physical database lists, a rule slice list that is a subset / a reordering of the namespace's) x 70 "
                "statement forms (INSERT VALUES/SET, REPLACE, UPDATE, DELETE, SELECT over one or two global tables; schema-qualified, "
                "aliased; no / = / IN / BETWEEN condition) and computes the set of physical copies; each case is planned by the real "
                "plan.BuildPlan over router.NewRouter and the per-slice, per-database SQL map is compared: exactly one statement per "
                "copy for a write, exactly one statement at some copy for a read (repeated 6 x copies times), database names "
                "rewritten to the copy's.",
        "design_ref": "DESIGN.md section 5 C04",
    },
    "level_note": "A physical copy is a distinct (slice, physical database) pair of the configured layout. Statements mixing global and "
                  "sharded tables are C01's subject. Which copy a read picks is random in the code; the check only requires membership "
                  "and reports in the evidence whether every copy was chosen at least once.",
    "technique": "TLA+ spec + TLC exhaustive enumeration of layout x statement cases with the specification's copy set; cases "
                 "replayed on the real planner",
}

CFG = ("SPECIFICATION Spec\nCONSTANTS\n  Layouts <- MCLayouts\n  EmitCases = TRUE\n"
       "INVARIANTS TypeOK Emit CopiesExist\nCHECK_DEADLOCK FALSE\n")


def run(ctx):
    import vlib
    thorough = ctx.thorough
    rng = random.Random(ctx.seed)
    ctx.assumptions += [
        "a physical copy of a global table is a distinct (slice, physical database) pair of its configured layout",
        "the statement sent to a copy is executed there once per occurrence in the per-slice SQL map",
    ]
    if ctx.replay:
        rec = ctx.read_ndjson(ctx.replay)[0]
        summ = rt.feed(ctx, rt.replay_lines(rec), "C04")
        rt.merge_counts(ctx, summ)
        return
    layouts = "ThoroughLayouts" if thorough else "QuickLayouts"
    mod = rt.gen_module("Routing_glob", {"MCLayouts": layouts})
    r = ctx.tlc("RoutingRun", "routing_glob.cfg", extra_files={"RoutingRun.tla": mod, "routing_glob.cfg": CFG},
                workers=1, timeout=900, label="enumerate layout x statement cases")
    ctx.log("generated", len(r.cases), "cases", r.stats(), "%.0fs" % r.wall)
    cases = sorted(r.cases, key=lambda c: (c["layout"]["id"], json.dumps(c["stmt"], sort_keys=True)))
    extra = [c["case"] for c in vlib.known_replay_cases("C04")]
    for c in cases + extra:
        c["sp"] = rng.randrange(1, 1 << 53)
    ctx.cov["cases"] = {"layouts": len({c["layout"]["id"] for c in cases}), "statements": len(cases),
                        "writes": sum(1 for c in cases if c["write"]), "reads": sum(1 for c in cases if not c["write"]),
                        "design_level_counterexample_layouts (I-level copy addressing, TLC dsound flag)": sorted({c["layout"]["id"] for c in cases if not c["dsound"]})}
    for c in cases[:: max(1, len(cases) // 5)]:
        ctx.sample(c)
    # binding self-test case: an expectation with one more copy (write) must be reported as copy-not-written
    selftest = []
    for c in cases:
        if c["write"] and c["dsound"] and c["stmt"]["kind"] == "update":
            bad = json.loads(json.dumps(c))
            bad["copies"] = c["copies"] + [[c["layout"]["ns"], 77]]
            bad["selftest"] = True
            selftest = [bad]
            break
    summ = rt.feed(ctx, cases + extra + selftest, "C04")
    rt.merge_counts(ctx, summ)
    ctx.cov["traces_validated_against_impl"] += len(cases)
    ctx.cov["evaluations"] += summ["counts"].get("plans", 0)
    ctx.cov["distinct_nontrivial"] = summ.get("distinct_nontrivial", 0)
    ctx.cov["rule"] = ("case = (layout, statement form) emitted by TLC with the copy set; non-trivial = the real planner accepted the "
                       "statement and the SQL map met the expectation (one statement per copy / one statement at a copy, database names "
                       "rewritten); counted once per distinct (layout, statement text)")
    ctx.log("replayed", len(cases), "cases;", summ["counts"])
    caught = bool(selftest) and summ["selftest_hits"] == 1
    ctx.cov["binding_selftest"] = {"corrupted_expectation_detected": caught}
    if not caught:
        raise vlib.Inconclusive("binding self-test failed: a corrupted copy set was accepted")
