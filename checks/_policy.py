"""Shared helpers of the StmtPolicy family (C21, C22, C06, C36).

Specification: spec/StmtPolicy.tla (decision tables), spec/StmtPolicy_gen.tla (C21/C22 descriptors),
spec/StmtPolicy_unshard_gen.tla (C06), spec/StmtPolicy_blacklist_gen.tla (C36).
Harness: harness/proxy/server/policy_test.go.

Direction G only: TLC enumerates abstract descriptors and prints each with the decision the specification
requires; the Go harness renders the descriptor to SQL text and replays it on the real SessionExecutor.
Nothing in this file computes an expected value: python only forwards what TLC printed, groups deviations
into signatures and (for minimisation) resets *decoration* fields, which TLC has shown not to change the
decision (invariants DecorationsDoNotMatter / RejectIgnoresContext / DecorationIrrelevant).
"""
import itertools
import json

import vlib

HARNESS = ["proxy/server/policy_test.go"]
PKG = "proxy/server"

# --------------------------------------------------------------------------------------------------
# signature attribution
# --------------------------------------------------------------------------------------------------

def explain(devs, ran, view, project, observe, ident, max_extra=40000):
    """Group deviating cases into signatures that name the feature which defeats the code.

    view(case)   -> (ctx, grounds, feats): grounds = tuple of tags, each by itself creates the obligation the case
                    violates (TLC: GroundsIndependent); feats = tuple of tags of decorations that do not change the
                    decision (TLC: DecorationsDoNotMatter, UnshardedRefsIrrelevant ...)
    project(case, keep_grounds, keep_feats) -> the descriptor with everything else reset (same expected decision)
    ident(case)  -> canonical identity of a descriptor (so that a projected case that was part of the run is found)
    observe(list of cases) -> list of bool (deviates?); runs the harness once on cases that were not part of the run
    Returns list of (case, [(projected minimal case, grounds, feats), ...]).

    A deviating case is explained by, for each of its grounds g, the smallest set of its decorations (size 0, 1, 2)
    under which g alone is already defeated.  If some ground is not defeated by itself the combination is reported.
    """
    known = {}
    for c in ran:
        known[ident(c)] = False
    for c in devs:
        known[ident(c)] = True

    def subsets(fs):
        fs = sorted(fs)
        for n in (0, 1, 2):
            for sub in itertools.combinations(fs, n):
                yield sub

    def gsets(gs):
        out = [(g,) for g in gs] if len(gs) > 1 else [tuple(gs)]
        if len(gs) > 1:
            out.append(tuple(gs))
        return out

    proj = {}

    def subs_of_size(fs, sizes):
        fs = sorted(fs)
        for n in sizes:
            for sub in itertools.combinations(fs, n):
                yield sub

    def explained_by(c, g, fs, sizes):
        for sub in subs_of_size(fs, sizes):
            e = proj.get((id(c), g, sub))
            if e and known.get(e[0]):
                return (e[1], g, sub)
        return None

    # round 1: at most two decorations; round 2 (only for what is still unexplained): three decorations
    for sizes in ((0, 1, 2), (3,)):
        need = {}
        for c in devs:
            ctx, gs, fs = view(c)
            for g in gsets(gs):
                if explained_by(c, g, fs, (0, 1, 2, 3)):
                    continue
                for sub in subs_of_size(fs, sizes):
                    pc = project(c, set(g), set(sub))
                    k = ident(pc)
                    proj[(id(c), g, sub)] = (k, pc)
                    if k not in known and k not in need and len(need) < max_extra:
                        need[k] = pc
        if need:
            keys = list(need.keys())
            obs = observe([need[k] for k in keys])
            for k, o in zip(keys, obs):
                known[k] = o

    def minimal(c, g, fs):
        return explained_by(c, g, fs, (0, 1, 2, 3))

    out = []
    for c in devs:
        ctx, gs, fs = view(c)
        expl = []
        if len(gs) > 1:
            parts = [minimal(c, (g,), fs) for g in gs]
            if all(m is not None for m in parts):
                expl = parts
        if not expl:
            m = minimal(c, tuple(gs), fs)
            expl = [m if m is not None else (c, tuple(gs), tuple(sorted(fs)))]
        out.append((c, expl))
    return out


# --------------------------------------------------------------------------------------------------
# C21 / C22
# --------------------------------------------------------------------------------------------------

POL_CFG = """SPECIFICATION Spec
CONSTANTS
  Family = "%(family)s"
  Tier = "%(tier)s"
  Seed = %(seed)d
  Keep = %(keep)d
  LightMax = %(lightmax)d
INVARIANTS Emit WellFormed Partition RejectNotReplica ReplicaOnlyReads Total DecorationsDoNotMatter TxPinsMaster
           RejectIgnoresContext GroundsIndependent UncheckedLockIrrelevant NoSplitPinsMaster WritesPinMaster
CHECK_DEADLOCK FALSE
"""

POL_DEFAULT = {"lead": "none", "kwsep": "space", "cs": "lower", "trail": "none", "chan": "query",
               "sess": "plain", "priv": "static"}
POL_FIELDS = ["p", "kind", "lead", "kwsep", "cs", "trail", "lock", "lockopt", "hint", "probe", "chan", "intx",
              "ro", "split", "csl", "sess", "priv", "expect"]


def pol_clean(c):
    d = {k: c[k] for k in POL_FIELDS if k in c}
    d.setdefault("sess", "plain")      # cases recorded before the session-history dimensions existed
    d.setdefault("priv", "static")
    return d


def _tag(f, v):
    return "%s=%s" % (f, str(v).lower() if isinstance(v, bool) else v)


POL_SESS = {"plain": (), "after_read": ("earlier-read",), "ks": ("keep-session",), "ks_after_read": ("earlier-read", "keep-session")}


def _deco_tags(c, deco):
    tags = []
    for f in sorted(deco):
        if f == "sess":
            tags += list(POL_SESS[c["sess"]])
        elif c[f] != deco[f]:
            tags.append(_tag(f, c[f]))
    return tags


def _deco_reset(c, d, deco, keep):
    for f in deco:
        if f == "sess":
            kept = tuple(t for t in POL_SESS[c["sess"]] if t in keep)
            d["sess"] = next(k for k, v in POL_SESS.items() if v == kept)
        elif _tag(f, c[f]) not in keep:
            d[f] = deco[f]


def pol_view(family, c):
    """(ctx, grounds, feats) of a descriptor"""
    if family == "C21":
        deco = dict(POL_DEFAULT)
        deco.update({"intx": "no", "split": False})
        return ("", ("kind=%s" % c["kind"],), tuple(_deco_tags(c, deco)))
    ctx = [c["kind"]]
    if c["ro"]:
        ctx.append("user=read-only")
    feats = _deco_tags(c, POL_DEFAULT)
    clause = []                                     # lock clause / hint / probe present in the text
    lock = "lock=%s%s" % (c["lock"], ("/" + c["lockopt"]) if c["lockopt"] != "none" else "")
    if c["lock"] != "none":
        clause.append(lock if c["csl"] else "unchecked-" + lock)
    if c["hint"] != "none":
        clause.append("hint=%s" % c["hint"])
    if c["probe"] != "none":
        clause.append("probe=%s" % c["probe"])
    # what obliges the master, strongest first (TLC: TxPinsMaster, MustUseMaster's disjuncts, GroundsIndependent)
    if c["intx"] != "no":
        grounds = ["intx=%s" % c["intx"]]
    elif not c["ro"] and not c["split"]:
        grounds = ["user=no-split"]
    elif c["kind"] not in ("select", "show"):
        grounds = ["write"]
    else:
        grounds = [x for x in clause if not x.startswith("unchecked-")]
        if not c["split"]:
            ctx.append("user=no-split")
    if grounds and grounds[0] in clause:
        feats += [x for x in clause if x.startswith("unchecked-")]      # check_select_lock off: the clause is a decoration
    else:
        feats += clause                                                  # clauses do not matter for this ground
        if not grounds:
            grounds = ["no-ground"]
    return (" ".join(ctx), tuple(grounds), tuple(sorted(feats)))


def pol_project(family, c, keep_grounds, keep_feats):
    d = pol_clean(c)
    if family == "C21":
        deco = dict(POL_DEFAULT)
        deco.update({"intx": "no", "split": False})
        _deco_reset(c, d, deco, keep_feats)
        return d
    _deco_reset(c, d, POL_DEFAULT, keep_feats)
    keep = set(keep_grounds) | set(keep_feats)
    lock = "lock=%s%s" % (c["lock"], ("/" + c["lockopt"]) if c["lockopt"] != "none" else "")
    if c["lock"] != "none":
        if c["csl"]:
            if lock not in keep:
                d["lock"], d["lockopt"] = "none", "none"
        elif ("unchecked-" + lock) not in keep:
            d["lock"], d["lockopt"], d["csl"] = "none", "none", True
    if c["hint"] != "none" and ("hint=%s" % c["hint"]) not in keep:
        d["hint"] = "none"
    if c["probe"] != "none" and ("probe=%s" % c["probe"]) not in keep:
        d["probe"] = "none"
    return d


def pol_signature(family, ctx, grounds, feats):
    if family == "C21":
        return "C21 %s%s not rejected" % (" ".join(grounds), (" " + "+".join(feats)) if feats else "")
    g = " ".join(grounds)
    if any(f in ("keep-session", "earlier-read", "priv=reloaded") for f in feats):
        # the history of the session decides, not what obliges the statement to use the master
        user = " ".join(x for x in ctx.split() if x.startswith("user="))
        g = "in-transaction" if grounds[0].startswith("intx=") else "must-use-master"
        return "C22 %s%s with %s on replica" % ((user + " ") if user else "", g, "+".join(feats))
    if feats:
        # a decoration defeats the detection of a lock clause whatever the clause is
        g = " ".join("lock" if x.startswith("lock=") else x for x in grounds)
        return "C22 %s %s with %s on replica" % (ctx, g, "+".join(feats))
    return "C22 %s %s on replica" % (ctx, g)


def pol_run_harness(ctx, cases, label=""):
    res, summ, out = ctx.harness(PKG, HARNESS, "^TestVerifStmtPolicy$", cases)
    if summ["cases"] != len(cases):
        raise vlib.Inconclusive("policy harness replayed %d of %d cases" % (summ["cases"], len(cases)))
    return res, summ


def pol_check(ctx, family, cases, selftest=None):
    """replay TLC's cases on the real executor, attribute deviations, report them.
    selftest = (good_case, corrupted_expectation): appended to the batch; the corrupted twin must be reported."""
    batch = list(cases)
    st_idx = None
    if selftest:
        good, flipped = selftest
        bad = dict(pol_clean(good))
        bad["expect"] = flipped
        st_idx = (len(batch), len(batch) + 1)
        batch += [pol_clean(good), bad]
    res, summ = pol_run_harness(ctx, batch)
    devs = []
    flagged = set()
    for r in res:
        if r.get("devs"):
            if st_idx and r["case"] in st_idx:
                flagged.add(r["case"])
                continue
            c = pol_clean(r["obs"]["case"])
            if (family == "C21") != (c["expect"] == "reject"):
                other = ctx.cov.setdefault("deviations_of_the_sibling_property_seen", 0)
                ctx.cov["deviations_of_the_sibling_property_seen"] = other + 1     # C21 judges rejection, C22 routing
                continue
            c["_sql"] = r["obs"]["sql"]
            c["_gets"] = r["obs"]["gets"]
            devs.append(c)
    if st_idx:
        ok = flagged == {st_idx[1]}
        ctx.cov["binding_selftest"] = {"corrupted_expectation_detected": ok}
        if not ok:
            raise vlib.Inconclusive("binding self-test failed: corrupted expectation not reported (flagged %s)" % sorted(flagged))
    extra_runs = [0]

    def observe(cs):
        rr, ss = pol_run_harness(ctx, cs)
        extra_runs[0] += len(cs)
        bad = set(r["case"] for r in rr if r.get("devs"))
        return [i in bad for i in range(len(cs))]

    ident = lambda c: json.dumps(pol_clean(c), sort_keys=True)
    explained = explain(devs, cases, lambda c: pol_view(family, c), lambda c, g, f: pol_project(family, c, g, f), observe, ident)
    explained.sort(key=lambda t: (len(pol_view(family, t[0])[1]) + len(pol_view(family, t[0])[2])))   # minimal example first
    for c, expl in explained:
        what = "%s -> connections taken from %s" % (json.dumps(c["_sql"]), c["_gets"])
        for (pc, gs, fs) in expl:
            ctx.deviation(pol_signature(family, pol_view(family, pc)[0], gs, fs), what, pol_clean(c))
    n = summ["cases"] + extra_runs[0] - (2 if st_idx else 0)
    ctx.cov["evaluations"] += n
    ctx.cov["traces_validated_against_impl"] += n
    oc = ctx.cov.setdefault("outcomes", {})
    for k, v in summ.items():
        if k.startswith("n:") and not k.startswith("n:ctl/"):
            oc[k[2:]] = oc.get(k[2:], 0) + v
    ctx.cov.setdefault("minimisation_runs", 0)
    ctx.cov["minimisation_runs"] += extra_runs[0]
    return devs, summ


def pol_generate(ctx, family, tier, keep, lightmax):
    cfg = POL_CFG % dict(family=family, tier=tier, seed=ctx.seed, keep=keep, lightmax=lightmax)
    r = ctx.tlc("StmtPolicy_gen", "pol.cfg", extra_files={"pol.cfg": cfg}, workers=4 if not ctx.thorough else "auto",
                heap="4g", timeout=1500, coverage=False,
                label="%s descriptors with required decision (%s)" % (family, tier))
    if not r.cases:
        raise vlib.Inconclusive("TLC emitted no %s cases" % family)
    return r


# --------------------------------------------------------------------------------------------------
# C06
# --------------------------------------------------------------------------------------------------

UN_CFG = """SPECIFICATION Spec
CONSTANTS
  Tier = "%(tier)s"
  Seed = %(seed)d
  Keep = %(keep)d
INVARIANTS Emit WellFormed FastOnlyIfUnsharded DecorationIrrelevant OrderIrrelevant UnshardedRefsIrrelevant
           SessionDbIrrelevantWhenQualified
CHECK_DEADLOCK FALSE
"""

UN_REF_DEFAULT = {"cs": "lower", "qual": "none", "bq": False, "glue": "none", "alias": False}
UN_REF_FIELDS = ["cls", "cs", "qual", "bq", "glue", "pos", "alias"]


def un_clean(c):
    sdb = c.get("sdb") or ("rule" if c.get("dbset") else "none")     # older recorded cases carry the boolean dbset
    return {"kind": c["kind"], "sdb": sdb, "sharded": c["sharded"],
            "refs": [{k: r[k] for k in UN_REF_FIELDS} for r in c["refs"]]}


def un_target(c):
    """index of the reference that resolves to a table with a routing rule (None if there is none)"""
    for i, r in enumerate(c["refs"]):
        if r["cls"] != "plain" and (r["qual"] == "db" or (r["qual"] == "none" and c["sdb"] == "rule")):
            return i
    return None


def un_view(c):
    """decorations of the target reference, one tag per other reference, 'no-session-db'"""
    ti = un_target(c)
    ctx = c["kind"]
    if ti is None:
        return (ctx, ("unsharded",), ())
    t = c["refs"][ti]
    feats = [_tag(f, t[f]) for f in sorted(UN_REF_DEFAULT) if t[f] != UN_REF_DEFAULT[f]
             and not (f == "qual" and c["sdb"] != "rule")]   # outside the rule database the qualifier is not optional
    for i, r in enumerate(c["refs"]):
        if i != ti:
            feats.append("ref%d" % i)
            if r["qual"] == "other":
                feats.append("ref%d.qual=other" % i)
    if c["sdb"] != "rule":
        feats.append("session-db=%s" % c["sdb"])
    return (ctx, ("class=%s" % t["cls"],), tuple(sorted(feats)))


def un_project(c, keep_grounds, keep_feats):
    """keep the named decorations / other references, reset or drop the rest (TLC: DecorationIrrelevant,
    UnshardedRefsIrrelevant, SessionDbIrrelevantWhenQualified)"""
    ti = un_target(c)
    d = un_clean(c)
    t = dict(d["refs"][ti])
    if ("session-db=%s" % c["sdb"]) not in keep_feats:
        d["sdb"] = "rule"
    for f in UN_REF_DEFAULT:
        if f == "qual" and d["sdb"] != "rule":
            continue
        if _tag(f, t[f]) not in keep_feats:
            t[f] = UN_REF_DEFAULT[f]
    refs = []
    for i, r in enumerate(d["refs"]):
        if i == ti:
            refs.append(t)
        elif ("ref%d" % i) in keep_feats:
            r = dict(r)
            if r["qual"] == "other" and d["sdb"] != "none" and ("ref%d.qual=other" % i) not in keep_feats:
                r["qual"] = "none"
            refs.append(r)
    refs[0]["pos"] = "first"
    if t["glue"] == "paren_after" and refs[0] is not t:
        t["glue"] = "none"
    if refs[0] is t and d["kind"] in ("insert", "replace"):
        t["alias"] = False
    d["refs"] = refs
    return d


UN_FAMILY = {"select": "select/delete", "delete": "select/delete", "insert": "insert/replace", "replace": "insert/replace",
             "update": "update"}
UN_COARSE = {"cs=upper": "letter-case", "cs=mixed": "letter-case", "glue=cmt_before": "comment-before-name",
             "glue=spcmt_before": "comment-before-name", "glue=cmt_after": "comment-glued-after-name"}


def un_text_order(c):
    """indices of the references in the order the harness renders them: table list, subqueries, second FROMs"""
    grp = {"first": 0, "comma": 0, "join": 0, "subq": 1, "from2": 2}
    return sorted(range(len(c["refs"])), key=lambda i: (grp[c["refs"][i]["pos"]], i))


def un_signature(pc, grounds, feats):
    """describe the minimal descriptor pc (a projection of the deviating case) that still takes the fast path"""
    ti = un_target(pc)
    t = pc["refs"][ti]
    parts = []
    for f in feats:
        if f.startswith("ref") or f.startswith("session-db="):
            continue
        parts.append(UN_COARSE.get(f, f))
    order = un_text_order(pc)
    k = order.index(ti)
    before = [pc["refs"][i] for i in order[:k]]
    after = [pc["refs"][i] for i in order[k + 1:]]
    if ti > 0:
        parts.append("target@%s" % t["pos"])
    if any(r["qual"] == "other" for r in before) and pc["sdb"] == "rule":
        parts.append("after-otherdb-ref")
    later = sorted(set(r["pos"] for r in after))
    if later:
        parts.append("followed-by-" + "/".join(later))
    parts += [f for f in feats if f.startswith("session-db=")]
    parts = sorted(set(parts))
    fam = UN_FAMILY[pc["kind"]]
    if not parts:
        return "C06 %s plain reference to a %s table takes the fast path" % (fam, grounds[0].split("=")[1])
    return "C06 %s %s takes the fast path" % (fam, " + ".join(parts))


def un_run_harness(ctx, cases):
    res, summ, out = ctx.harness(PKG, HARNESS, "^TestVerifUnshardPrecheck$", cases)
    if summ["cases"] != len(cases):
        raise vlib.Inconclusive("C06 harness replayed %d of %d cases" % (summ["cases"], len(cases)))
    return res, summ


def un_check(ctx, cases, selftest=None):
    batch = list(cases)
    st_idx = None
    if selftest is not None:
        bad = un_clean(selftest)
        bad["sharded"] = not bad["sharded"]
        st_idx = len(batch)
        batch.append(bad)
    res, summ = un_run_harness(ctx, batch)
    devs, mism, unparsable = [], [], []
    st_flagged = False
    for r in res:
        sigs = [d["sig"] for d in r.get("devs", [])]
        if not sigs:
            continue
        if st_idx is not None and r["case"] == st_idx:
            st_flagged = True
            continue
        c = un_clean(r["obs"]["case"])
        c["_sql"] = r["obs"]["sql"]
        c["_plan"] = r["obs"].get("plan", "")
        if "C06 fast-path" in sigs:
            devs.append(c)
        elif "C06 model-mismatch" in sigs:
            mism.append(c)
        else:
            unparsable.append((c, r["obs"].get("parse_err", "")))
    if st_idx is not None:
        ctx.cov["binding_selftest"] = {"corrupted_expectation_detected": st_flagged}
        if not st_flagged:
            raise vlib.Inconclusive("binding self-test failed: a corrupted ParserSaysSharded value was not reported")
    if unparsable:
        raise vlib.Inconclusive("C06 harness rendered %d statements the parser rejects, e.g. %r: %s"
                                % (len(unparsable), unparsable[0][0]["_sql"], unparsable[0][1]))
    if mism:
        raise vlib.Inconclusive("the specification's ParserSaysSharded disagrees with plan.Checker on %d statements, e.g. %r "
                                "(spec sharded=%s): the reference the property names cannot be established"
                                % (len(mism), mism[0]["_sql"], mism[0]["sharded"]))
    extra = [0]

    def observe(cs):
        rr, ss = un_run_harness(ctx, cs)
        extra[0] += len(cs)
        bad = set(r["case"] for r in rr if any(d["sig"] == "C06 fast-path" for d in r.get("devs", [])))
        return [i in bad for i in range(len(cs))]

    ident = lambda c: json.dumps(un_clean(c), sort_keys=True)
    explained = explain(devs, cases, un_view, un_project, observe, ident)
    explained.sort(key=lambda t: len(un_view(t[0])[2]) + len(t[0]["refs"]))
    for c, expl in explained:
        what = "%s: parser based analysis says sharded (%s) but the token pre-check builds an unshard plan" % (json.dumps(c["_sql"]), c["_plan"][:60])
        for (pc, gs, fs) in expl:
            ctx.deviation(un_signature(pc, gs, fs), what, un_clean(c))
    n = summ["cases"] + extra[0] - (1 if st_idx is not None else 0)
    ctx.cov["evaluations"] += n
    ctx.cov["traces_validated_against_impl"] += n
    oc = ctx.cov.setdefault("outcomes", {})
    for k, v in summ.items():
        if k.startswith("n:"):
            oc[k[2:]] = oc.get(k[2:], 0) + v
    ctx.cov.setdefault("minimisation_runs", 0)
    ctx.cov["minimisation_runs"] += extra[0]
    return devs, summ


def un_generate(ctx, tier, keep):
    cfg = UN_CFG % dict(tier=tier, seed=ctx.seed, keep=keep)
    r = ctx.tlc("StmtPolicy_unshard_gen", "un.cfg", extra_files={"un.cfg": cfg}, workers=4 if not ctx.thorough else "auto",
                heap="4g", timeout=1500, label="C06 statement descriptors with ParserSaysSharded (%s)" % tier)
    if not r.cases:
        raise vlib.Inconclusive("TLC emitted no C06 cases")
    return r


# --------------------------------------------------------------------------------------------------
# C36
# --------------------------------------------------------------------------------------------------

BL_CFG = """SPECIFICATION Spec
CONSTANTS
  Tier = "%(tier)s"
  Seed = %(seed)d
  Keep = %(keep)d
INVARIANTS EmitBlacklist Emit VariantKeepsSkeleton MutantChangesSkeleton DecisionIsSkeletonMembership
           VariantOfBlacklistedRejected MutantAllowed
CHECK_DEADLOCK FALSE
"""


def bl_generate(ctx, tier, keep):
    cfg = BL_CFG % dict(tier=tier, seed=ctx.seed, keep=keep)
    r = ctx.tlc("StmtPolicy_blacklist_gen", "bl.cfg", extra_files={"bl.cfg": cfg}, workers=4 if not ctx.thorough else "auto",
                heap="4g", timeout=1500, label="C36 statement texts with Rejected(text, Blacklist) (%s)" % tier)
    bl = [c for c in r.cases if c.get("t") == "blacklist"]
    cases = [c for c in r.cases if c.get("t") == "case"]
    if len(bl) != 1 or not cases:
        raise vlib.Inconclusive("TLC emitted %d blacklists and %d C36 cases" % (len(bl), len(cases)))
    return r, bl[0], cases


def bl_run_harness(ctx, bl, cases):
    res, summ, out = ctx.harness(PKG, HARNESS, "^TestVerifBlacklist$", [bl] + cases)
    if summ["cases"] != len(cases) + 1:
        raise vlib.Inconclusive("C36 harness replayed %d of %d cases" % (summ["cases"], len(cases) + 1))
    return res, summ


BL_DIMS = [("cs", "lower"), ("gap", "one"), ("lit", 1), ("cm", "none")]
BL_CM_FAMILY = {"glued": "glued", "spaced": "block", "sqlish": "block", "long": "block", "dash": "line", "hash": "line"}
BL_LIT_NAME = {2: "other-values", 3: "string-with-doubled-quote", 4: "string-with-comment-text", 5: "hex-number/upper-case-string"}


def bl_key(c, keep=None):
    """identity of a generated text: base, mutant and the variant dimensions (those not in keep reset to default)"""
    k = [c["base"], c["mutant"]]
    for d, dflt in BL_DIMS:
        k.append(c[d] if (keep is None or d in keep) else dflt)
    k.append(c["cmpos"] if (keep is None or "cm" in keep) and c["cm"] != "none" else 0)
    return tuple(k)


def bl_feat_name(c, d):
    if d == "cm":
        return "comment=%s@%s" % (BL_CM_FAMILY[c["cm"]], c["poscls"])
    if d == "lit":
        return "literals=%s" % BL_LIT_NAME[c["lit"]]
    if d == "gap":
        return "spacing=%s" % c["gap"]
    return "keyword-case=%s" % c["cs"]


def bl_check(ctx, bl, cases, selftest=True):
    batch = list(cases)
    st_idx = None
    if selftest:
        good = next(c for c in cases if c["mutant"] == "none" and c["rejected"] and bl_key(c) == bl_key(c, keep=()))
        bad = dict(good)
        bad["rejected"] = False
        st_idx = len(batch) + 1          # +1: the blacklist line
        batch.append(bad)
    res, summ = bl_run_harness(ctx, bl, batch)
    devs = []
    st_flagged = False
    for r in res:
        if not r.get("devs"):
            continue
        if st_idx is not None and r["case"] == st_idx:
            st_flagged = True
            continue
        c = dict(r["obs"]["case"])
        c["_sql"] = r["obs"]["sql"]
        c["_fp"] = r["obs"]["fingerprint"]
        c["_sig"] = r["devs"][0]["sig"]
        c["items"] = batch[r["case"] - 1]["items"]
        devs.append(c)
    if st_idx is not None:
        ctx.cov["binding_selftest"] = {"corrupted_expectation_detected": st_flagged}
        if not st_flagged:
            raise vlib.Inconclusive("binding self-test failed: a corrupted Rejected value was not reported")
    devkeys = set(bl_key(c) for c in devs)
    devs.sort(key=lambda c: sum(1 for d, dflt in BL_DIMS if c[d] != dflt))
    for c in devs:
        dims = [d for d, dflt in BL_DIMS if c[d] != dflt]
        expl = None
        for n in range(0, len(dims)):
            for sub in itertools.combinations(dims, n):
                if bl_key(c, keep=sub) in devkeys:
                    expl = sub
                    break
            if expl is not None:
                break
        if expl is None:
            expl = tuple(dims)
        names = " + ".join(bl_feat_name(c, d) for d in expl)
        if c["_sig"] == "C36 wrongly-rejected":
            who = ("mutant=%s" % c["mutant"]) if c["mutant"] != "none" else "statement-not-in-blacklist"
            sig = "C36 %s%s wrongly rejected" % (who, (" " + names) if names else "")
            what = "%s differs structurally from every blacklisted statement but is rejected (fingerprint %s)" % (json.dumps(c["_sql"]), json.dumps(c["_fp"]))
        else:
            who = "blacklisted statement" if c["mutant"] == "none" else "mutant=%s" % c["mutant"]
            sig = "C36 %s not rejected" % (names or ("plain " + who))
            what = "%s is a %s up to literals/spacing/case/comments but passes the blacklist (fingerprint %s)" % (json.dumps(c["_sql"]), who, json.dumps(c["_fp"]))
        rc = {k: v for k, v in c.items() if not k.startswith("_")}
        ctx.deviation(sig, what, {"blacklist": bl, "case": rc})
    n = summ["cases"] - 1 - (1 if st_idx is not None else 0)
    ctx.cov["evaluations"] += n
    ctx.cov["traces_validated_against_impl"] += n
    oc = ctx.cov.setdefault("outcomes", {})
    for k, v in summ.items():
        if k.startswith("n:"):
            oc[k[2:]] = oc.get(k[2:], 0) + v
    return devs, summ
